/-
  Layer A of the dynamic model: the invariant of reachable states and the state-level theorems behind
  C01, C02 (at most once), C07, C12, C14.
-/
import AJ.Model.Run
import AJ.Model.Hist
namespace AJ.Proofs.CoreA
open AJ.Run

set_option linter.unusedSimpArgs false
set_option linter.unusedVariables false

/-- number of children of `s` whose body is executing -/
def runningCount (c : Cfg) (st : StA) (s : Nat) : Nat :=
  ((c.children s).filter fun k => st.ph k == .running).length


/-! ### well-formedness facts -/

theorem mem_children {c : Cfg} {s k : Nat} :
    k ∈ c.children s ↔ k < c.n ∧ k ≠ 0 ∧ c.parent k = s := by
  simp [Cfg.children, List.mem_filter, List.mem_range]

structure WF (c : Cfg) : Prop where
  npos : 0 < c.n
  sched0 : c.isSched 0 = true
  parent0 : c.parent 0 = 0
  req0 : c.req 0 = []
  parentLt : ∀ j, 0 < j → j < c.n → c.parent j < j
  parentSched : ∀ j, 0 < j → j < c.n → c.isSched (c.parent j) = true
  reqLt : ∀ j, 0 < j → j < c.n → ∀ r ∈ c.req j, r < j
  reqPos : ∀ j, 0 < j → j < c.n → ∀ r ∈ c.req j, 0 < r
  reqParent : ∀ j, 0 < j → j < c.n → ∀ r ∈ c.req j, c.parent r = c.parent j

theorem wf_of {c : Cfg} (h : c.wf = true) : WF c := by
  simp only [Cfg.wf, Bool.and_eq_true, decide_eq_true_eq, beq_iff_eq, List.all_eq_true,
    List.mem_range, Bool.or_eq_true, List.isEmpty_iff] at h
  obtain ⟨⟨⟨⟨h1, h2⟩, h3⟩, h4⟩, h5⟩ := h
  refine ⟨h1, h2, h3, h4, ?_, ?_, ?_, ?_, ?_⟩
  all_goals
    intro j hj0 hjn
    have := h5 j hjn
    have hne : ¬ j = 0 := by omega
    simp only [hne, false_or] at this
  · exact this.1.1
  · exact this.1.2
  · intro r hr; exact (this.2 r hr).1.1
  · intro r hr; exact (this.2 r hr).1.2
  · intro r hr; exact (this.2 r hr).2

theorem WF.parentLtN {c : Cfg} (w : WF c) {j : Nat} (h0 : 0 < j) (hn : j < c.n) : c.parent j < c.n := by
  have := w.parentLt j h0 hn; omega

theorem WF.parentNe {c : Cfg} (w : WF c) {j : Nat} (h0 : 0 < j) (hn : j < c.n) : c.parent j ≠ j := by
  have := w.parentLt j h0 hn; omega

theorem WF.req_child {c : Cfg} (w : WF c) {s k r : Nat} (hk : k ∈ c.children s) (hr : r ∈ c.req k) :
    r ∈ c.children s := by
  rw [mem_children] at hk ⊢
  obtain ⟨hn, h0, hp⟩ := hk
  have h0' : 0 < k := by omega
  have := w.reqLt k h0' hn r hr
  have := w.reqPos k h0' hn r hr
  have := w.reqParent k h0' hn r hr
  refine ⟨by omega, by omega, by omega⟩

theorem not_self_child {c : Cfg} (w : WF c) (s : Nat) : s ∉ c.children s := by
  intro h
  rw [mem_children] at h
  have := w.parentLt s (by omega) h.1
  omega

theorem zero_not_child {c : Cfg} (s : Nat) : 0 ∉ c.children s := by
  intro h
  rw [mem_children] at h
  exact h.2.1 rfl

/-! ### counting -/

def rcOf (c : Cfg) (ph : Nat → Ph) (s : Nat) : Nat :=
  ((c.children s).filter fun k => ph k == .running).length

theorem runningCount_eq (c : Cfg) (st : StA) (s : Nat) : runningCount c st s = rcOf c st.ph s := rfl

theorem rcOf_eq_countP (c : Cfg) (ph : Nat → Ph) (s : Nat) :
    rcOf c ph s = (List.range c.n).countP (fun k => (k != 0 && c.parent k == s) && ph k == .running) := by
  simp [rcOf, Cfg.children, List.filter_filter, List.countP_eq_length_filter, Bool.and_comm]

theorem countP_range_congr (p q : Nat → Bool) (n : Nat) (h : ∀ k, k < n → p k = q k) :
    (List.range n).countP p = (List.range n).countP q := by
  apply List.countP_congr
  intro k hk
  rw [List.mem_range] at hk
  rw [h k hk]

theorem countP_range_update (p q : Nat → Bool) (j : Nat) (h : ∀ k, k ≠ j → p k = q k)
    (hp : p j = false) (hq : q j = true) :
    ∀ n, j < n → (List.range n).countP q = (List.range n).countP p + 1 := by
  intro n
  induction n with
  | zero => intro h; omega
  | succ n ih =>
    intro hj
    rw [List.range_succ, List.countP_append, List.countP_append]
    by_cases hjn : j = n
    · subst hjn
      rw [countP_range_congr q p j (fun k hk => (h k (by omega)).symm)]
      simp [hp, hq]
    · have := ih (by omega)
      rw [this]
      have : p n = q n := h n (by omega)
      simp [this]
      omega

theorem rcOf_congr (c : Cfg) (ph ph' : Nat → Ph) (s : Nat)
    (h : ∀ k ∈ c.children s, (ph k == Ph.running) = (ph' k == Ph.running)) : rcOf c ph s = rcOf c ph' s := by
  unfold rcOf
  congr 1
  apply List.filter_congr
  exact h

theorem rcOf_zero (c : Cfg) (ph : Nat → Ph) (s : Nat) (h : ∀ k ∈ c.children s, ph k ≠ .running) :
    rcOf c ph s = 0 := by
  unfold rcOf
  simp only [List.length_eq_zero_iff, List.filter_eq_nil_iff]
  intro k hk
  simpa using h k hk

/-- exactly one child of `parent j` starts executing -/
theorem rcOf_inc (c : Cfg) (ph ph' : Nat → Ph) (j : Nat) (h0 : 0 < j) (hn : j < c.n)
    (hoth : ∀ k, k ≠ j → ph' k = ph k) (hb : ph j ≠ .running) (ha : ph' j = .running) :
    rcOf c ph' (c.parent j) = rcOf c ph (c.parent j) + 1 := by
  rw [rcOf_eq_countP, rcOf_eq_countP]
  apply countP_range_update _ _ j _ _ _ _ hn
  · intro k hk; rw [hoth k hk]
  · simp [hb]
  · simp [ha]; omega

theorem rcOf_dec (c : Cfg) (ph ph' : Nat → Ph) (j : Nat) (h0 : 0 < j) (hn : j < c.n)
    (hoth : ∀ k, k ≠ j → ph' k = ph k) (hb : ph j = .running) (ha : ph' j ≠ .running) :
    rcOf c ph' (c.parent j) + 1 = rcOf c ph (c.parent j) :=
  (rcOf_inc c ph' ph j h0 hn (fun k hk => (hoth k hk).symm) ha hb).symm

/-- a change at `j` does not affect the count of any other scheduler than `parent j` -/
theorem rcOf_other (c : Cfg) (ph ph' : Nat → Ph) (j s : Nat)
    (hoth : ∀ k, k ≠ j → ph' k = ph k) (hs : j = 0 ∨ c.parent j ≠ s) :
    rcOf c ph' s = rcOf c ph s := by
  apply rcOf_congr
  intro k hk
  rw [mem_children] at hk
  have : k ≠ j := by
    intro e; subst e
    rcases hs with h | h
    · exact hk.2.1 h
    · exact h hk.2.2
  rw [hoth k this]

/-- what holds in every reachable state of layer A -/
structure InvA (c : Cfg) (st : StA) : Prop where
  /-- only jobs of the configuration ever leave `idle` -/
  phRange : ∀ j, st.ph j ≠ .idle → j < c.n
  /-- a scheduler whose task is idle or queued has not begun its run -/
  notBegun : ∀ s, c.isSched s = true → (st.ph s = .idle ∨ st.ph s = .queued) → st.pc s = .notBegun
  /-- the jobs of a scheduler that has not begun are idle -/
  childIdle : ∀ k, 0 < k → k < c.n → st.pc (c.parent k) = .notBegun → st.ph k = .idle
  /-- `_running` is false before the slot is taken, true from then on -/
  rflagOff : ∀ j, (st.ph j = .idle ∨ st.ph j = .queued) → st.rflag j = false
  rflagOn : ∀ j, (st.ph j = .running ∨ (st.ph j).isDone = true) → st.rflag j = true
  /-- only finished tasks are handed over by `asyncio.wait` -/
  delivFin : ∀ k, st.deliv k = true → ((st.ph k).isDone = true ∨ st.ph k = .cancelled)
  /-- C01: a job that was started has all its requirements finished -/
  reqsDone : ∀ k, 0 < k → k < c.n → st.ph k ≠ .idle → ∀ r ∈ c.req k, (st.ph r).isDone = true
  /-- a pending reaction belongs to a run in its main loop, and its `done` set was handed over -/
  rxLoop : ∀ s D, st.rx s = some D → st.pc s = .loop ∧ ∀ d ∈ D, st.deliv d = true
  /-- C07: the window queue holds one item per executing job -/
  qcountEq : ∀ s, s < c.n → c.isSched s = true → st.qcount s = runningCount c st s
  qcountLe : ∀ s, s < c.n → c.isSched s = true → c.window s ≠ 0 → st.qcount s ≤ c.window s
  /-- C02: bodies are entered at most once, no task is created twice -/
  entries0 : ∀ j, (st.ph j = .idle ∨ st.ph j = .queued) → st.entries j = 0
  entries1 : ∀ j, st.entries j ≤ 1
  noDbl : st.dbl = false
  /-- C12: while a run is in its main loop, an idle job has a requirement that is not
      finished-and-reported-and-reacted-to -/
  eager : ∀ s, st.pc s = .loop → ∀ k ∈ c.children s, st.ph k = .idle →
            ∃ r ∈ c.req k, ¬ ((st.ph r).isDone = true ∧ st.deliv r = true ∧ r ∉ (st.rx s).getD [])
  /-- cancellation is only pending on unfinished tasks -/
  creqLive : ∀ j, st.creq j = true → (st.ph j).live = true

/-! ### helpers -/

theorem rcOf_setAt_other (c : Cfg) (ph : Nat → Ph) (j s : Nat) (v : Ph) (hs : j = 0 ∨ c.parent j ≠ s) :
    rcOf c (setAt ph j v) s = rcOf c ph s :=
  rcOf_other c ph _ j s (fun k hk => by simp [setAt, hk]) hs

theorem rcOf_setAt_same (c : Cfg) (ph : Nat → Ph) (j s : Nat) (v : Ph) (hb : ph j ≠ .running) (hv : v ≠ .running) :
    rcOf c (setAt ph j v) s = rcOf c ph s := by
  apply rcOf_congr
  intro k _
  by_cases hk : k = j
  · subst hk
    have h1 : (v == Ph.running) = false := by simpa using hv
    have h2 : (ph k == Ph.running) = false := by simpa using hb
    simp [setAt, h1, h2]
  · simp [setAt, hk]

theorem rcOf_setAt_inc (c : Cfg) (ph : Nat → Ph) (j : Nat) (h0 : 0 < j) (hn : j < c.n) (hb : ph j ≠ .running) :
    rcOf c (setAt ph j .running) (c.parent j) = rcOf c ph (c.parent j) + 1 :=
  rcOf_inc c ph _ j h0 hn (fun k hk => by simp [setAt, hk]) hb (by simp [setAt])

theorem rcOf_setAt_dec (c : Cfg) (ph : Nat → Ph) (j : Nat) (v : Ph) (h0 : 0 < j) (hn : j < c.n)
    (hb : ph j = .running) (hv : v ≠ .running) :
    rcOf c (setAt ph j v) (c.parent j) + 1 = rcOf c ph (c.parent j) :=
  rcOf_dec c ph _ j h0 hn (fun k hk => by simp [setAt, hk]) hb (by simp [setAt, hv])

theorem rcOf_start (c : Cfg) (ph : Nat → Ph) (S : List Nat) (s : Nat) :
    rcOf c (fun k => if k ∈ S ∧ ph k = .idle then .queued else ph k) s = rcOf c ph s := by
  apply rcOf_congr
  intro k _
  by_cases h : k ∈ S ∧ ph k = .idle
  · simp only [h, and_self, if_true]; rfl
  · simp only [h, if_false]

theorem setAt_setAt {α : Type} (f : Nat → α) (j : Nat) (a b : α) : setAt (setAt f j a) j b = setAt f j b := by
  funext k; simp only [setAt]; split <;> rfl

theorem setAt_same {α : Type} (f : Nat → α) (j : Nat) (a : α) : setAt f j a j = a := by simp [setAt]

theorem setAt_ne {α : Type} (f : Nat → α) (j k : Nat) (a : α) (h : k ≠ j) : setAt f j a k = f k := by simp [setAt, h]

theorem mem_entrySet {c : Cfg} {s k : Nat} : k ∈ entrySet c s ↔ k ∈ c.children s ∧ c.req k = [] := by
  simp [entrySet, List.mem_filter]

theorem mem_doneSet {c : Cfg} {st : StA} {s k : Nat} :
    k ∈ doneSet c st s ↔ k ∈ c.children s ∧ ((st.ph k).isDone = true ∨ st.ph k = .cancelled) ∧ st.deliv k = false := by
  simp [doneSet, List.mem_filter]

theorem mem_startCands {c : Cfg} {st : StA} {s k : Nat} {D : List Nat} :
    k ∈ startCands c st s D ↔
      k ∈ c.children s ∧ st.ph k = .idle ∧ (∃ r ∈ c.req k, r ∈ D) ∧ ∀ r ∈ c.req k, (st.ph r).isDone = true := by
  simp [startCands, List.mem_filter, and_assoc]

theorem InvA.delivOff {c : Cfg} {st : StA} (hinv : InvA c st) {j : Nat}
    (h : st.ph j = .idle ∨ st.ph j = .queued ∨ st.ph j = .running) : st.deliv j = false := by
  cases hd : st.deliv j with
  | false => rfl
  | true => have := hinv.delivFin j hd; grind [Ph.isDone]

theorem InvA.creqOff {c : Cfg} {st : StA} (hinv : InvA c st) {j : Nat}
    (h : st.ph j = .idle) : st.creq j = false := by
  cases hd : st.creq j with
  | false => rfl
  | true => have := hinv.creqLive j hd; grind [Ph.live]

theorem InvA.rxNone {c : Cfg} {st : StA} (hinv : InvA c st) {s : Nat} (h : st.pc s ≠ .loop) : st.rx s = none := by
  cases hd : st.rx s with
  | none => rfl
  | some D => exact absurd (hinv.rxLoop s D hd).1 h

theorem InvA.parentBegun {c : Cfg} {st : StA} (hinv : InvA c st) {k : Nat} (h0 : 0 < k) (hn : k < c.n)
    (h : st.ph k ≠ .idle) : st.pc (c.parent k) ≠ .notBegun :=
  fun hp => h (hinv.childIdle k h0 hn hp)

theorem InvA.childrenIdle {c : Cfg} {st : StA} (hinv : InvA c st) {s : Nat} (h : st.pc s = .notBegun) :
    ∀ k ∈ c.children s, st.ph k = .idle := by
  intro k hk
  rw [mem_children] at hk
  exact hinv.childIdle k (by omega) hk.1 (by rw [hk.2.2]; exact h)

/-! ### preservation, one lemma per kind of transition -/

theorem inv_grantAtomic {c : Cfg} (w : WF c) {st : StA} (hinv : InvA c st) {j : Nat}
    (hj0 : 0 < j) (hjn : j < c.n) (hph : st.ph j = .queued) (hcr : st.creq j = false)
    (hslot : slotFree c st (c.parent j) = true) :
    InvA c { st with ph := setAt st.ph j .running, rflag := setAt st.rflag j true,
                     qcount := setAt st.qcount (c.parent j) (st.qcount (c.parent j) + 1),
                     entries := setAt st.entries j (st.entries j + 1) } := by
  have hpn := w.parentNe hj0 hjn
  have hdl : st.deliv j = false := hinv.delivOff (by simp [hph])
  have hpb := hinv.parentBegun hj0 hjn (by simp [hph])
  constructor
  · intro k; simp only [setAt]; have := hinv.phRange k; grind
  · intro k; simp only [setAt]; have := hinv.notBegun k; grind
  · intro k; simp only [setAt]; have := hinv.childIdle k; grind
  · intro k; simp only [setAt]; have := hinv.rflagOff k; grind
  · intro k; simp only [setAt]; have := hinv.rflagOn k; grind [Ph.isDone]
  · intro k; simp only [setAt]; have := hinv.delivFin k; grind [Ph.isDone]
  · intro k; simp only [setAt]; have := hinv.reqsDone k; grind [Ph.isDone]
  · intro k; simp only [setAt]; have := hinv.rxLoop k; grind
  · intro s hs hsch
    have := hinv.qcountEq s hs hsch
    simp only [runningCount_eq] at this ⊢
    by_cases hsp : c.parent j = s
    · subst hsp
      have := rcOf_setAt_inc c st.ph j hj0 hjn (by simp [hph])
      simp [setAt]; omega
    · rw [rcOf_setAt_other c st.ph j s _ (Or.inr hsp)]
      simp [setAt, Ne.symm hsp]; omega
  · intro s hs hsch hw
    have := hinv.qcountLe s hs hsch hw
    simp only [slotFree, Bool.or_eq_true, beq_iff_eq, decide_eq_true_eq] at hslot
    simp only [setAt]; grind
  · intro k; simp only [setAt]; have := hinv.entries0 k; grind
  · intro k; simp only [setAt]; have := hinv.entries1 k; have := hinv.entries0 j; grind
  · exact hinv.noDbl
  · intro s hl k hk hi
    simp only [setAt] at hl hi ⊢
    obtain ⟨r, hr, hnr⟩ := hinv.eager s hl k hk (by grind)
    exact ⟨r, hr, by grind [Ph.isDone]⟩
  · intro k; simp only [setAt]; have := hinv.creqLive k; grind [Ph.live]

theorem inv_grantEmpty {c : Cfg} (w : WF c) {st : StA} (hinv : InvA c st) {j : Nat}
    (hj0 : 0 < j) (hjn : j < c.n) (hph : st.ph j = .queued) (hcr : st.creq j = false)
    (hslot : slotFree c st (c.parent j) = true) (hsch : c.isSched j = true)
    (he : (c.children j).isEmpty = true) :
    InvA c (release c (beginRun c
      { st with ph := setAt st.ph j .running, rflag := setAt st.rflag j true,
                qcount := setAt st.qcount (c.parent j) (st.qcount (c.parent j) + 1),
                entries := setAt st.entries j (st.entries j + 1) } j) j) := by
  unfold beginRun
  rw [if_pos he]
  have hpn := w.parentNe hj0 hjn
  have hdl : st.deliv j = false := hinv.delivOff (by simp [hph])
  have hpb := hinv.parentBegun hj0 hjn (by simp [hph])
  have hpcj := hinv.notBegun j hsch (Or.inr hph)
  have hrxj : st.rx j = none := hinv.rxNone (by simp [hpcj])
  constructor
  · intro k; simp only [release, setAt]; have := hinv.phRange k; grind
  · intro k; simp only [release, setAt]; have := hinv.notBegun k; grind
  · intro k; simp only [release, setAt]; have := hinv.childIdle k; grind
  · intro k; simp only [release, setAt]; have := hinv.rflagOff k; grind
  · intro k; simp only [release, setAt]; have := hinv.rflagOn k; grind [Ph.isDone]
  · intro k; simp only [release, setAt]; have := hinv.delivFin k; grind [Ph.isDone]
  · intro k; simp only [release, setAt]; have := hinv.reqsDone k; grind [Ph.isDone]
  · intro k; simp only [release, setAt]; have := hinv.rxLoop k; grind
  · intro s hs hsch
    have := hinv.qcountEq s hs hsch
    simp only [runningCount_eq] at this ⊢
    simp only [release, setAt_setAt]
    rw [rcOf_setAt_same c st.ph j s _ (by simp [hph]) (by simp)]
    simp only [setAt]; grind
  · intro s hs hsch hw
    have := hinv.qcountLe s hs hsch hw
    simp only [release, setAt]; grind
  · intro k; simp only [release, setAt]; have := hinv.entries0 k; grind
  · intro k; simp only [release, setAt]; have := hinv.entries1 k; have := hinv.entries0 j; grind
  · exact hinv.noDbl
  · intro s hl k hk hi
    simp only [release, setAt] at hl hi ⊢
    obtain ⟨r, hr, hnr⟩ := hinv.eager s (by grind) k hk (by grind)
    exact ⟨r, hr, by grind [Ph.isDone]⟩
  · intro k; simp only [release, setAt]; have := hinv.creqLive k; grind [Ph.live]

theorem inv_grantNest {c : Cfg} (w : WF c) {st : StA} (hinv : InvA c st) {j : Nat}
    (hj0 : 0 < j) (hjn : j < c.n) (hph : st.ph j = .queued) (hcr : st.creq j = false)
    (hslot : slotFree c st (c.parent j) = true) (hsch : c.isSched j = true)
    (he : ¬ (c.children j).isEmpty = true) :
    InvA c (beginRun c
      { st with ph := setAt st.ph j .running, rflag := setAt st.rflag j true,
                qcount := setAt st.qcount (c.parent j) (st.qcount (c.parent j) + 1),
                entries := setAt st.entries j (st.entries j + 1) } j) := by
  unfold beginRun
  rw [if_neg he]
  have hpn := w.parentNe hj0 hjn
  have hdl : st.deliv j = false := hinv.delivOff (by simp [hph])
  have hpb := hinv.parentBegun hj0 hjn (by simp [hph])
  have hpcj := hinv.notBegun j hsch (Or.inr hph)
  have hrxj : st.rx j = none := hinv.rxNone (by simp [hpcj])
  have hidle := hinv.childrenIdle hpcj
  have hE : ∀ k, k ∈ entrySet c j ↔ k ∈ c.children j ∧ c.req k = [] := fun k => mem_entrySet
  have hjc := not_self_child w j
  generalize entrySet c j = E at hE
  constructor
  · intro k; simp only [startJobs, setAt]; have := hinv.phRange k; have := hE k; have := @mem_children c j k; grind
  · intro k; simp only [startJobs, setAt]; have := hinv.notBegun k; grind
  · intro k; simp only [startJobs, setAt]; have := hinv.childIdle k; have := hE k; have := @mem_children c j k; grind
  · intro k; simp only [startJobs, setAt]; have := hinv.rflagOff k; grind
  · intro k; simp only [startJobs, setAt]; have := hinv.rflagOn k; grind [Ph.isDone]
  · intro k; simp only [startJobs, setAt]; have := hinv.delivFin k; grind [Ph.isDone]
  · intro k h0 hn hne r hr
    simp only [startJobs, setAt] at hne ⊢
    have := hinv.reqsDone k h0 hn
    have := hE k
    have hd : (st.ph r).isDone = true := by grind
    grind [Ph.isDone]
  · intro s' D'; simp only [startJobs, setAt]; have := hinv.rxLoop s' D'; grind
  · intro s hs hsch'
    have := hinv.qcountEq s hs hsch'
    simp only [runningCount_eq] at this ⊢
    simp only [startJobs]
    rw [rcOf_start]
    by_cases hsj : s = j
    · subst hsj
      rw [rcOf_zero]
      · simp [setAt]
      · intro k hk
        have := hidle k hk
        have : k ≠ s := fun e => hjc (e ▸ hk)
        simp [setAt, *]
    · by_cases hsp : c.parent j = s
      · subst hsp
        have := rcOf_setAt_inc c st.ph j hj0 hjn (by simp [hph])
        simp [setAt, hsj]; omega
      · rw [rcOf_setAt_other c st.ph j s _ (Or.inr hsp)]
        simp [setAt, Ne.symm hsp, hsj]; omega
  · intro s hs hsch' hw
    have := hinv.qcountLe s hs hsch' hw
    simp only [slotFree, Bool.or_eq_true, beq_iff_eq, decide_eq_true_eq] at hslot
    simp only [startJobs, setAt]; grind
  · intro k; simp only [startJobs, setAt]; have := hinv.entries0 k; grind
  · intro k; simp only [startJobs, setAt]; have := hinv.entries1 k; have := hinv.entries0 j; grind
  · simp only [startJobs, hinv.noDbl, Bool.false_or, List.any_eq_false]
    intro k hk
    have hkc := ((hE k).1 hk).1
    have := hidle k hkc
    have : k ≠ j := fun e => hjc (e ▸ hkc)
    simp [setAt, *]
  · intro s hl k hk hi
    simp only [startJobs, setAt] at hl hi ⊢
    have hmono : ∀ r, (if r ∈ E ∧ (if r = j then Ph.running else st.ph r) = .idle then Ph.queued
        else (if r = j then Ph.running else st.ph r)).isDone = true → (st.ph r).isDone = true ∧ r ≠ j := by
      intro r; split
      · simp [Ph.isDone]
      · split <;> simp_all [Ph.isDone]
    have hki : st.ph k = .idle := by grind
    by_cases hsj : s = j
    · subst hsj
      have hkE : k ∉ E := by grind
      rw [hE] at hkE
      cases hreq : c.req k with
      | nil => exact absurd ⟨hk, hreq⟩ hkE
      | cons r rs =>
        have hr : r ∈ c.req k := by simp [hreq]
        have hrc := w.req_child hk hr
        have := hidle r hrc
        refine ⟨r, by simp, fun h => ?_⟩
        have := (hmono r h.1).1
        simp_all [Ph.isDone]
    · simp only [hsj, if_false] at hl ⊢
      obtain ⟨r, hr, hnr⟩ := hinv.eager s hl k hk hki
      exact ⟨r, hr, fun h => hnr ⟨(hmono r h.1).1, h.2.1, h.2.2⟩⟩
  · intro k; simp only [startJobs, setAt]; have := hinv.creqLive k; grind [Ph.live]

theorem inv_runBeginEmpty {c : Cfg} (w : WF c) {st : StA} (hinv : InvA c st)
    (hph : st.ph 0 = .idle) (hpc : st.pc 0 = .notBegun)
    (he : (c.children 0).isEmpty = true) :
    InvA c (beginRun c { st with ph := setAt st.ph 0 .running, rflag := setAt st.rflag 0 true } 0) := by
  unfold beginRun
  rw [if_pos he]
  have hn := w.npos
  have hdl : st.deliv 0 = false := hinv.delivOff (by simp [hph])
  have hcr : st.creq 0 = false := hinv.creqOff hph
  have hrxj : st.rx 0 = none := hinv.rxNone (by simp [hpc])
  constructor
  · intro k; simp only [setAt]; have := hinv.phRange k; grind
  · intro k; simp only [setAt]; have := hinv.notBegun k; grind
  · intro k; simp only [setAt]; have := hinv.childIdle k; grind
  · intro k; simp only [setAt]; have := hinv.rflagOff k; grind
  · intro k; simp only [setAt]; have := hinv.rflagOn k; grind [Ph.isDone]
  · intro k; simp only [setAt]; have := hinv.delivFin k; grind [Ph.isDone]
  · intro k; simp only [setAt]; have := hinv.reqsDone k; grind [Ph.isDone]
  · intro k; simp only [setAt]; have := hinv.rxLoop k; grind
  · intro s hs hsch
    have := hinv.qcountEq s hs hsch
    simp only [runningCount_eq] at this ⊢
    simp only [setAt_setAt]
    rw [rcOf_setAt_other c st.ph 0 s _ (Or.inl rfl)]
    exact this
  · exact hinv.qcountLe
  · intro k; simp only [setAt]; have := hinv.entries0 k; grind
  · exact hinv.entries1
  · exact hinv.noDbl
  · intro s hl k hk hi
    simp only [setAt] at hl hi ⊢
    obtain ⟨r, hr, hnr⟩ := hinv.eager s (by grind) k hk (by grind)
    exact ⟨r, hr, by grind [Ph.isDone]⟩
  · intro k; simp only [setAt]; have := hinv.creqLive k; grind [Ph.live]

theorem inv_runBeginNest {c : Cfg} (w : WF c) {st : StA} (hinv : InvA c st)
    (hph : st.ph 0 = .idle) (hpc : st.pc 0 = .notBegun)
    (he : ¬ (c.children 0).isEmpty = true) :
    InvA c (beginRun c { st with ph := setAt st.ph 0 .running, rflag := setAt st.rflag 0 true } 0) := by
  unfold beginRun
  rw [if_neg he]
  have hn := w.npos
  have hdl : st.deliv 0 = false := hinv.delivOff (by simp [hph])
  have hcr : st.creq 0 = false := hinv.creqOff hph
  have hrxj : st.rx 0 = none := hinv.rxNone (by simp [hpc])
  have hidle := hinv.childrenIdle hpc
  have hE : ∀ k, k ∈ entrySet c 0 ↔ k ∈ c.children 0 ∧ c.req k = [] := fun k => mem_entrySet
  have hjc := @zero_not_child c 0
  generalize entrySet c 0 = E at hE
  constructor
  · intro k; simp only [startJobs, setAt]; have := hinv.phRange k; have := hE k; have := @mem_children c 0 k; grind
  · intro k; simp only [startJobs, setAt]; have := hinv.notBegun k; grind
  · intro k; simp only [startJobs, setAt]; have := hinv.childIdle k; have := hE k; have := @mem_children c 0 k; grind
  · intro k; simp only [startJobs, setAt]; have := hinv.rflagOff k; grind
  · intro k; simp only [startJobs, setAt]; have := hinv.rflagOn k; grind [Ph.isDone]
  · intro k; simp only [startJobs, setAt]; have := hinv.delivFin k; grind [Ph.isDone]
  · intro k h0 hn hne r hr
    simp only [startJobs, setAt] at hne ⊢
    have := hinv.reqsDone k h0 hn
    have := hE k
    have hd : (st.ph r).isDone = true := by grind
    grind [Ph.isDone]
  · intro s' D'; simp only [startJobs, setAt]; have := hinv.rxLoop s' D'; grind
  · intro s hs hsch'
    have := hinv.qcountEq s hs hsch'
    simp only [runningCount_eq] at this ⊢
    simp only [startJobs]
    rw [rcOf_start]
    by_cases hsj : s = 0
    · subst hsj
      rw [rcOf_zero]
      · simp [setAt]
      · intro k hk
        have := hidle k hk
        have : k ≠ 0 := fun e => hjc (e ▸ hk)
        simp [setAt, *]
    · rw [rcOf_setAt_other c st.ph 0 s _ (Or.inl rfl)]
      simp [setAt, hsj]; omega
  · intro s hs hsch' hw
    have := hinv.qcountLe s hs hsch' hw
    simp only [startJobs, setAt]; grind
  · intro k; simp only [startJobs, setAt]; have := hinv.entries0 k; grind
  · exact hinv.entries1
  · simp only [startJobs, hinv.noDbl, Bool.false_or, List.any_eq_false]
    intro k hk
    have hkc := ((hE k).1 hk).1
    have := hidle k hkc
    have : k ≠ 0 := fun e => hjc (e ▸ hkc)
    simp [setAt, *]
  · intro s hl k hk hi
    simp only [startJobs, setAt] at hl hi ⊢
    have hmono : ∀ r, (if r ∈ E ∧ (if r = 0 then Ph.running else st.ph r) = .idle then Ph.queued
        else (if r = 0 then Ph.running else st.ph r)).isDone = true → (st.ph r).isDone = true ∧ r ≠ 0 := by
      intro r; split
      · simp [Ph.isDone]
      · split <;> simp_all [Ph.isDone]
    have hki : st.ph k = .idle := by grind
    by_cases hsj : s = 0
    · subst hsj
      have hkE : k ∉ E := by grind
      rw [hE] at hkE
      cases hreq : c.req k with
      | nil => exact absurd ⟨hk, hreq⟩ hkE
      | cons r rs =>
        have hr : r ∈ c.req k := by simp [hreq]
        have hrc := w.req_child hk hr
        have := hidle r hrc
        refine ⟨r, by simp, fun h => ?_⟩
        have := (hmono r h.1).1
        simp_all [Ph.isDone]
    · simp only [hsj, if_false] at hl ⊢
      obtain ⟨r, hr, hnr⟩ := hinv.eager s hl k hk hki
      exact ⟨r, hr, fun h => hnr ⟨(hmono r h.1).1, h.2.1, h.2.2⟩⟩
  · intro k; simp only [startJobs, setAt]; have := hinv.creqLive k; grind [Ph.live]

theorem inv_bodyEnd {c : Cfg} (w : WF c) {st : StA} (hinv : InvA c st) {j : Nat} (v : Res)
    (hj0 : 0 < j) (hjn : j < c.n) (hns : c.isSched j = false) (hph : st.ph j = .running)
    (hcr : st.creq j = false) :
    InvA c (release c { st with ph := setAt st.ph j (.done v) } j) := by
  have hpn := w.parentNe hj0 hjn
  have hdl : st.deliv j = false := hinv.delivOff (by simp [hph])
  constructor
  · intro k; simp only [release, setAt]; have := hinv.phRange k; grind
  · intro k; simp only [release, setAt]; have := hinv.notBegun k; grind
  · intro k; simp only [release, setAt]; have := hinv.childIdle k; grind
  · intro k; simp only [release, setAt]; have := hinv.rflagOff k; grind
  · intro k; simp only [release, setAt]; have := hinv.rflagOn k; grind [Ph.isDone]
  · intro k; simp only [release, setAt]; have := hinv.delivFin k; grind [Ph.isDone]
  · intro k; simp only [release, setAt]; have := hinv.reqsDone k; grind [Ph.isDone]
  · intro k; simp only [release, setAt]; have := hinv.rxLoop k; grind
  · intro s hs hsch
    have := hinv.qcountEq s hs hsch
    simp only [runningCount_eq] at this ⊢
    simp only [release]
    by_cases hsp : c.parent j = s
    · subst hsp
      have := rcOf_setAt_dec c st.ph j (.done v) hj0 hjn hph (by simp)
      simp [setAt]; omega
    · rw [rcOf_setAt_other c st.ph j s _ (Or.inr hsp)]
      simp [setAt, Ne.symm hsp]; omega
  · intro s hs hsch hw
    have := hinv.qcountLe s hs hsch hw
    simp only [release, setAt]; grind
  · intro k; simp only [release, setAt]; have := hinv.entries0 k; grind
  · intro k; simp only [release, setAt]; have := hinv.entries1 k; grind
  · exact hinv.noDbl
  · intro s hl k hk hi
    simp only [release, setAt] at hl hi ⊢
    obtain ⟨r, hr, hnr⟩ := hinv.eager s hl k hk (by grind)
    exact ⟨r, hr, by grind [Ph.isDone]⟩
  · intro k; simp only [release, setAt]; have := hinv.creqLive k; grind [Ph.live]

theorem inv_cancelAck_run {c : Cfg} (w : WF c) {st : StA} (hinv : InvA c st) {j : Nat}
    (hj0 : 0 < j) (hjn : j < c.n) (hph : st.ph j = .running) :
    InvA c (release c { st with ph := setAt st.ph j .cancelled, creq := setAt st.creq j false } j) := by
  have hpn := w.parentNe hj0 hjn
  have hdl : st.deliv j = false := hinv.delivOff (by simp [hph])
  constructor
  · intro k; simp only [release, setAt]; have := hinv.phRange k; grind
  · intro k; simp only [release, setAt]; have := hinv.notBegun k; grind
  · intro k; simp only [release, setAt]; have := hinv.childIdle k; grind
  · intro k; simp only [release, setAt]; have := hinv.rflagOff k; grind
  · intro k; simp only [release, setAt]; have := hinv.rflagOn k; grind [Ph.isDone]
  · intro k; simp only [release, setAt]; have := hinv.delivFin k; grind [Ph.isDone]
  · intro k; simp only [release, setAt]; have := hinv.reqsDone k; grind [Ph.isDone]
  · intro k; simp only [release, setAt]; have := hinv.rxLoop k; grind
  · intro s hs hsch
    have := hinv.qcountEq s hs hsch
    simp only [runningCount_eq] at this ⊢
    simp only [release]
    by_cases hsp : c.parent j = s
    · subst hsp
      have := rcOf_setAt_dec c st.ph j .cancelled hj0 hjn hph (by simp)
      simp [setAt]; omega
    · rw [rcOf_setAt_other c st.ph j s _ (Or.inr hsp)]
      simp [setAt, Ne.symm hsp]; omega
  · intro s hs hsch hw
    have := hinv.qcountLe s hs hsch hw
    simp only [release, setAt]; grind
  · intro k; simp only [release, setAt]; have := hinv.entries0 k; grind
  · intro k; simp only [release, setAt]; have := hinv.entries1 k; grind
  · exact hinv.noDbl
  · intro s hl k hk hi
    simp only [release, setAt] at hl hi ⊢
    obtain ⟨r, hr, hnr⟩ := hinv.eager s hl k hk (by grind)
    exact ⟨r, hr, by grind [Ph.isDone]⟩
  · intro k; simp only [release, setAt]; have := hinv.creqLive k; grind [Ph.live]

theorem inv_cancelAck_q {c : Cfg} (w : WF c) {st : StA} (hinv : InvA c st) {j : Nat}
    (hj0 : 0 < j) (hjn : j < c.n) (hph : st.ph j = .queued) :
    InvA c { st with ph := setAt st.ph j .cancelled, creq := setAt st.creq j false } := by
  have hpn := w.parentNe hj0 hjn
  have hdl : st.deliv j = false := hinv.delivOff (by simp [hph])
  constructor
  · intro k; simp only [release, setAt]; have := hinv.phRange k; grind
  · intro k; simp only [release, setAt]; have := hinv.notBegun k; grind
  · intro k; simp only [release, setAt]; have := hinv.childIdle k; grind
  · intro k; simp only [release, setAt]; have := hinv.rflagOff k; grind
  · intro k; simp only [release, setAt]; have := hinv.rflagOn k; grind [Ph.isDone]
  · intro k; simp only [release, setAt]; have := hinv.delivFin k; grind [Ph.isDone]
  · intro k; simp only [release, setAt]; have := hinv.reqsDone k; grind [Ph.isDone]
  · intro k; simp only [release, setAt]; have := hinv.rxLoop k; grind
  · intro s hs hsch
    have := hinv.qcountEq s hs hsch
    simp only [runningCount_eq] at this ⊢
    rw [rcOf_setAt_same c st.ph j s _ (by simp [hph]) (by simp)]
    exact this
  · exact hinv.qcountLe
  · intro k; simp only [release, setAt]; have := hinv.entries0 k; grind
  · intro k; simp only [release, setAt]; have := hinv.entries1 k; grind
  · exact hinv.noDbl
  · intro s hl k hk hi
    simp only [release, setAt] at hl hi ⊢
    obtain ⟨r, hr, hnr⟩ := hinv.eager s hl k hk (by grind)
    exact ⟨r, hr, by grind [Ph.isDone]⟩
  · intro k; simp only [release, setAt]; have := hinv.creqLive k; grind [Ph.live]

theorem inv_finish0 {c : Cfg} (w : WF c) {st : StA} (hinv : InvA c st) (v : Ph)
    (hv : v.isDone = true ∨ v = .cancelled)
    (hpc : st.pc 0 = .exiting) (hph : st.ph 0 = .running) :
    InvA c { st with pc := setAt st.pc 0 .over, ph := setAt st.ph 0 v, creq := setAt st.creq 0 false } := by
  have hdl : st.deliv 0 = false := hinv.delivOff (by simp [hph])
  have hn := w.npos
  have hvi : v ≠ .idle := by rcases hv with h | h <;> (intro e; subst e; simp [Ph.isDone] at h)
  have hvq : v ≠ .queued := by rcases hv with h | h <;> (intro e; subst e; simp [Ph.isDone] at h)
  have hvr : v ≠ .running := by rcases hv with h | h <;> (intro e; subst e; simp [Ph.isDone] at h)
  constructor
  · intro k; simp only [release, setAt]; have := hinv.phRange k; grind
  · intro k; simp only [release, setAt]; have := hinv.notBegun k; grind [Ph.isDone]
  · intro k; simp only [release, setAt]; have := hinv.childIdle k; grind
  · intro k; simp only [release, setAt]; have := hinv.rflagOff k; grind [Ph.isDone]
  · intro k; simp only [release, setAt]; have := hinv.rflagOn k; grind [Ph.isDone]
  · intro k; simp only [release, setAt]; have := hinv.delivFin k; grind [Ph.isDone]
  · intro k; simp only [release, setAt]; have := hinv.reqsDone k; grind [Ph.isDone]
  · intro k; simp only [release, setAt]; have := hinv.rxLoop k; grind
  · intro s hs hsch
    have := hinv.qcountEq s hs hsch
    simp only [runningCount_eq] at this ⊢
    rw [rcOf_setAt_other c st.ph 0 s _ (Or.inl rfl)]
    exact this
  · exact hinv.qcountLe
  · intro k; simp only [release, setAt]; have := hinv.entries0 k; grind [Ph.isDone]
  · intro k; simp only [release, setAt]; have := hinv.entries1 k; grind
  · exact hinv.noDbl
  · intro s hl k hk hi
    simp only [release, setAt] at hl hi ⊢
    obtain ⟨r, hr, hnr⟩ := hinv.eager s (by grind) k hk (by grind)
    exact ⟨r, hr, by grind [Ph.isDone]⟩
  · intro k; simp only [release, setAt]; have := hinv.creqLive k; grind [Ph.live]

theorem inv_finishS {c : Cfg} (w : WF c) {st : StA} (hinv : InvA c st) {s : Nat} (v : Ph)
    (hv : v.isDone = true ∨ v = .cancelled) (hs0 : 0 < s) (hsn : s < c.n)
    (hpc : st.pc s = .exiting) (hph : st.ph s = .running) :
    InvA c (release c { st with pc := setAt st.pc s .over, ph := setAt st.ph s v, creq := setAt st.creq s false } s) := by
  have hdl : st.deliv s = false := hinv.delivOff (by simp [hph])
  have hvi : v ≠ .idle := by rcases hv with h | h <;> (intro e; subst e; simp [Ph.isDone] at h)
  have hvq : v ≠ .queued := by rcases hv with h | h <;> (intro e; subst e; simp [Ph.isDone] at h)
  have hvr : v ≠ .running := by rcases hv with h | h <;> (intro e; subst e; simp [Ph.isDone] at h)
  have hpn := w.parentNe hs0 hsn
  constructor
  · intro k; simp only [release, setAt]; have := hinv.phRange k; grind
  · intro k; simp only [release, setAt]; have := hinv.notBegun k; grind [Ph.isDone]
  · intro k; simp only [release, setAt]; have := hinv.childIdle k; grind
  · intro k; simp only [release, setAt]; have := hinv.rflagOff k; grind [Ph.isDone]
  · intro k; simp only [release, setAt]; have := hinv.rflagOn k; grind [Ph.isDone]
  · intro k; simp only [release, setAt]; have := hinv.delivFin k; grind [Ph.isDone]
  · intro k; simp only [release, setAt]; have := hinv.reqsDone k; grind [Ph.isDone]
  · intro k; simp only [release, setAt]; have := hinv.rxLoop k; grind
  · intro s' hs hsch
    have := hinv.qcountEq s' hs hsch
    simp only [runningCount_eq] at this ⊢
    simp only [release]
    by_cases hsp : c.parent s = s'
    · subst hsp
      have := rcOf_setAt_dec c st.ph s v hs0 hsn hph hvr
      simp [setAt]; omega
    · rw [rcOf_setAt_other c st.ph s s' _ (Or.inr hsp)]
      simp [setAt, Ne.symm hsp]; omega
  · intro s' hs hsch hw
    have := hinv.qcountLe s' hs hsch hw
    simp only [release, setAt]; grind
  · intro k; simp only [release, setAt]; have := hinv.entries0 k; grind [Ph.isDone]
  · intro k; simp only [release, setAt]; have := hinv.entries1 k; grind
  · exact hinv.noDbl
  · intro s' hl k hk hi
    simp only [release, setAt] at hl hi ⊢
    obtain ⟨r, hr, hnr⟩ := hinv.eager s' (by grind) k hk (by grind)
    exact ⟨r, hr, by grind [Ph.isDone]⟩
  · intro k; simp only [release, setAt]; have := hinv.creqLive k; grind [Ph.live]

theorem inv_tick {c : Cfg} {st : StA} (hinv : InvA c st) (t : Nat) : InvA c { st with now := t } := by
  cases hinv
  constructor <;> assumption

theorem inv_extCancel {c : Cfg} {st : StA} (hinv : InvA c st) (hph : st.ph 0 = .running) :
    InvA c { st with creq := setAt st.creq 0 true } := by
  refine { hinv with creqLive := ?_ }
  intro k; simp only [setAt]; have := hinv.creqLive k; grind [Ph.live]

theorem inv_waitReturn {c : Cfg} (w : WF c) {st : StA} (hinv : InvA c st) {s : Nat} (D : List Nat)
    (hD : ∀ k ∈ D, k ∈ c.children s ∧ ((st.ph k).isDone = true ∨ st.ph k = .cancelled))
    (hpc : st.pc s = .loop) (hrx : st.rx s = none) :
    InvA c { st with deliv := (fun k => st.deliv k || decide (k ∈ D)), rx := setAt st.rx s (some D) } := by
  constructor
  · exact hinv.phRange
  · exact hinv.notBegun
  · exact hinv.childIdle
  · exact hinv.rflagOff
  · exact hinv.rflagOn
  · intro k; simp only [setAt]; have := hinv.delivFin k; have := hD k; grind
  · exact hinv.reqsDone
  · intro s' D'; simp only [setAt]; have := hinv.rxLoop s' D'; grind
  · exact hinv.qcountEq
  · exact hinv.qcountLe
  · exact hinv.entries0
  · exact hinv.entries1
  · exact hinv.noDbl
  · intro s' hl k hk hi
    simp only [setAt] at hl hi ⊢
    obtain ⟨r, hr, hnr⟩ := hinv.eager s' hl k hk hi
    refine ⟨r, hr, ?_⟩
    by_cases hss : s' = s
    · subst hss
      simp only [hrx] at hnr
      simp
      grind
    · have hrc := w.req_child hk hr
      have hrD : r ∉ D := by
        intro hrd
        have := (hD r hrd).1
        rw [mem_children] at this hrc
        omega
      simp only [hss, if_false]
      grind
  · exact hinv.creqLive

theorem inv_leave {c : Cfg} (w : WF c) {st : StA} (hinv : InvA c st) {s : Nat} (K : List Nat)
    (hK : ∀ k ∈ K, k ∈ c.children s ∧ (st.ph k).live = true)
    (hpc : st.pc s = .loop) :
    InvA c { st with pc := setAt st.pc s .exiting, rx := setAt st.rx s none,
                     creq := fun k => st.creq k || decide (k ∈ K) } := by
  constructor
  · exact hinv.phRange
  · intro k; simp only [setAt]; have := hinv.notBegun k; grind
  · intro k; simp only [setAt]; have := hinv.childIdle k; grind
  · exact hinv.rflagOff
  · exact hinv.rflagOn
  · exact hinv.delivFin
  · exact hinv.reqsDone
  · intro s' D'; simp only [setAt]; have := hinv.rxLoop s' D'; grind
  · exact hinv.qcountEq
  · exact hinv.qcountLe
  · exact hinv.entries0
  · exact hinv.entries1
  · exact hinv.noDbl
  · intro s' hl k hk hi
    simp only [setAt] at hl hi ⊢
    obtain ⟨r, hr, hnr⟩ := hinv.eager s' (by grind) k hk hi
    exact ⟨r, hr, by grind⟩
  · intro k; simp only [setAt]; have := hinv.creqLive k; have := hK k; grind

theorem inv_reactGo {c : Cfg} (w : WF c) {st : StA} (hinv : InvA c st) {s : Nat} (D : List Nat)
    (hrx : st.rx s = some D) (hpc : st.pc s = .loop) :
    InvA c (startJobs { st with rx := setAt st.rx s none } (startCands c { st with rx := setAt st.rx s none } s D)) := by
  have hC : ∀ k, k ∈ startCands c { st with rx := setAt st.rx s none } s D ↔
      k ∈ c.children s ∧ st.ph k = .idle ∧ (∃ r ∈ c.req k, r ∈ D) ∧ ∀ r ∈ c.req k, (st.ph r).isDone = true :=
    fun k => mem_startCands
  generalize startCands c { st with rx := setAt st.rx s none } s D = C at hC
  constructor
  · intro k; simp only [startJobs, setAt]; have := hinv.phRange k; have := hC k; have := @mem_children c s k; grind
  · intro k; simp only [startJobs, setAt]; have := hinv.notBegun k; grind
  · intro k; simp only [startJobs, setAt]; have := hinv.childIdle k; have := hC k; have := @mem_children c s k; grind
  · intro k; simp only [startJobs, setAt]; have := hinv.rflagOff k; grind
  · intro k; simp only [startJobs, setAt]; have := hinv.rflagOn k; grind [Ph.isDone]
  · intro k; simp only [startJobs, setAt]; have := hinv.delivFin k; grind [Ph.isDone]
  · intro k h0 hn hne r hr
    simp only [startJobs, setAt] at hne ⊢
    have := hinv.reqsDone k h0 hn
    have := hC k
    have hd : (st.ph r).isDone = true := by grind
    grind [Ph.isDone]
  · intro s' D'; simp only [startJobs, setAt]; have := hinv.rxLoop s' D'; grind
  · intro s' hs hsch
    have := hinv.qcountEq s' hs hsch
    simp only [runningCount_eq] at this ⊢
    simp only [startJobs]
    rw [rcOf_start]
    exact this
  · exact hinv.qcountLe
  · intro k; simp only [startJobs, setAt]; have := hinv.entries0 k; grind
  · exact hinv.entries1
  · simp only [startJobs, hinv.noDbl, Bool.false_or, List.any_eq_false]
    intro k hk
    have := (hC k).1 hk
    simp [this.2.1]
  · intro s' hl k hk hi
    simp only [startJobs, setAt] at hl hi ⊢
    have hki : st.ph k = .idle := by grind
    have hkC : k ∉ C := by grind
    obtain ⟨r, hr, hnr⟩ := hinv.eager s' hl k hk hki
    have hmono : ∀ r, (if r ∈ C ∧ st.ph r = .idle then Ph.queued else st.ph r).isDone = true → (st.ph r).isDone = true := by
      intro r; split <;> simp [Ph.isDone]
    by_cases hss : s' = s
    · subst hss
      simp only [hrx] at hnr
      simp only [if_true, Option.getD_none, List.not_mem_nil, not_false_eq_true, and_true]
      rw [hC] at hkC
      by_cases hnd : ∃ r' ∈ c.req k, ¬ (st.ph r').isDone = true
      · obtain ⟨r', hr', hnd⟩ := hnd
        exact ⟨r', hr', fun h => hnd (hmono r' h.1)⟩
      · have hall : ∀ r' ∈ c.req k, (st.ph r').isDone = true := by
          intro r' hr'
          cases hd : (st.ph r').isDone with
          | true => rfl
          | false => exact absurd ⟨r', hr', by simp [hd]⟩ hnd
        have hany : ¬ ∃ r ∈ c.req k, r ∈ D := fun h => hkC ⟨hk, hki, h, hall⟩
        refine ⟨r, hr, fun h => hnr ⟨hmono r h.1, h.2, ?_⟩⟩
        simp only [Option.getD_some]
        exact fun hrd => hany ⟨r, hr, hrd⟩
    · simp only [hss, if_false]
      exact ⟨r, hr, fun h => hnr ⟨hmono r h.1, h.2.1, h.2.2⟩⟩
  · intro k; simp only [startJobs, setAt]; have := hinv.creqLive k; grind [Ph.live]

/-! ### the invariant holds in every reachable state -/

theorem invA_init (c : Cfg) : InvA c StA.init := by
  have hb : (Ph.idle == Ph.running) = false := rfl
  have hf : ∀ l : List Nat, (l.filter fun _ => false) = [] := fun l => by
    induction l with
    | nil => rfl
    | cons a l ih => simp [List.filter]
  constructor <;> simp [StA.init, runningCount, Ph.isDone, Ph.live, hb, hf]

theorem invA_step (c : Cfg) (hwf : c.wf = true) (st st' : StA) (e : EvA)
    (hinv : InvA c st) (h : stepA c st e = some st') : InvA c st' := by
  have w := wf_of hwf
  cases e with
  | runBegin =>
    simp only [stepA] at h
    split at h
    · rename_i hg
      cases h
      by_cases he : (c.children 0).isEmpty = true
      · exact inv_runBeginEmpty w hinv hg.1 hg.2 he
      · exact inv_runBeginNest w hinv hg.1 hg.2 he
    · cases h
  | grant j =>
    simp only [stepA] at h
    split at h
    · rename_i hg
      obtain ⟨h0, hn, hph, hcr, hsl⟩ := hg
      split at h
      · rename_i hsch
        cases h
        split
        · rename_i he
          exact inv_grantEmpty w hinv h0 hn hph hcr hsl hsch he
        · rename_i he
          exact inv_grantNest w hinv h0 hn hph hcr hsl hsch he
      · cases h
        exact inv_grantAtomic w hinv h0 hn hph hcr hsl
    · cases h
  | bodyEnd j ok =>
    simp only [stepA] at h
    split at h
    · rename_i hg
      obtain ⟨h0, hn, hns, hph, hcr⟩ := hg
      cases h
      exact inv_bodyEnd w hinv _ h0 hn hns hph hcr
    · cases h
  | cancelAck j =>
    simp only [stepA] at h
    split at h
    · rename_i hg
      obtain ⟨h0, hn, hcr, hph⟩ := hg
      cases h
      split
      · rename_i hr
        exact inv_cancelAck_run w hinv h0 hn hr
      · rename_i hr
        rcases hph with hq | hq
        · exact inv_cancelAck_q w hinv h0 hn hq
        · exact absurd hq.1 hr
    · cases h
  | waitReturn s =>
    simp only [stepA] at h
    split at h
    · rename_i hg
      obtain ⟨hn, hsch, hpc, hrx, hD⟩ := hg
      cases h
      refine inv_waitReturn w hinv _ ?_ hpc hrx
      intro k hk
      rw [mem_doneSet] at hk
      exact ⟨hk.1, hk.2.1⟩
    · cases h
  | react s leave K =>
    simp only [stepA] at h
    split at h
    · cases h
    · rename_i D hrx
      split at h
      · rename_i hg
        obtain ⟨hn, hsch, hpc, hlk, hK⟩ := hg
        split at h
        · cases h
          exact inv_leave w hinv K hK hpc
        · cases h
          exact inv_reactGo w hinv D hrx hpc
      · cases h
  | leave s K =>
    simp only [stepA] at h
    split at h
    · rename_i hg
      obtain ⟨hn, hsch, hpc, hK⟩ := hg
      cases h
      exact inv_leave w hinv K hK hpc
    · cases h
  | finish s r =>
    simp only [stepA] at h
    split at h
    · rename_i hg
      obtain ⟨hn, hsch, hpc, hph⟩ := hg
      cases h
      have hv : (match r with | some r => Ph.done r | none => Ph.cancelled).isDone = true ∨
          (match r with | some r => Ph.done r | none => Ph.cancelled) = .cancelled := by
        cases r <;> simp [Ph.isDone]
      split
      · rename_i hs0
        subst hs0
        exact inv_finish0 w hinv _ hv hpc hph
      · rename_i hs0
        exact inv_finishS w hinv _ hv (by omega) hn hpc hph
    · cases h
  | tick d =>
    simp only [stepA] at h
    split at h
    · cases h
      exact inv_tick hinv _
    · cases h
  | extCancel =>
    simp only [stepA] at h
    split at h
    · rename_i hg
      cases h
      exact inv_extCancel hinv hg.1
    · cases h

theorem invA_reach_from (c : Cfg) (hwf : c.wf = true) (evs : List EvA) :
    ∀ (st0 st : StA), InvA c st0 → acceptA c st0 evs = some st → InvA c st := by
  induction evs with
  | nil => intro st0 st h0 h; simp only [acceptA] at h; cases h; exact h0
  | cons e es ih =>
    intro st0 st h0 h
    simp only [acceptA] at h
    split at h
    · rename_i st1 hs
      exact ih st1 st (invA_step c hwf st0 st1 e h0 hs) h
    · cases h

theorem invA_reach (c : Cfg) (hwf : c.wf = true) (evs : List EvA) (st : StA)
    (h : acceptA c StA.init evs = some st) : InvA c st :=
  invA_reach_from c hwf evs StA.init st (invA_init c) h

/-! ### per-step facts (no invariant needed) -/

theorem mono_of {st st' : StA} {j : Nat}
    (h1 : st'.ph j = st.ph j ∨ ((st.ph j = .idle ∨ st.ph j = .queued ∨ st.ph j = .running) ∧ st'.ph j ≠ .idle))
    (h2 : st.rflag j = true → st'.rflag j = true) :
    (∀ r, st.ph j = .done r → st'.ph j = .done r) ∧
    (isScheduled st j = true → isScheduled st' j = true) ∧
    (isRunning st j = true → isRunning st' j = true) ∧
    (isDone st j = true → isDone st' j = true) := by
  simp only [isScheduled, isRunning, isDone]
  refine ⟨?_, ?_, h2, ?_⟩
  · intro r hr; rcases h1 with h | h
    · rw [h, hr]
    · simp [hr] at h
  · rcases h1 with h | h
    · rw [h]; exact id
    · intro _; simpa using h.2
  · rcases h1 with h | h
    · rw [h]; exact id
    · intro hd; rcases h.1 with h | h | h <;> simp [h, Ph.isDone] at hd

theorem step_monotone (c : Cfg) (st st' : StA) (e : EvA) (h : stepA c st e = some st') (j : Nat) :
    (∀ r, st.ph j = .done r → st'.ph j = .done r) ∧
    (isScheduled st j = true → isScheduled st' j = true) ∧
    (isRunning st j = true → isRunning st' j = true) ∧
    (isDone st j = true → isDone st' j = true) := by
  apply mono_of
  · cases e <;> simp only [stepA] at h <;> (repeat' split at h) <;> cases h <;>
      (try unfold beginRun) <;> (repeat' split) <;> simp only [release, startJobs, setAt] <;> grind
  · cases e <;> simp only [stepA] at h <;> (repeat' split at h) <;> cases h <;>
      (try unfold beginRun) <;> (repeat' split) <;> simp only [release, startJobs, setAt] <;> grind

/-! ### state-level property theorems -/

theorem window_respected (c : Cfg) (hwf : c.wf = true) (evs : List EvA) (st : StA)
    (h : acceptA c StA.init evs = some st) (s : Nat) (hs : s < c.n) (hsch : c.isSched s = true)
    (hw : c.window s ≠ 0) : runningCount c st s ≤ c.window s := by
  have hinv := invA_reach c hwf evs st h
  rw [← hinv.qcountEq s hs hsch]
  exact hinv.qcountLe s hs hsch hw

theorem predicates_chain (c : Cfg) (hwf : c.wf = true) (evs : List EvA) (st : StA)
    (h : acceptA c StA.init evs = some st) (j : Nat) :
    (isDone st j = true → isRunning st j = true) ∧
    (isRunning st j = true → isScheduled st j = true) ∧
    (isIdle st j = !isScheduled st j) ∧
    (st.ph j = .queued → isScheduled st j = true ∧ isRunning st j = false) ∧
    ((st.ph j = .cancelled ∨ st.ph j = .idle) → isDone st j = false) := by
  have hinv := invA_reach c hwf evs st h
  have hoff := hinv.rflagOff j
  have hon := hinv.rflagOn j
  simp only [isDone, isRunning, isScheduled, isIdle]
  refine ⟨fun hd => hon (Or.inr hd), ?_, ?_, ?_, ?_⟩
  · intro hr
    by_cases hi : st.ph j = .idle
    · rw [hoff (Or.inl hi)] at hr; cases hr
    · simpa using hi
  · simp only [bne, Bool.not_not]
  · intro hq
    exact ⟨by simp [hq], hoff (Or.inr hq)⟩
  · rintro (hc | hc) <;> simp [hc, Ph.isDone]

theorem eager_at_quiescence (c : Cfg) (hwf : c.wf = true) (evs : List EvA) (st st' : StA) (d : Nat)
    (h : acceptA c StA.init evs = some st) (htick : stepA c st (.tick d) = some st')
    (s : Nat) (hs : s < c.n) (hsch : c.isSched s = true) (hloop : st.pc s = .loop) :
    ∀ k ∈ c.children s,
      (st.ph k = .idle → ∃ r ∈ c.req k, (st.ph r).isDone = false) ∧
      (st.ph k = .queued → st.creq k = true ∨ (c.window s ≠ 0 ∧ runningCount c st s = c.window s)) := by
  have hinv := invA_reach c hwf evs st h
  have w := wf_of hwf
  simp only [stepA] at htick
  split at htick
  · rename_i hg
    obtain ⟨hd, hq, hl⟩ := hg
    have hls := hl s (List.mem_range.2 hs)
    have hquiet : doneSet c st s = [] ∧ st.rx s = none := by
      constructor
      · cases hD : doneSet c st s with
        | nil => rfl
        | cons a l => exact absurd ⟨hsch, hloop, Or.inl (by simp [hD])⟩ hls
      · cases hD : st.rx s with
        | none => rfl
        | some D => exact absurd ⟨hsch, hloop, Or.inr (by simp [hD])⟩ hls
    intro k hk
    have hkc := mem_children.1 hk
    constructor
    · intro hi
      obtain ⟨r, hr, hnr⟩ := hinv.eager s hloop k hk hi
      refine ⟨r, hr, ?_⟩
      cases hdn : (st.ph r).isDone with
      | false => rfl
      | true =>
        exfalso
        have hrc := w.req_child hk hr
        cases hdl : st.deliv r with
        | true => exact hnr ⟨hdn, hdl, by simp [hquiet.2]⟩
        | false =>
          have : r ∈ doneSet c st s := mem_doneSet.2 ⟨hrc, Or.inl hdn, hdl⟩
          rw [hquiet.1] at this
          simp at this
    · intro hqd
      have hk' := hq k (List.mem_range.2 hkc.1)
      cases hcr : st.creq k with
      | true => exact Or.inl rfl
      | false =>
        right
        have hns : ¬ slotFree c st (c.parent k) = true := fun hsl => hk' ⟨by omega, hqd, hcr, hsl⟩
        rw [hkc.2.2] at hns
        simp only [slotFree, Bool.or_eq_true, beq_iff_eq, decide_eq_true_eq, not_or] at hns
        have := hinv.qcountLe s hs hsch hns.1
        have := hinv.qcountEq s hs hsch
        exact ⟨hns.1, by omega⟩
  · cases htick

end AJ.Proofs.CoreA
