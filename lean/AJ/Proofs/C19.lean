/-
  C19 — the construction API builds exactly the documented requirement edges.
-/
import AJ.Spec
import AJ.Proofs.C19Aux
namespace AJ.Proofs.C19
open AJ

/-- `requires(*args)` (no remove): never fails, adds exactly the jobs the arguments stand for, minus the job
    itself; nobody else's requirements, no sequence and no scheduler changes -/
theorem requires_add (h : Heap) (j : Nat) (args : List Arg) :
    (reqArgs j false h args).2 = none ∧
    (∀ x, x ∈ (reqArgs j false h args).1.req j ↔ (x ∈ h.req j ∨ (x ∈ flats h args ∧ x ≠ j))) ∧
    (∀ k, k ≠ j → (reqArgs j false h args).1.req k = h.req k) ∧
    (reqArgs j false h args).1.seqJobs = h.seqJobs ∧ (reqArgs j false h args).1.mem = h.mem ∧
    (reqArgs j false h args).1.seqSched = h.seqSched :=
  ⟨((req_add_aux j).2 h args).1, ((req_add_aux j).2 h args).2,
    fun k hk => reqArgs_req_ne j false h args k hk,
    reqArgs_seqJobs .., reqArgs_mem .., reqArgs_seqSched ..⟩

/-- no duplicates are created -/
theorem requires_add_nodup (h : Heap) (j : Nat) (args : List Arg) (hnd : (h.req j).Nodup) :
    ((reqArgs j false h args).1.req j).Nodup :=
  reqArgs_nodup j h args hnd

/-- `requires(*args, remove=True)` removes exactly the named requirements, `KeyError` iff one is absent when
    its turn comes -/
theorem requires_remove (h : Heap) (j : Nat) (args : List Arg) :
    match removeAll (h.req j) (flats h args) with
    | some l => reqArgs j true h args = (h.setReq j l, none) ∨
                (l = h.req j ∧ reqArgs j true h args = (h, none))
    | none => (reqArgs j true h args).2 = some Err.keyError := by
  have := (req_remove_aux j).2 h args
  split
  · rename_i l hl; exact Or.inl (this.1 l hl)
  · rename_i hl; exact this.2 hl

/-- a job never requires itself: invariant of every statement -/
theorem no_self (h : Heap) (op : Op) (hinv : ∀ j, j ∉ h.req j) :
    ∀ j, j ∉ (interp h op).1.req j := by
  cases op with
  | newJob j required sched =>
    have h0 : ∀ k, k ∉ (h.setReq j []).req k := by
      intro k; by_cases hk : k = j
      · subst hk; simp
      · rw [setReq_req_ne _ _ _ _ hk]; exact hinv k
    have h1 := reqArg_noself j false _ required h0
    simp only [interp]
    split
    · rename_i h1' e heq; rw [heq] at h1; exact h1
    · rename_i h1' heq; rw [heq] at h1; simpa using h1
  | newSched s items required sched =>
    have h0 : ∀ k, k ∉ ((h.setMem s (unionNew [] (flattenSeq h items))).setReq s []).req k := by
      intro k; by_cases hk : k = s
      · subst hk; simp
      · rw [setReq_req_ne _ _ _ _ hk]; exact hinv k
    have h1 := reqArg_noself s false _ required h0
    simp only [interp]
    split
    · rename_i h1' e heq; rw [heq] at h1; exact h1
    · rename_i h1' heq; rw [heq] at h1; simpa using h1
  | requires j args remove => exact reqArgs_noself j remove h args hinv
  | newSeq q items required sched =>
    have h1 := chain_noself ((h.setSeqJobs q (flattenSeq h items)).setSeqPending q []) none
      (flattenSeq h items) hinv
    simp only [interp]
    split
    · simpa [Heap.setSeqSched] using h1
    · rename_i j0 rest hjs
      have h2 := reqArg_noself j0 false _ required h1
      split
      · rename_i h2' e heq; rw [heq] at h2; exact h2
      · rename_i h2' heq; rw [heq] at h2; simpa [Heap.setSeqSched] using h2
  | append q items =>
    simp only [interp]
    split
    · exact hinv
    · have h1 := chain_noself h (h.seqJobs q).getLast? (flattenSeq h items) hinv
      have h2 := givePending_noself
        ((chain h (h.seqJobs q).getLast? (flattenSeq h items)).setSeqJobs q
          (h.seqJobs q ++ flattenSeq h items)) q h1
      simpa using h2
  | seqRequires q args =>
    simp only [interp]
    split
    · exact hinv
    · exact reqArgs_noself _ false h args hinv
  | add s x => simpa [interp] using hinv
  | update s xs => simpa [interp] using hinv
  | removeJob s j =>
    simp only [interp]
    split
    · exact hinv
    · exact hinv

/-- `chain` links every job to its predecessor in the list (when different) -/
theorem chain_links (h : Heap) (prev : Option Nat) (l : List Nat) :
    ∀ p ∈ pairs (prev.toList ++ l), p.1 ≠ p.2 → p.1 ∈ (chain h prev l).req p.2 := by
  induction l generalizing h prev with
  | nil => cases prev <;> simp [pairs]
  | cons j js ih =>
    cases prev with
    | none =>
      simp only [chain]
      exact ih h (some j)
    | some p =>
      simp only [chain]
      intro pr hpr hne
      have hpr' : pr = (p, j) ∨ pr ∈ pairs ((some j).toList ++ js) := by
        simpa [pairs] using hpr
      rcases hpr' with rfl | hpr'
      · apply chain_mono
        rw [reqOne_false_req]
        exact Or.inr ⟨rfl, hne⟩
      · exact ih _ (some j) pr hpr' hne

/-- and adds nothing else -/
theorem chain_only (h : Heap) (prev : Option Nat) (l : List Nat) (x y : Nat)
    (hy : y ∈ (chain h prev l).req x) : y ∈ h.req x ∨ ((y, x) ∈ pairs (prev.toList ++ l) ∧ y ≠ x) := by
  induction l generalizing h prev with
  | nil => cases prev <;> (simp only [chain] at hy; exact Or.inl hy)
  | cons j js ih =>
    cases prev with
    | none =>
      simp only [chain] at hy
      exact ih h (some j) hy
    | some p =>
      simp only [chain] at hy
      have hp : pairs ((some p).toList ++ j :: js) = (p, j) :: pairs ((some j).toList ++ js) := by
        simp [pairs]
      rw [hp]
      rcases ih _ (some j) hy with h1 | ⟨h1, h2⟩
      · by_cases hx : x = j
        · subst hx
          rw [reqOne_false_req] at h1
          rcases h1 with h1 | ⟨rfl, h2⟩
          · exact Or.inl h1
          · exact Or.inr ⟨List.mem_cons_self, h2⟩
        · rw [reqOne_req_ne _ _ _ _ _ hx] at h1; exact Or.inl h1
      · exact Or.inr ⟨List.mem_cons_of_mem _ h1, h2⟩

/-- `Sequence(*items, required=r)`: the sequence holds the flattened jobs in order; each requires its
    predecessor; the first one received `required=`; no other requirement was added, none removed;
    when there is no job, `required=` is remembered for the first job to come (and only then) -/
theorem newSeq_spec (h : Heap) (q : Nat) (items : List Arg) (r : Arg) (sch : Option Nat) :
    let h' := (interp h (.newSeq q items r sch)).1
    let js := flattenSeq h items
    (interp h (.newSeq q items r sch)).2 = none ∧
    h'.seqJobs q = js ∧
    (∀ p ∈ pairs js, p.1 ≠ p.2 → p.1 ∈ h'.req p.2) ∧
    (∀ j0, js.head? = some j0 → ∀ x ∈ flat (h.setSeqJobs q js) r, x ≠ j0 → x ∈ h'.req j0) ∧
    (∀ x y, y ∈ h'.req x → y ∈ h.req x ∨ ((y, x) ∈ pairs js ∧ y ≠ x) ∨
        (js.head? = some x ∧ y ∈ flat (h.setSeqJobs q js) r ∧ y ≠ x)) ∧
    (∀ x y, y ∈ h.req x → y ∈ h'.req x) ∧
    (js = [] → h'.seqPending q = flat (h.setSeqJobs q js) r) ∧
    (js ≠ [] → h'.seqPending q = []) ∧
    (∀ k, k ≠ q → h'.seqPending k = h.seqPending k) := by
  intro h' js
  -- the heap after chaining
  have hc_sj : (chain ((h.setSeqJobs q js).setSeqPending q []) none js).seqJobs
      = (h.setSeqJobs q js).seqJobs := chain_seqJobs _ _ _
  have hc_sp : (chain ((h.setSeqJobs q js).setSeqPending q []) none js).seqPending
      = ((h.setSeqJobs q js).setSeqPending q []).seqPending := chain_seqPending _ _ _
  have hlinks := chain_links ((h.setSeqJobs q js).setSeqPending q []) none js
  have honly := chain_only ((h.setSeqJobs q js).setSeqPending q []) none js
  have hmono := chain_mono ((h.setSeqJobs q js).setSeqPending q []) none js
  simp only [Option.toList_none, List.nil_append] at hlinks honly
  cases hjs : js with
  | nil =>
    have e : interp h (.newSeq q items r sch) =
        (register (((chain ((h.setSeqJobs q []).setSeqPending q []) none []).setSeqPending q
          ((chain ((h.setSeqJobs q []).setSeqPending q []) none []).seqPending q ++
            resolves (chain ((h.setSeqJobs q []).setSeqPending q []) none []) [r])).setSeqSched q sch)
          sch [], none) := by
      simp only [interp]; rw [show flattenSeq h items = [] from hjs]
    have hfl : resolves ((h.setSeqJobs q []).setSeqPending q []) [r] = flat (h.setSeqJobs q []) r := by
      rw [(resolve_eq_flat _).2,
        (flat_congr (h.setSeqJobs q []) ((h.setSeqJobs q []).setSeqPending q []) rfl).2]
      simp [flats]
    simp only [h', e]
    refine ⟨trivial, ?_, ?_, ?_, ?_, ?_, ?_, ?_, ?_⟩
    · simp [chain, Heap.setSeqSched, Heap.setSeqJobs]
    · simp [pairs]
    · simp
    · intro x y hy
      exact Or.inl (by simpa [chain, Heap.setSeqSched, Heap.setSeqJobs] using hy)
    · intro x y hy
      simpa [chain, Heap.setSeqSched, Heap.setSeqJobs] using hy
    · intro _
      simp only [register_seqPending, setSeqSched_seqPending, setSeqPending_self, chain, hfl]
      simp
    · intro hne; exact absurd rfl hne
    · intro k hk
      simp only [register_seqPending, setSeqSched_seqPending, chain]
      rw [setSeqPending_ne _ _ _ _ hk, setSeqPending_ne _ _ _ _ hk]; rfl
  | cons j0 rest =>
    rw [hjs] at hc_sj hc_sp hlinks honly hmono
    have hflat : flat (chain ((h.setSeqJobs q (j0 :: rest)).setSeqPending q []) none (j0 :: rest)) r
        = flat (h.setSeqJobs q (j0 :: rest)) r := (flat_congr _ _ hc_sj).1 r
    have hadd := (req_add_aux j0).1
      (chain ((h.setSeqJobs q (j0 :: rest)).setSeqPending q []) none (j0 :: rest)) r
    rw [hflat] at hadd
    have hne := reqArg_req_ne j0 false
      (chain ((h.setSeqJobs q (j0 :: rest)).setSeqPending q []) none (j0 :: rest)) r
    have hsj := reqArg_seqJobs j0 false
      (chain ((h.setSeqJobs q (j0 :: rest)).setSeqPending q []) none (j0 :: rest)) r
    have hsp := reqArg_seqPending j0 false
      (chain ((h.setSeqJobs q (j0 :: rest)).setSeqPending q []) none (j0 :: rest)) r
    have hm2 := reqArg_false_mono j0
      (chain ((h.setSeqJobs q (j0 :: rest)).setSeqPending q []) none (j0 :: rest)) r
    have e : interp h (.newSeq q items r sch) =
        (register ((reqArg j0 false
          (chain ((h.setSeqJobs q (j0 :: rest)).setSeqPending q []) none (j0 :: rest)) r).1.setSeqSched
          q sch) sch (j0 :: rest), none) := by
      simp only [interp]; rw [show flattenSeq h items = j0 :: rest from hjs]
      simp only
      split
      · rename_i h2 e heq; rw [heq] at hadd; simp at hadd
      · rename_i h2 heq; rw [heq]
    simp only [h', e, register_req, register_seqJobs, register_seqPending, setSeqSched_seqPending]
    refine ⟨trivial, ?_, ?_, ?_, ?_, ?_, ?_, ?_, ?_⟩
    · show (reqArg j0 false _ r).1.seqJobs q = _
      rw [hsj, hc_sj]; simp [Heap.setSeqJobs]
    · intro p hp hpne
      exact hm2 _ _ (hlinks p hp hpne)
    · intro j0' hj0' x hx hxne
      simp only [List.head?_cons, Option.some.injEq] at hj0'
      subst hj0'
      exact (hadd.2 x).2 (Or.inr ⟨hx, hxne⟩)
    · intro x y hy
      change y ∈ (reqArg j0 false _ r).1.req x at hy
      by_cases hx : x = j0
      · subst hx
        rcases (hadd.2 y).1 hy with h1 | ⟨h1, h2⟩
        · rcases honly _ _ h1 with h3 | h3
          · exact Or.inl h3
          · exact Or.inr (Or.inl h3)
        · exact Or.inr (Or.inr ⟨rfl, h1, h2⟩)
      · rw [hne x hx] at hy
        rcases honly _ _ hy with h3 | h3
        · exact Or.inl h3
        · exact Or.inr (Or.inl h3)
    · intro x y hy
      exact hm2 _ _ (hmono _ _ hy)
    · intro hnil; exact absurd hnil (List.cons_ne_nil _ _)
    · intro _
      rw [hsp, hc_sp]; simp
    · intro k hk
      rw [hsp, hc_sp, setSeqPending_ne _ _ _ _ hk]; rfl

/-- `q.append(*items)` with at least one argument: the new jobs are chained behind the last one; the
    first job of the sequence (a new one when the sequence had none) receives the requirements that
    were pending, which are pending no more; nothing else is added, nothing removed -/
theorem append_spec (h : Heap) (q : Nat) (items : List Arg) (hne : items ≠ []) :
    let h' := (interp h (.append q items)).1
    let new := flattenSeq h items
    (interp h (.append q items)).2 = none ∧
    h'.seqJobs q = h.seqJobs q ++ new ∧
    (∀ p ∈ pairs ((h.seqJobs q).getLast?.toList ++ new), p.1 ≠ p.2 → p.1 ∈ h'.req p.2) ∧
    (∀ j0, (h.seqJobs q ++ new).head? = some j0 → ∀ x ∈ h.seqPending q, x ≠ j0 → x ∈ h'.req j0) ∧
    (∀ x y, y ∈ h'.req x → y ∈ h.req x ∨
        ((y, x) ∈ pairs ((h.seqJobs q).getLast?.toList ++ new) ∧ y ≠ x) ∨
        ((h.seqJobs q ++ new).head? = some x ∧ y ∈ h.seqPending q ∧ y ≠ x)) ∧
    (∀ x y, y ∈ h.req x → y ∈ h'.req x) ∧
    (h.seqJobs q ++ new ≠ [] → h'.seqPending q = []) ∧
    (h.seqJobs q ++ new = [] → h'.seqPending q = h.seqPending q) ∧
    (∀ k, k ≠ q → h'.seqPending k = h.seqPending k) := by
  have hie : items.isEmpty = false := by cases items <;> simp_all
  intro h' new
  -- the heap after `self.jobs += new_jobs`
  let h2 := (chain h (h.seqJobs q).getLast? new).setSeqJobs q (h.seqJobs q ++ new)
  have e : interp h (.append q items) = (register (givePending h2 q) (h.seqSched q) new, none) := by
    simp [interp, hie, h2, new]
  have h2req : h2.req = (chain h (h.seqJobs q).getLast? new).req := rfl
  have h2sj : h2.seqJobs q = h.seqJobs q ++ new := by simp [h2, Heap.setSeqJobs]
  have h2sp : h2.seqPending = h.seqPending := by
    show (chain h (h.seqJobs q).getLast? new).seqPending = _
    exact chain_seqPending _ _ _
  have hreq : ∀ x y, y ∈ h'.req x ↔
      (y ∈ (chain h (h.seqJobs q).getLast? new).req x ∨
        ((h.seqJobs q ++ new).head? = some x ∧ y ∈ h.seqPending q ∧ y ≠ x)) := by
    intro x y
    simp only [h', e, register_req]
    rw [givePending_req, h2req, h2sj, h2sp]
  have hsp : h'.seqPending = (givePending h2 q).seqPending := by
    simp only [h', e, register_seqPending]
  refine ⟨by rw [e], ?_, ?_, ?_, ?_, ?_, ?_, ?_, ?_⟩
  · simp only [h', e, register_seqJobs]
    rw [givePending_seqJobs]; exact h2sj
  · intro p hp hpne
    exact (hreq _ _).2 (Or.inl (chain_links _ _ _ p hp hpne))
  · intro j0 hj0 x hx hxne
    exact (hreq _ _).2 (Or.inr ⟨hj0, hx, hxne⟩)
  · intro x y hy
    rcases (hreq _ _).1 hy with h1 | h1
    · rcases chain_only _ _ _ x y h1 with h3 | h3
      · exact Or.inl h3
      · exact Or.inr (Or.inl h3)
    · exact Or.inr (Or.inr h1)
  · intro x y hy
    exact (hreq _ _).2 (Or.inl (chain_mono _ _ _ x y hy))
  · intro hnn
    rw [hsp]; exact givePending_pending_cons h2 q (by rw [h2sj]; exact hnn)
  · intro hnil
    rw [hsp, givePending_pending_nil h2 q (by rw [h2sj]; exact hnil), h2sp]
  · intro k hk
    rw [hsp, givePending_pending_ne _ _ _ hk, h2sp]

/-- the other sequences keep their jobs -/
theorem newSeq_seqJobs_ne (h : Heap) (q : Nat) (items : List Arg) (r : Arg) (sch : Option Nat)
    (k : Nat) (hk : k ≠ q) : (interp h (.newSeq q items r sch)).1.seqJobs k = h.seqJobs k := by
  have hc := chain_seqJobs ((h.setSeqJobs q (flattenSeq h items)).setSeqPending q []) none
    (flattenSeq h items)
  simp only [interp]
  split
  · simp only [register_seqJobs]
    show (chain _ none _).seqJobs k = _
    rw [hc]; simp [Heap.setSeqJobs, hk]
  · rename_i j0 rest hjs
    have hj := reqArg_seqJobs j0 false
      (chain ((h.setSeqJobs q (flattenSeq h items)).setSeqPending q []) none (flattenSeq h items)) r
    split
    · rename_i h2 e heq; rw [heq] at hj; simp only at hj ⊢
      rw [hj, hc]; simp [Heap.setSeqJobs, hk]
    · rename_i h2 heq; rw [heq] at hj; simp only [register_seqJobs] at hj ⊢
      show h2.seqJobs k = _
      rw [hj, hc]; simp [Heap.setSeqJobs, hk]

theorem append_seqJobs_ne (h : Heap) (q : Nat) (items : List Arg) (k : Nat) (hk : k ≠ q) :
    (interp h (.append q items)).1.seqJobs k = h.seqJobs k := by
  simp only [interp]
  split
  · rfl
  · simp only [register_seqJobs, givePending_seqJobs]
    show (if k = q then _ else (chain h _ _).seqJobs k) = _
    rw [if_neg hk, chain_seqJobs]

/-- the first job that `append` brings to a sequence without jobs receives what the sequence was
    given before (`required=` of the constructor, `requires()`), itself excepted; nothing stays pending -/
theorem pending_given (h : Heap) (q : Nat) (items : List Arg) (j0 : Nat) (rest : List Nat)
    (hq : h.seqJobs q = []) (hfl : flattenSeq h items = j0 :: rest) :
    (∀ x ∈ h.seqPending q, x ≠ j0 → x ∈ (interp h (.append q items)).1.req j0) ∧
    (interp h (.append q items)).1.seqPending q = [] := by
  have hne : items ≠ [] := by
    intro e; subst e; simp [flattenSeq] at hfl
  have hs := append_spec h q items hne
  simp only [hq, hfl, List.nil_append] at hs
  exact ⟨hs.2.2.2.1 j0 rfl, hs.2.2.2.2.2.2.1 (List.cons_ne_nil _ _)⟩

/-- `q.requires(*args)` on a sequence without jobs: no requirement changes; the jobs the arguments
    stand for (at that moment) are added, in order, to what is pending for `q`; nothing else changes -/
theorem pending_kept (h : Heap) (q : Nat) (args : List Arg) (hq : h.seqJobs q = []) :
    (interp h (.seqRequires q args)).2 = none ∧
    (interp h (.seqRequires q args)).1.req = h.req ∧
    (interp h (.seqRequires q args)).1.seqPending q = h.seqPending q ++ flats h args ∧
    (∀ k, k ≠ q → (interp h (.seqRequires q args)).1.seqPending k = h.seqPending k) ∧
    (interp h (.seqRequires q args)).1.seqJobs = h.seqJobs ∧
    (interp h (.seqRequires q args)).1.mem = h.mem ∧
    (interp h (.seqRequires q args)).1.seqSched = h.seqSched := by
  have e : interp h (.seqRequires q args)
      = (h.setSeqPending q (h.seqPending q ++ resolves h args), none) := by
    simp only [interp, hq]
  rw [e]
  refine ⟨rfl, rfl, ?_, ?_, rfl, rfl, rfl⟩
  · rw [(resolve_eq_flat h).2]; simp
  · intro k hk; exact setSeqPending_ne _ _ _ _ hk

/-- requirements are pending only for sequences without jobs: invariant of every statement -/
theorem pending_inv (h : Heap) (op : Op) (hinv : ∀ q, h.seqJobs q ≠ [] → h.seqPending q = []) :
    ∀ q, (interp h op).1.seqJobs q ≠ [] → (interp h op).1.seqPending q = [] := by
  cases op with
  | newJob j required sched =>
    have hj := reqArg_seqJobs j false (h.setReq j []) required
    have hp := reqArg_seqPending j false (h.setReq j []) required
    simp only [interp]
    split
    · rename_i h1 e heq; rw [heq] at hj hp; simp only at hj hp ⊢
      rw [hj, hp]; exact hinv
    · rename_i h1 heq; rw [heq] at hj hp
      simp only [register_seqJobs, register_seqPending] at hj hp ⊢
      rw [hj, hp]; exact hinv
  | newSched s items required sched =>
    have hj := reqArg_seqJobs s false
      ((h.setMem s (unionNew [] (flattenSeq h items))).setReq s []) required
    have hp := reqArg_seqPending s false
      ((h.setMem s (unionNew [] (flattenSeq h items))).setReq s []) required
    simp only [interp]
    split
    · rename_i h1 e heq; rw [heq] at hj hp; simp only at hj hp ⊢
      rw [hj, hp]; exact hinv
    · rename_i h1 heq; rw [heq] at hj hp
      simp only [register_seqJobs, register_seqPending] at hj hp ⊢
      rw [hj, hp]; exact hinv
  | requires j args remove =>
    simp only [interp]
    rw [reqArgs_seqJobs, reqArgs_seqPending]; exact hinv
  | newSeq q items required sched =>
    intro q'
    have hs := newSeq_spec h q items required sched
    simp only at hs
    by_cases hq : q' = q
    · subst hq; intro hj; rw [hs.2.1] at hj; exact hs.2.2.2.2.2.2.2.1 hj
    · rw [hs.2.2.2.2.2.2.2.2 q' hq, newSeq_seqJobs_ne h q items required sched q' hq]
      exact hinv q'
  | append q items =>
    by_cases hi : items = []
    · subst hi; simpa [interp] using hinv
    · intro q'
      have hs := append_spec h q items hi
      simp only at hs
      by_cases hq : q' = q
      · subst hq; intro hj; rw [hs.2.1] at hj; exact hs.2.2.2.2.2.2.1 hj
      · rw [hs.2.2.2.2.2.2.2.2 q' hq, append_seqJobs_ne h q items q' hq]
        exact hinv q'
  | seqRequires q args =>
    simp only [interp]
    split
    · rename_i hj0
      intro q'
      by_cases hq : q' = q
      · subst hq; intro hj; exact absurd hj0 hj
      · rw [setSeqPending_ne _ _ _ _ hq]; exact hinv q'
    · rw [reqArgs_seqJobs, reqArgs_seqPending]; exact hinv
  | add s x => simpa [interp] using hinv
  | update s xs => simpa [interp] using hinv
  | removeJob s j =>
    simp only [interp]
    split
    · exact hinv
    · exact hinv

/-- the repaired scenario: a requirement given to a sequence that has no job yet reaches the first job -/
example :
    (run Heap.empty [.newJob 0 .none none, .newJob 1 .none none, .newSeq 0 [] (.job 1) none,
      .append 0 [.job 0]]).1.req 0 = [1] := by
  decide

/-- `scheduler=`, `add()`, `update()` register every job involved, once -/
theorem register_spec (h : Heap) (s : Nat) (js : List Nat) (hnd : (h.mem s).Nodup) :
    (∀ x, x ∈ (register h (some s) js).mem s ↔ (x ∈ h.mem s ∨ x ∈ js)) ∧
    ((register h (some s) js).mem s).Nodup ∧
    (∀ k, k ≠ s → (register h (some s) js).mem k = h.mem k) := by
  refine ⟨?_, ?_, ?_⟩
  · intro x; simp [register, Heap.setMem, mem_unionNew]
  · simpa [register, Heap.setMem] using nodup_unionNew js _ hnd
  · intro k hk; simp [register, Heap.setMem, hk]

end AJ.Proofs.C19

