/-
  C19 — the construction API builds exactly the documented requirement edges.
-/
import AJ.Spec
import AJ.Proofs.C19Aux
namespace AJ.Proofs.C19
open AJ

/-- `requires(*args)` (no remove): never fails, adds exactly the jobs the arguments stand for, minus the job
    itself; nobody else's requirements, no sequence and no scheduler changes -/
theorem requires_add (h : Heap) (j : Nat) (args : List Arg) :
    (reqArgs j false h args).2 = none ∧
    (∀ x, x ∈ (reqArgs j false h args).1.req j ↔ (x ∈ h.req j ∨ (x ∈ flats h args ∧ x ≠ j))) ∧
    (∀ k, k ≠ j → (reqArgs j false h args).1.req k = h.req k) ∧
    (reqArgs j false h args).1.seqJobs = h.seqJobs ∧ (reqArgs j false h args).1.mem = h.mem ∧
    (reqArgs j false h args).1.seqSched = h.seqSched :=
  ⟨((req_add_aux j).2 h args).1, ((req_add_aux j).2 h args).2,
    fun k hk => reqArgs_req_ne j false h args k hk,
    reqArgs_seqJobs .., reqArgs_mem .., reqArgs_seqSched ..⟩

/-- no duplicates are created -/
theorem requires_add_nodup (h : Heap) (j : Nat) (args : List Arg) (hnd : (h.req j).Nodup) :
    ((reqArgs j false h args).1.req j).Nodup :=
  reqArgs_nodup j h args hnd

/-- `requires(*args, remove=True)` removes exactly the named requirements, `KeyError` iff one is absent when
    its turn comes -/
theorem requires_remove (h : Heap) (j : Nat) (args : List Arg) :
    match removeAll (h.req j) (flats h args) with
    | some l => reqArgs j true h args = (h.setReq j l, none) ∨
                (l = h.req j ∧ reqArgs j true h args = (h, none))
    | none => (reqArgs j true h args).2 = some Err.keyError := by
  have := (req_remove_aux j).2 h args
  split
  · rename_i l hl; exact Or.inl (this.1 l hl)
  · rename_i hl; exact this.2 hl

/-- a job never requires itself: invariant of every statement -/
theorem no_self (h : Heap) (op : Op) (hinv : ∀ j, j ∉ h.req j) :
    ∀ j, j ∉ (interp h op).1.req j := by
  cases op with
  | newJob j required sched =>
    have h0 : ∀ k, k ∉ (h.setReq j []).req k := by
      intro k; by_cases hk : k = j
      · subst hk; simp
      · rw [setReq_req_ne _ _ _ _ hk]; exact hinv k
    have h1 := reqArg_noself j false _ required h0
    simp only [interp]
    split
    · rename_i h1' e heq; rw [heq] at h1; exact h1
    · rename_i h1' heq; rw [heq] at h1; simpa using h1
  | newSched s items required sched =>
    have h0 : ∀ k, k ∉ ((h.setMem s (unionNew [] (flattenSeq h items))).setReq s []).req k := by
      intro k; by_cases hk : k = s
      · subst hk; simp
      · rw [setReq_req_ne _ _ _ _ hk]; exact hinv k
    have h1 := reqArg_noself s false _ required h0
    simp only [interp]
    split
    · rename_i h1' e heq; rw [heq] at h1; exact h1
    · rename_i h1' heq; rw [heq] at h1; simpa using h1
  | requires j args remove => exact reqArgs_noself j remove h args hinv
  | newSeq q items required sched =>
    have h1 := chain_noself (h.setSeqJobs q (flattenSeq h items)) none (flattenSeq h items) hinv
    simp only [interp]
    split
    · simpa [Heap.setSeqSched] using h1
    · rename_i j0 rest hjs
      have h2 := reqArg_noself j0 false _ required h1
      split
      · rename_i h2' e heq; rw [heq] at h2; exact h2
      · rename_i h2' heq; rw [heq] at h2; simpa [Heap.setSeqSched] using h2
  | append q items =>
    simp only [interp]
    split
    · exact hinv
    · have h1 := chain_noself h (h.seqJobs q).getLast? (flattenSeq h items) hinv
      simpa [Heap.setSeqJobs] using h1
  | seqRequires q args =>
    simp only [interp]
    split
    · exact hinv
    · exact reqArgs_noself _ false h args hinv
  | add s x => simpa [interp] using hinv
  | update s xs => simpa [interp] using hinv
  | removeJob s j =>
    simp only [interp]
    split
    · exact hinv
    · exact hinv

/-- `chain` links every job to its predecessor in the list (when different) -/
theorem chain_links (h : Heap) (prev : Option Nat) (l : List Nat) :
    ∀ p ∈ pairs (prev.toList ++ l), p.1 ≠ p.2 → p.1 ∈ (chain h prev l).req p.2 := by
  induction l generalizing h prev with
  | nil => cases prev <;> simp [pairs]
  | cons j js ih =>
    cases prev with
    | none =>
      simp only [chain]
      exact ih h (some j)
    | some p =>
      simp only [chain]
      intro pr hpr hne
      have hpr' : pr = (p, j) ∨ pr ∈ pairs ((some j).toList ++ js) := by
        simpa [pairs] using hpr
      rcases hpr' with rfl | hpr'
      · apply chain_mono
        rw [reqOne_false_req]
        exact Or.inr ⟨rfl, hne⟩
      · exact ih _ (some j) pr hpr' hne

/-- and adds nothing else -/
theorem chain_only (h : Heap) (prev : Option Nat) (l : List Nat) (x y : Nat)
    (hy : y ∈ (chain h prev l).req x) : y ∈ h.req x ∨ ((y, x) ∈ pairs (prev.toList ++ l) ∧ y ≠ x) := by
  induction l generalizing h prev with
  | nil => cases prev <;> (simp only [chain] at hy; exact Or.inl hy)
  | cons j js ih =>
    cases prev with
    | none =>
      simp only [chain] at hy
      exact ih h (some j) hy
    | some p =>
      simp only [chain] at hy
      have hp : pairs ((some p).toList ++ j :: js) = (p, j) :: pairs ((some j).toList ++ js) := by
        simp [pairs]
      rw [hp]
      rcases ih _ (some j) hy with h1 | ⟨h1, h2⟩
      · by_cases hx : x = j
        · subst hx
          rw [reqOne_false_req] at h1
          rcases h1 with h1 | ⟨rfl, h2⟩
          · exact Or.inl h1
          · exact Or.inr ⟨List.mem_cons_self, h2⟩
        · rw [reqOne_req_ne _ _ _ _ _ hx] at h1; exact Or.inl h1
      · exact Or.inr ⟨List.mem_cons_of_mem _ h1, h2⟩

/-- `Sequence(*items, required=r)`: the sequence holds the flattened jobs in order; each requires its
    predecessor; the first one received `required=`; no other requirement was added, none removed -/
theorem newSeq_spec (h : Heap) (q : Nat) (items : List Arg) (r : Arg) (sch : Option Nat) :
    let h' := (interp h (.newSeq q items r sch)).1
    let js := flattenSeq h items
    (interp h (.newSeq q items r sch)).2 = none ∧
    h'.seqJobs q = js ∧
    (∀ p ∈ pairs js, p.1 ≠ p.2 → p.1 ∈ h'.req p.2) ∧
    (∀ j0, js.head? = some j0 → ∀ x ∈ flat (h.setSeqJobs q js) r, x ≠ j0 → x ∈ h'.req j0) ∧
    (∀ x y, y ∈ h'.req x → y ∈ h.req x ∨ ((y, x) ∈ pairs js ∧ y ≠ x) ∨
        (js.head? = some x ∧ y ∈ flat (h.setSeqJobs q js) r ∧ y ≠ x)) ∧
    (∀ x y, y ∈ h.req x → y ∈ h'.req x) := by
  intro h' js
  -- the heap after chaining
  have hc_sj : (chain (h.setSeqJobs q js) none js).seqJobs = (h.setSeqJobs q js).seqJobs :=
    chain_seqJobs _ _ _
  have hlinks := chain_links (h.setSeqJobs q js) none js
  have honly := chain_only (h.setSeqJobs q js) none js
  have hmono := chain_mono (h.setSeqJobs q js) none js
  simp only [Option.toList_none, List.nil_append] at hlinks honly
  cases hjs : js with
  | nil =>
    have e : interp h (.newSeq q items r sch) =
        (register ((chain (h.setSeqJobs q []) none []).setSeqSched q sch) sch [], none) := by
      simp only [interp]; rw [show flattenSeq h items = [] from hjs]
    simp only [h', e]
    simp [chain, Heap.setSeqSched, Heap.setSeqJobs, pairs]
  | cons j0 rest =>
    rw [hjs] at hc_sj hlinks honly hmono
    have hflat : flat (chain (h.setSeqJobs q (j0 :: rest)) none (j0 :: rest)) r
        = flat (h.setSeqJobs q (j0 :: rest)) r := (flat_congr _ _ hc_sj).1 r
    have hadd := (req_add_aux j0).1 (chain (h.setSeqJobs q (j0 :: rest)) none (j0 :: rest)) r
    rw [hflat] at hadd
    have hne := reqArg_req_ne j0 false (chain (h.setSeqJobs q (j0 :: rest)) none (j0 :: rest)) r
    have hsj := reqArg_seqJobs j0 false (chain (h.setSeqJobs q (j0 :: rest)) none (j0 :: rest)) r
    have hm2 := reqArg_false_mono j0 (chain (h.setSeqJobs q (j0 :: rest)) none (j0 :: rest)) r
    have e : interp h (.newSeq q items r sch) =
        (register ((reqArg j0 false (chain (h.setSeqJobs q (j0 :: rest)) none (j0 :: rest)) r).1.setSeqSched
          q sch) sch (j0 :: rest), none) := by
      simp only [interp]; rw [show flattenSeq h items = j0 :: rest from hjs]
      simp only
      split
      · rename_i h2 e heq; rw [heq] at hadd; simp at hadd
      · rename_i h2 heq; rw [heq]
    simp only [h', e, register_req, register_seqJobs]
    refine ⟨trivial, ?_, ?_, ?_, ?_, ?_⟩
    · show (reqArg j0 false _ r).1.seqJobs q = _
      rw [hsj, hc_sj]; simp [Heap.setSeqJobs]
    · intro p hp hpne
      exact hm2 _ _ (hlinks p hp hpne)
    · intro j0' hj0' x hx hxne
      simp only [List.head?_cons, Option.some.injEq] at hj0'
      subst hj0'
      exact (hadd.2 x).2 (Or.inr ⟨hx, hxne⟩)
    · intro x y hy
      change y ∈ (reqArg j0 false _ r).1.req x at hy
      by_cases hx : x = j0
      · subst hx
        rcases (hadd.2 y).1 hy with h1 | ⟨h1, h2⟩
        · rcases honly _ _ h1 with h3 | h3
          · exact Or.inl h3
          · exact Or.inr (Or.inl h3)
        · exact Or.inr (Or.inr ⟨rfl, h1, h2⟩)
      · rw [hne x hx] at hy
        rcases honly _ _ hy with h3 | h3
        · exact Or.inl h3
        · exact Or.inr (Or.inl h3)
    · intro x y hy
      exact hm2 _ _ (hmono _ _ hy)

/-- `q.append(*items)` with at least one argument: the new jobs are chained behind the last one -/
theorem append_spec (h : Heap) (q : Nat) (items : List Arg) (hne : items ≠ []) :
    let h' := (interp h (.append q items)).1
    let new := flattenSeq h items
    (interp h (.append q items)).2 = none ∧
    h'.seqJobs q = h.seqJobs q ++ new ∧
    (∀ p ∈ pairs ((h.seqJobs q).getLast?.toList ++ new), p.1 ≠ p.2 → p.1 ∈ h'.req p.2) ∧
    (∀ x y, y ∈ h'.req x → y ∈ h.req x ∨
        ((y, x) ∈ pairs ((h.seqJobs q).getLast?.toList ++ new) ∧ y ≠ x)) ∧
    (∀ x y, y ∈ h.req x → y ∈ h'.req x) := by
  have hie : items.isEmpty = false := by cases items <;> simp_all
  have hreq : (interp h (.append q items)).1.req
      = (chain h (h.seqJobs q).getLast? (flattenSeq h items)).req := by
    simp [interp, hie, Heap.setSeqJobs]
  intro h' new
  refine ⟨by simp [interp, hie], by simp [h', new, interp, hie, Heap.setSeqJobs], ?_, ?_, ?_⟩
  · intro p hp hne; simp only [h', hreq]; exact chain_links _ _ _ p hp hne
  · intro x y hy; simp only [h', hreq] at hy; exact chain_only _ _ _ x y hy
  · intro x y hy; simp only [h', hreq]; exact chain_mono _ _ _ x y hy

/-- `scheduler=`, `add()`, `update()` register every job involved, once -/
theorem register_spec (h : Heap) (s : Nat) (js : List Nat) (hnd : (h.mem s).Nodup) :
    (∀ x, x ∈ (register h (some s) js).mem s ↔ (x ∈ h.mem s ∨ x ∈ js)) ∧
    ((register h (some s) js).mem s).Nodup ∧
    (∀ k, k ≠ s → (register h (some s) js).mem k = h.mem k) := by
  refine ⟨?_, ?_, ?_⟩
  · intro x; simp [register, Heap.setMem, mem_unionNew]
  · simpa [register, Heap.setMem] using nodup_unionNew js _ hnd
  · intro k hk; simp [register, Heap.setMem, hk]

end AJ.Proofs.C19

