/-
  Statements the audit of C01–C05 found missing (or weaker than the property) among the obligations; all proved
  here from the existing development, no existing file modified.
-/
import AJ.Proofs.ExitB
import AJ.Proofs.LatC
import AJ.Proofs.HistA
import AJ.Proofs.LaxA
import AJ.Proofs.LiveB
import AJ.Proofs.AdmB
import AJ.Proofs.BoundB
import AJ.Proofs.ProgB
namespace AJ.Proofs.Gap1
open AJ.Run AJ.Full AJ.Proofs.CoreA AJ.Proofs.CoreB AJ.Proofs.ExitB AJ.Proofs.BoundB AJ.Proofs.FinB AJ.Proofs.LiveB
  AJ.Proofs.AdmB AJ.Proofs.ProgB AJ.Proofs.HistA AJ.Proofs.LatB AJ.Proofs.LatC
set_option linter.unusedVariables false
set_option linter.unusedSimpArgs false

/-! ### exports: the invariants hold in every reachable state -/

/-- every state reached by an accepted history of the full model (layer B) from the initial state satisfies the
    layer-B invariant `InvB` (closes the hypotheses `InvB c st` of the step theorems of C04 / C05) -/
theorem invB_reach' (c : Cfg) (hwf : c.wf = true) (evs : List EvB) (st : StB)
    (h : acceptB c StB.init evs = some st) : InvB c st := by
  exact invB_reach c hwf evs st h

/-- … and its layer-A component satisfies the layer-A invariant `InvA` (closes the hypotheses `InvA c st.a` of the
    step theorems of C04 / C05) -/
theorem invA_reach' (c : Cfg) (hwf : c.wf = true) (evs : List EvB) (st : StB)
    (h : acceptB c StB.init evs = some st) : InvA c st.a := by
  exact invA_of_reachB c hwf evs st h

/-! ### item 1 (C04 / C08): a timeout exit means some non-forever job was not finished-and-reported -/

/-- auxiliary invariant: a run in its main loop whose counter has reached the number of its non-forever jobs has no
    non-forever job at all (otherwise the reaction that made the counter reach that number left the loop) -/
def CountInv (c : Cfg) (st : StB) : Prop :=
  ∀ s, st.pcB s = .loop → st.nbDone s = nbFinite c s → nbFinite c s = 0

theorem finishRun_nb {c : Cfg} {st st' : StB} {s : Nat} {x : Exit} {pick : Nat}
    (h : finishRun c st s x pick = some st') : st'.nbDone = st.nbDone ∧ st'.pcB = setAt st.pcB s .over := by
  unfold finishRun at h
  split at h
  · cases h
  · split at h
    · cases h
    · cases h; exact ⟨rfl, rfl⟩

theorem countInv_step (c : Cfg) (st st' : StB) (e : EvB) (h : stepB c st e = some st') (hJ : CountInv c st) : CountInv c st' := by
  intro s
  have := hJ s
  cases e <;> simp only [stepB] at h <;> (repeat' split at h) <;> (try (cases h; done)) <;>
    (try (have hf := finishRun_nb h; revert this; rw [hf.1, hf.2]; simp only [setAt]; grind)) <;>
    (try (cases h; simp only [beginB, exitLoop, broadcast, setAt] at *; (repeat' split) <;> grind)) <;>
    (try (cases h; unfold beginB; split <;> simp only [setAt] <;> (repeat' split) <;> grind))

theorem countInv_init (c : Cfg) : CountInv c StB.init := by
  intro s h; simp [StB.init] at h

theorem countInv_accept (c : Cfg) (evs : List EvB) : ∀ st0 st, CountInv c st0 → acceptB c st0 evs = some st → CountInv c st := by
  induction evs with
  | nil => intro st0 st h0 h; simp only [acceptB] at h; cases h; exact h0
  | cons e es ih =>
    intro st0 st h0 h
    simp only [acceptB] at h
    split at h
    · rename_i st1 hs; exact ih st1 st (countInv_step c st0 st1 e hs h0) h
    · cases h

/-- C08: a run that owns a non-forever job leaves its loop by timeout only while one of its non-forever jobs has
    not been reported -/
theorem timeout_means_unreported (c : Cfg) (hwf : c.wf = true) (evs : List EvB) (e : EvB) (s : Nat) (st0 st : StB)
    (h0 : acceptB c StB.init evs = some st0) (h1 : stepB c st0 e = some st)
    (hloop : st0.pcB s = .loop) (hx : st.pcB s = .tidy .timeout) (hpos : 0 < nbFinite c s) :
    ∃ k ∈ c.children s, c.forever k = false ∧ st0.a.deliv k = false := by
  have hA := invA_of_reachB c hwf evs st0 h0
  have hB := invB_reach c hwf evs st0 h0
  have hJ := countInv_accept c evs StB.init st0 (countInv_init c) h0
  apply Classical.byContradiction
  intro hno
  have hdel : ∀ k ∈ c.children s, c.forever k = false → st0.a.deliv k = true := by
    intro k hk hf
    cases hd : st0.a.deliv k with
    | true => rfl
    | false => exact absurd ⟨k, hk, hf, hd⟩ hno
  have hfull : ((c.children s).filter fun k => !c.forever k && st0.a.deliv k && !(([] : List Nat).contains k)).length
      = nbFinite c s := by
    unfold nbFinite
    congr 1
    apply List.filter_congr
    intro k hk
    cases hf : c.forever k with
    | true => simp
    | false => simp [hdel k hk hf]
  obtain ⟨dl, hdl, hle, hr⟩ := exit_reason c st0 st e s .timeout hB h1 hloop hx
  rcases hr with ⟨he, hds⟩ | ⟨he, D, hD, hcrit, hcnt⟩
  · subst he
    have hrx : st0.a.rx s = none := by
      simp only [stepB] at h1
      split at h1
      · next hg => exact hg.2.2.1
      · cases h1
    have hc := hB.count s hloop
    simp only [rxD, hrx, Option.getD_none] at hc
    rw [hfull] at hc
    have := hJ s hloop hc
    omega
  · have hc := hB.count s hloop
    obtain ⟨q, hq⟩ := hB.rxSub s D hD
    have hrl := (hA.rxLoop s D hD).2
    simp only [rxD, hD, Option.getD_some] at hc
    have hcr := count_react (c.children s) D c.forever st0.a.deliv q hq hrl
    rw [← hc, hfull] at hcr
    exact hcnt hcr

theorem nbFinite_pos {c : Cfg} {s : Nat} (hreg : ∃ k ∈ c.children s, c.forever k = false) : 0 < nbFinite c s := by
  obtain ⟨k, hk, hf⟩ := hreg
  unfold nbFinite
  apply List.length_pos_of_mem (a := k)
  simp [List.mem_filter, hk, hf]

/-- C04 ("if" half of the verdict iff) / C08: when the run of a scheduler that owns a non-forever job leaves its
    main loop on expiry, one of its non-forever jobs is not "finished and reported": if all the non-forever jobs had
    finished and been reported in time, the run would have left its loop with a success (or a critical failure) -/
theorem timeout_exit_unfinished (c : Cfg) (hwf : c.wf = true) (evs : List EvB) (e : EvB) (s : Nat) (st0 st : StB)
    (h0 : acceptB c StB.init evs = some st0) (h1 : stepB c st0 e = some st)
    (hloop : st0.pcB s = .loop) (hx : st.pcB s = .tidy .timeout)
    (hreg : ∃ k ∈ c.children s, c.forever k = false) :
    ∃ k ∈ c.children s, c.forever k = false ∧ ¬ ((st0.a.ph k).isDone = true ∧ st0.a.deliv k = true) := by
  obtain ⟨k, hk, hf, hd⟩ := timeout_means_unreported c hwf evs e s st0 st h0 h1 hloop hx (nbFinite_pos hreg)
  exact ⟨k, hk, hf, fun h => by rw [hd] at h; exact absurd h.2 (by simp)⟩

/-! ### a generic induction principle over reachable states -/

/-- a property that holds initially and is preserved by every step taken from a state satisfying both invariants
    holds in every state reached from a state that satisfies it and the invariants -/
theorem accept_ind (c : Cfg) (hwf : c.wf = true) (P : StB → Prop)
    (hstep : ∀ st st' e, InvA c st.a → InvB c st → P st → stepB c st e = some st' → P st')
    (evs : List EvB) (st0 st : StB) (hA : InvA c st0.a) (hB : InvB c st0) (hP : P st0)
    (h : acceptB c st0 evs = some st) : P st := by
  induction evs generalizing st0 with
  | nil => simp only [acceptB] at h; cases h; exact hP
  | cons e es ih =>
    simp only [acceptB] at h
    split at h
    · rename_i st1 hs
      have hI := inv_accept c hwf [e] st0 st1 hA hB (by simp [acceptB, hs])
      exact ih st1 hI.1 hI.2 (hstep st0 st1 e hA hB hP hs) h
    · cases h

theorem reach_ind (c : Cfg) (hwf : c.wf = true) (P : StB → Prop) (h0 : P StB.init)
    (hstep : ∀ st st' e, InvA c st.a → InvB c st → P st → stepB c st e = some st' → P st')
    (evs : List EvB) (st : StB) (h : acceptB c StB.init evs = some st) : P st := by
  exact accept_ind c hwf P hstep evs StB.init st (invA_init c) (invB_init c) h0 h

/-! ### item 2 (C04): the verdict iff -/

/-- how a run that had jobs can be over: it returned `True`, ended cancelled, raised the exception of its own
    orchestration, or one of the two diagnoses is set -/
def OverInv (c : Cfg) (st : StB) : Prop :=
  ∀ s, st.pcB s = .over → c.children s ≠ [] →
    st.a.ph s = .done (.retBool true) ∨ st.a.ph s = .cancelled ∨ st.a.ph s = .done (.exc (.orch s)) ∨
    st.failT s = true ∨ st.failC s = true

theorem overInv_step (c : Cfg) (st st' : StB) (e : EvB) (hA : InvA c st.a) (hB : InvB c st) (hO : OverInv c st)
    (h : stepB c st e = some st') : OverInv c st' := by
  intro s hover hne
  by_cases hnot : st.pcB s = .over
  · obtain ⟨_, h2, h3, h4⟩ := diag_stable c st st' e s hA hB h hnot
    rw [h2, h3, h4]; exact hO s hnot hne
  · obtain ⟨x, hx, _, hT, _, _, hC, _, hv⟩ := verdict_of_exit c st st' e s hB h hnot hover hne
    cases x
    · exact Or.inl hv
    · exact Or.inr (Or.inr (Or.inr (Or.inr (hC rfl))))
    · exact Or.inr (Or.inr (Or.inr (Or.inl (hT rfl))))
    · exact Or.inr (Or.inl hv)
    · exact Or.inr (Or.inr (Or.inl hv))

theorem overInv_reach (c : Cfg) (hwf : c.wf = true) (evs : List EvB) (st : StB)
    (h : acceptB c StB.init evs = some st) : OverInv c st := by
  refine reach_ind c hwf (OverInv c) ?_ (fun st st' e hA hB hO hs => overInv_step c st st' e hA hB hO hs) evs st h
  intro s hs; simp [StB.init] at hs

/-- C04, the verdict iff: the run of a scheduler that owns a job, once over, has returned `True` if and only if it
    did not leave its main loop on expiry, did not leave it on a critical failure, did not end cancelled and did not
    raise the exception of its own orchestration (with `failT_iff_timesOut` / `failC_iff_critOut`: iff neither
    `failed_time_out()` nor `failed_critical()` holds, and the run was neither cancelled nor crashed) -/
theorem verdict_true_iff (c : Cfg) (hwf : c.wf = true) (evs : List EvB) (st : StB)
    (h : acceptB c StB.init evs = some st) (s : Nat) (hs : s < c.n) (hsch : c.isSched s = true)
    (hover : st.pcB s = .over) (hne : c.children s ≠ []) :
    st.a.ph s = .done (.retBool true) ↔
      ¬ timesOut c s evs ∧ ¬ critOut c s evs ∧ st.a.ph s ≠ .cancelled ∧ st.a.ph s ≠ .done (.exc (.orch s)) := by
  have hE := exitInv_reach c hwf evs st h
  have hO := overInv_reach c hwf evs st h s hover hne
  rw [← failT_iff_timesOut c hwf evs st h s, ← failC_iff_critOut c hwf evs st h s]
  constructor
  · intro ht
    refine ⟨?_, ?_, by simp [ht], by simp [ht]⟩
    · intro hf
      rcases hE.failTOver s hover hf with h1 | h1
      · rw [ht] at h1; cases h1
      · rw [ht] at h1; split at h1 <;> cases h1
    · intro hf
      rcases hE.failCOver s hover hf with h1 | h1
      · rw [ht] at h1; cases h1
      · split at h1
        · obtain ⟨k, _, _, ex, _, h2⟩ := h1
          rw [ht] at h2; cases h2
        · rw [ht] at h1; cases h1
  · rintro ⟨h1, h2, h3, h4⟩
    rcases hO with h | h | h | h | h
    · exact h
    · exact absurd h h3
    · exact absurd h h4
    · exact absurd h h1
    · exact absurd h h2

/-! ### item 3 (C03, second sentence): a scheduler with a timeout terminates whatever its jobs do -/

theorem finishRun_carrived {c : Cfg} {st st' : StB} {s : Nat} {x : Exit} {pick : Nat}
    (h : finishRun c st s x pick = some st') : st'.carrived = st.carrived := by
  unfold finishRun at h
  split at h
  · cases h
  · split at h
    · cases h
    · cases h; rfl

/-- `carrived s` is only set by `cancelArrive s` -/
theorem carrived_step (c : Cfg) (st st' : StB) (e : EvB) (s : Nat) (h : stepB c st e = some st')
    (hc : st'.carrived s = true) : st.carrived s = true ∨ e = .cancelArrive s := by
  cases e <;> simp only [stepB] at h <;> (repeat' split at h) <;> (try (cases h; done)) <;>
    (try (have hf := finishRun_carrived h; rw [hf] at hc; exact Or.inl hc)) <;>
    (try (cases h; simp only [beginB, exitLoop, broadcast, setAt] at hc; (repeat' split at hc) <;> grind)) <;>
    (try (cases h; unfold beginB at hc; split at hc <;> exact Or.inl hc))

/-- a run into which a `CancelledError` was delivered is not (and will never be again) in its main loop -/
def CarrInv (c : Cfg) (st : StB) : Prop := ∀ s, st.carrived s = true → st.pcB s ≠ .loop

theorem carrInv_step (c : Cfg) (st st' : StB) (e : EvB) (hA : InvA c st.a) (hB : InvB c st) (hC : CarrInv c st)
    (h : stepB c st e = some st') : CarrInv c st' := by
  intro s hc
  rcases carrived_step c st st' e s h hc with h1 | h1
  · exact (loop_left_for_good c st st' e s hA hB h (hC s h1) (hB.carrivedCreq s h1)).1
  · subst h1
    simp only [stepB] at h
    (repeat' split at h) <;> (try (cases h; done)) <;> (cases h; simp [exitLoop, setAt])

theorem carrInv_reach (c : Cfg) (hwf : c.wf = true) (evs : List EvB) (st : StB)
    (h : acceptB c StB.init evs = some st) : CarrInv c st := by
  refine reach_ind c hwf (CarrInv c) ?_ (fun st st' e hA hB hO hs => carrInv_step c st st' e hA hB hO hs) evs st h
  intro s hs; simp [StB.init] at hs

/-- in a quiet state, the scheduler of an unfinished job on which no cancellation is pending is waiting in its main
    loop, and no cancellation is pending on it either -/
theorem live_up {c : Cfg} (w : CoreA.WF c) {st : StB} (hA : InvA c st.a) (hB : InvB c st) (hC : CarrInv c st)
    (hQ : ∀ j, j < c.n → QuietAt c st j) (j : Nat) (hj0 : 0 < j) (hjn : j < c.n)
    (hl : (st.a.ph j).live = true) (hcr : st.a.creq j = false) :
    st.pcB (c.parent j) = .loop ∧ st.a.ph (c.parent j) = .running ∧ st.a.creq (c.parent j) = false := by
  have hk : j ∈ c.children (c.parent j) := CoreB.mem_children.2 ⟨hjn, by omega, rfl⟩
  have hlt := w.parentLt j hj0 hjn
  have hss := w.parentSched j hj0 hjn
  cases hp : st.pcB (c.parent j) with
  | notBegun =>
    have := hA.childIdle j hj0 hjn ((hB.pcNotBegun _).1 hp)
    simp [this, Ph.live] at hl
  | loop =>
    have hrun := hB.runPh (c.parent j) (by simp [hp]) (by simp [hp])
    refine ⟨rfl, hrun, ?_⟩
    cases hc : st.a.creq (c.parent j) with
    | false => rfl
    | true =>
      cases hca : st.carrived (c.parent j) with
      | false => exact absurd ⟨hss, hrun, hc, hca⟩ (hQ _ (by omega)).q2
      | true => exact absurd hp (hC _ hca)
  | tidy x =>
    have := hB.exitCancelled _ (by simp [hp, PcB.exiting]) j hk hl
    rw [hcr] at this; cases this
  | shut x =>
    have := hB.exitCancelled _ (by simp [hp, PcB.exiting]) j hk hl
    rw [hcr] at this; cases this
  | shutTidy x =>
    have := hB.exitCancelled _ (by simp [hp, PcB.exiting]) j hk hl
    rw [hcr] at this; cases this
  | over =>
    have := hB.overQuiet _ hp j hk
    rw [hl] at this; cases this

/-- … hence, climbing the tree, the top-level run is waiting in its main loop -/
theorem live_top {c : Cfg} (w : CoreA.WF c) {st : StB} (hA : InvA c st.a) (hB : InvB c st) (hC : CarrInv c st)
    (hQ : ∀ j, j < c.n → QuietAt c st j) :
    ∀ m j, j ≤ m → 0 < j → j < c.n → (st.a.ph j).live = true → st.a.creq j = false → st.pcB 0 = .loop := by
  intro m
  induction m with
  | zero => intro j h1 h2; omega
  | succ m ih =>
    intro j hjm hj0 hjn hl hcr
    obtain ⟨h1, h2, h3⟩ := live_up w hA hB hC hQ j hj0 hjn hl hcr
    have hlt := w.parentLt j hj0 hjn
    by_cases hp : c.parent j = 0
    · rw [hp] at h1; exact h1
    · exact ih (c.parent j) (by omega) (by omega) (by omega) (by simp [h2, Ph.live]) h3

/-- C03, second sentence: a top-level scheduler with a timeout terminates whatever its jobs do, provided they honour
    cancellation.  No admissibility hypothesis: job bodies may never end by themselves (`fin = fun _ => false`: the
    environment only owes an end — or the acknowledgement — to a body whose cancellation was requested), nested
    schedulers may have no timeout, windows may be filled by never-ending jobs.  (Time goes on in every infinite run:
    `AdmB.time_diverges`, used in the proof.) -/
theorem timeout_run_ends {c : Cfg} (hwf : c.wf = true) (r : InfRun c) (T : Nat) (hT : c.timeout 0 = some T)
    (hbegun : ∃ i, (r.st i).pcB 0 ≠ .notBegun)
    (hb : WeakFairBodies (fun _ => false) r) (hh : FairHandlers r) : ∃ i, (r.st i).pcB 0 = .over := by
  rcases fair_run_ends_or_blocked hwf (fun _ => false) r hbegun hb hh with h | ⟨N, j, hjn, hjs, _, hrun⟩
  · exact h
  · exfalso
    obtain ⟨N', hN'⟩ := eventually_only_ticks hwf r
    have hNM : N ≤ max N N' := Nat.le_max_left _ _
    have hNM' : N' ≤ max N N' := Nat.le_max_right _ _
    generalize max N N' = M at hNM hNM'
    have hM : ∀ i, M ≤ i → isTick (r.ev i) = true := fun i hi => hN' i (by omega)
    have hq := quiet_of_tick r (hM M (Nat.le_refl _))
    have hA := run_invA hwf r M
    have hB := run_invB hwf r M
    have hC := carrInv_reach c hwf _ _ (prefix_accepted r M)
    have hQ := (ProgB.quietB_iff c (r.st M)).1 hq
    have w := CoreA.wf_of hwf
    have hj0 : 0 < j := by
      cases j with
      | zero => rw [w.sched0] at hjs; cases hjs
      | succ j => omega
    obtain ⟨hr, hcr⟩ := hrun M hNM
    have hl : (r.st M).pcB 0 = .loop := live_top w hA hB hC hQ j j (Nat.le_refl _) hj0 hjn (by simp [hr, Ph.live]) hcr
    obtain ⟨i, hi⟩ := time_diverges hwf r ((r.st M).tbegin 0 + T + 1)
    have hfr := frozen_pc r hM (max i M) (Nat.le_max_right _ _)
    have hl' : (r.st (max i M)).pcB 0 = .loop := by rw [hfr.1]; exact hl
    have h1 := (ExitB.timeout_bounds c hwf _ _ (prefix_accepted r (max i M)) 0 T hl' hT).2
    rw [hfr.2] at h1
    have h2 := now_mono r i (max i M) (Nat.le_max_left _ _)
    omega

/-- C03, second sentence, per scheduler: in every infinite run, a scheduler (nested or not) with a timeout that is
    waiting in its main loop eventually leaves it — whatever its jobs do; and as long as it is in its loop the clock
    has not passed `begin + T` (`ExitB.timeout_bounds`) -/
theorem timeout_loop_left {c : Cfg} (hwf : c.wf = true) (r : InfRun c) (s T : Nat) (hT : c.timeout s = some T)
    (i : Nat) (hl : (r.st i).pcB s = .loop) : ∃ k, i ≤ k ∧ (r.st k).pcB s ≠ .loop := by
  apply Classical.byContradiction
  intro hno
  have hall : ∀ k, i ≤ k → (r.st k).pcB s = .loop := by
    intro k hk
    cases hp : (r.st k).pcB s with
    | loop => rfl
    | _ => exact absurd ⟨k, hk, by simp [hp]⟩ hno
  obtain ⟨N, hN⟩ := eventually_only_ticks hwf r
  have hNM : N ≤ max N i := Nat.le_max_left _ _
  have hiM : i ≤ max N i := Nat.le_max_right _ _
  generalize max N i = M at hNM hiM
  have hM : ∀ k, M ≤ k → isTick (r.ev k) = true := fun k hk => hN k (by omega)
  have hg := now_grows r hM ((r.st M).tbegin s + T + 1)
  have hfr := frozen_pc r hM (M + ((r.st M).tbegin s + T + 1)) (by omega)
  have h1 := (ExitB.timeout_bounds c hwf _ _ (prefix_accepted r (M + ((r.st M).tbegin s + T + 1))) s T
    (hall _ (by omega)) hT).2
  rw [hfr.2] at h1
  omega

/-! ### item 4 (C05): no body begins once the run has left its loop; a critical raise makes time stop -/

/-- a task becomes `running` only by `grant` (from `queued`, no cancellation pending) — or it is the top-level one -/
theorem stepA_running (c : Cfg) (st st' : StA) (e : EvA) (h : stepA c st e = some st') (k : Nat)
    (hr : st'.ph k = .running) :
    st.ph k = .running ∨ k = 0 ∨ (st.ph k = .queued ∧ st.creq k = false) := by
  cases e <;> simp only [stepA] at h <;> (repeat' split at h) <;> cases h <;>
    (try unfold beginRun at hr) <;> (repeat' split at hr) <;> simp only [release, startJobs, setAt] at hr ⊢ <;> grind

/-- C05 ("starts no further job", body entry): once the run of `s` has left its main loop — for whatever reason —
    no body of a job of `s` begins any more: a job of `s` that is not executing is not executing after any step
    (`ExitB.no_start_outside_loop` says that no task is created; this says that no queued task is granted a slot) -/
theorem no_body_begins_outside_loop (c : Cfg) (hwf : c.wf = true) (st st' : StB) (e : EvB) (s : Nat)
    (hA : InvA c st.a) (hB : InvB c st) (h : stepB c st e = some st')
    (hs : st.pcB s ≠ .loop) (hs2 : st.pcB s ≠ .notBegun) :
    ∀ k ∈ c.children s, st.a.ph k ≠ .running → st'.a.ph k ≠ .running := by
  intro k hk hnr hr
  obtain ⟨hkn, hk0, hkp⟩ := CoreB.mem_children.1 hk
  rcases stepB_refines c st st' e h with heq | ⟨ea, hea⟩
  · rw [heq] at hr; exact hnr hr
  · rcases stepA_running c st.a st'.a ea hea k hr with h1 | h1 | ⟨h1, h2⟩
    · exact hnr h1
    · exact hk0 h1
    · cases hp : st.pcB s with
      | notBegun => exact hs2 hp
      | loop => exact hs hp
      | tidy x =>
        have := hB.exitCancelled s (by simp [hp, PcB.exiting]) k hk (by simp [h1, Ph.live])
        rw [h2] at this; cases this
      | shut x =>
        have := hB.exitCancelled s (by simp [hp, PcB.exiting]) k hk (by simp [h1, Ph.live])
        rw [h2] at this; cases this
      | shutTidy x =>
        have := hB.exitCancelled s (by simp [hp, PcB.exiting]) k hk (by simp [h1, Ph.live])
        rw [h2] at this; cases this
      | over =>
        have := hB.overQuiet s hp k hk
        simp [h1, Ph.live] at this

/-- C05 (forward urgency): while a critical job of `s` has raised and `s` is still in its main loop, time does not
    pass: the wait-return / the reaction that makes the run abort is due in that very instant -/
theorem critical_raise_urgent (c : Cfg) (hwf : c.wf = true) (evs : List EvB) (st : StB)
    (h : acceptB c StB.init evs = some st) (s k : Nat) (hk : k ∈ c.children s) (hc : c.critical k = true)
    (hex : ∃ ex, st.a.ph k = .done (.exc ex)) (hl : st.pcB s = .loop) : ∀ d, stepB c st (.tick d) = none := by
  intro d
  have hB := invB_reach c hwf evs st h
  obtain ⟨hsn, hss⟩ := hB.pcRange s (by simp [hl])
  cases hq : quietB c st with
  | false => simp [stepB, hq]
  | true =>
    exfalso
    have hQ := (ProgB.quietB_iff c st).1 hq s hsn
    apply hQ.q3
    refine ⟨hss, hl, ?_⟩
    rcases hB.noCrit s hl k hk hc hex with h1 | h1
    · left
      obtain ⟨ex, hex⟩ := hex
      have : k ∈ doneSet c st.a s := CoreB.mem_doneSet.2 ⟨hk, Or.inl (by simp [hex, Ph.isDone]), h1⟩
      intro h0; rw [h0] at this; cases this
    · right
      intro h0
      simp [rxD, h0] at h1

/-! ### item 5 (C05): the run ends without waiting for any other job's normal completion -/

/-- C05 ("without waiting for any other job's normal completion"): once the run of `s` has left its main loop and is
    cleaning up or shutting down, no body of a job of `s` ends normally (returns or raises) any more: every unfinished
    job of `s` has a cancellation pending, and can only acknowledge it -/
theorem no_normal_end_after_exit (c : Cfg) (st : StB) (s : Nat) (hB : InvB c st) (hx : (st.pcB s).exiting = true) :
    ∀ k ∈ c.children s, ∀ ok, stepB c st (.bodyEnd k ok) = none := by
  intro k hk ok
  simp only [stepB, stepA]
  split
  · rfl
  · rename_i a' ha
    split at ha
    · rename_i hg
      have := hB.exitCancelled s hx k hk (by simp [hg.2.2.2.1, Ph.live])
      rw [hg.2.2.2.2] at this; cases this
    · cases ha

/-- … nor once the run of `s` is over (none of its jobs is unfinished then) -/
theorem no_normal_end_when_over (c : Cfg) (st : StB) (s : Nat) (hB : InvB c st) (hx : st.pcB s = .over) :
    ∀ k ∈ c.children s, ∀ ok, stepB c st (.bodyEnd k ok) = none := by
  intro k hk ok
  simp only [stepB, stepA]
  split
  · rfl
  · rename_i a' ha
    split at ha
    · rename_i hg
      have := hB.overQuiet s hx k hk
      simp [hg.2.2.2.1, Ph.live] at this
    · cases ha

/-! ### item 6 (C02): success means each non-forever job ran exactly once, to its own end -/

/-- C02 (the real guard behind "no job runs twice"): along every history of layer A — even without the timing
    assumption — `_create_task` is never called for a job that already has a task, and no body is entered twice -/
theorem no_double_create (c : Cfg) (hwf : c.wf = true) (evs : List EvA) (st : StA)
    (h : acceptAL c StA.init evs = some st) : st.dbl = false ∧ ∀ j, st.entries j ≤ 1 := by
  have hA := AJ.Proofs.LaxA.invAL_reach c hwf evs st h
  exact ⟨hA.noDbl, hA.entries1⟩

/-- the event of the full model is the beginning of the body of `j` (for a scheduler: of its run) -/
def beginsEvB (j : Nat) : EvB → Bool := fun e => match e with
  | .grant k => k == j
  | .runBegin => j == 0
  | _ => false

theorem finishRun_refines' (c : Cfg) (st st' : StB) (s : Nat) (x : Exit) (pick : Nat)
    (h : finishRun c st s x pick = some st') : ∃ r, stepA c st.a (.finish s r) = some st'.a := by
  unfold finishRun at h
  split at h
  · cases h
  · split at h
    · cases h
    · rename_i a' ha
      cases h
      exact ⟨_, ha⟩

/-- every step of the full model is zero or one step of layer A, which is the beginning of a body exactly when the
    step of the full model is -/
theorem stepB_refines_hist (c : Cfg) (st st' : StB) (e : EvB) (h : stepB c st e = some st') :
    (st'.a = st.a ∧ ∀ j, beginsEvB j e = false) ∨
    ∃ ea, stepA c st.a ea = some st'.a ∧ ∀ j, begins j ea = beginsEvB j e := by
  cases e <;> simp only [stepB] at h
  all_goals (repeat' split at h)
  all_goals first
    | (cases h; done)
    | (cases h; exact Or.inl ⟨rfl, fun _ => rfl⟩)
    | (cases h; right; simp only [beginB_a, exitLoop]; exact ⟨_, ‹_›, fun _ => rfl⟩)
    | (cases h; right; exact ⟨_, ‹_›, fun _ => rfl⟩)
    | (obtain ⟨r, h2⟩ := finishRun_refines' _ _ _ _ _ _ h; exact Or.inr ⟨_, h2, fun _ => rfl⟩)

theorem filter_length_cons {α : Type} (p : α → Bool) (a : α) (l : List α) :
    ((a :: l).filter p).length = (if p a = true then 1 else 0) + (l.filter p).length := by
  simp only [List.filter_cons]
  split <;> simp <;> omega

theorem acceptB_refines_hist_aux (c : Cfg) (evs : List EvB) (st0 st : StB) (h : acceptB c st0 evs = some st) :
    ∃ evsA, acceptA c st0.a evsA = some st.a ∧ ∀ j, beginCount evsA j = (evs.filter (beginsEvB j)).length := by
  induction evs generalizing st0 with
  | nil => simp only [acceptB] at h; cases h; exact ⟨[], rfl, fun _ => rfl⟩
  | cons e es ih =>
    simp only [acceptB] at h
    split at h
    · rename_i st1 hs
      obtain ⟨evsA, hA, hcnt⟩ := ih _ h
      rcases stepB_refines_hist c _ _ _ hs with ⟨heq, hb⟩ | ⟨ea, hea, hb⟩
      · refine ⟨evsA, heq ▸ hA, fun j => ?_⟩
        rw [filter_length_cons, hb j, hcnt j]
        simp
      · refine ⟨ea :: evsA, ?_, fun j => ?_⟩
        · simp only [acceptA, hea]; exact hA
        · unfold beginCount
          rw [filter_length_cons, filter_length_cons, hb j]
          have := hcnt j
          unfold beginCount at this
          rw [this]
    · cases h

/-- C02 (the tool that carries "at most once" from layer A to the full model): every accepted history of the full
    model projects onto an accepted history of layer A between the same layer-A states, in which the body of each job
    begins exactly as many times as in the history of the full model (`grant j`; `runBegin` for the top-level
    scheduler) -/
theorem acceptB_refines_hist (c : Cfg) (evs : List EvB) (st0 st : StB) (h : acceptB c st0 evs = some st) :
    ∃ evsA, acceptA c st0.a evsA = some st.a ∧
      ∀ j, beginCount evsA j =
        (evs.filter fun e => match e with | .grant k => k == j | .runBegin => j == 0 | _ => false).length := by
  exact acceptB_refines_hist_aux c evs st0 st h

/-- a run that ended with `True`: every non-forever job has finished AND was reported, no reported critical job
    raised (`ExitInv.trueMeans` without the report) -/
def TrueSucc (c : Cfg) (st : StB) : Prop :=
  ∀ s, s < c.n → c.isSched s = true → st.a.ph s = .done (.retBool true) → SuccOb c st.a s

theorem trueSucc_step (c : Cfg) (hwf : c.wf = true) (st st' : StB) (e : EvB) (hA : InvA c st.a) (hB : InvB c st)
    (hE : ExitInv c st) (hT : TrueSucc c st) (h : stepB c st e = some st') : TrueSucc c st' := by
  intro s hsn hss ht
  have hB' := invB_step c hwf st st' e hA hB h
  rcases newDone c st st' e hB hB' h s _ ht with h1 | h1 | h1 | ⟨x, pick, hx, hv⟩
  · have hnl : st.pcB s ≠ .loop := by
      intro hl
      have := hB.runPh s (by simp [hl]) (by simp [hl])
      rw [h1] at this; cases this
    exact succ_transfer c st st' e hA hB h s hnl (hT s hsn hss h1)
  · rw [hss] at h1; cases h1.1
  · have : c.children s = [] := by simpa using h1.1
    refine ⟨?_, ?_⟩ <;> (intro k hk; rw [this] at hk; cases hk)
  · have hxs := verdict_true hv
    subst hxs
    have hnl : st.pcB s ≠ .loop := by
      intro hl; rw [hl] at hx; cases hx
    exact succ_transfer c st st' e hA hB h s hnl (hE.successMeans s hx)

theorem trueSucc_reach (c : Cfg) (hwf : c.wf = true) (evs : List EvB) (st : StB)
    (h : acceptB c StB.init evs = some st) : TrueSucc c st := by
  have := reach_ind c hwf (fun st => ExitInv c st ∧ TrueSucc c st) ⟨exitInv_init c, ?_⟩
    (fun st st' e hA hB hP hs => ⟨exitInv_step c hwf st st' e hA hB hP.1 hs,
      trueSucc_step c hwf st st' e hA hB hP.1 hP.2 hs⟩) evs st h
  · exact this.2
  · intro s _ _ hs; simp [StB.init, StA.init] at hs

/-- C02 / C04: a run that returned `True` has each of its non-forever jobs granted a slot exactly once in the
    history, finished by its own means (returned or raised — not cancelled), and — if critical — returned: a critical
    non-forever job did not raise, reported or not -/
theorem true_means_each_once (c : Cfg) (hwf : c.wf = true) (evs : List EvB) (st : StB)
    (h : acceptB c StB.init evs = some st) (s : Nat) (hs : s < c.n) (hsch : c.isSched s = true)
    (ht : st.a.ph s = .done (.retBool true)) :
    ∀ k ∈ c.children s, c.forever k = false →
      (evs.filter fun e => match e with | .grant j => j == k | _ => false).length = 1 ∧
      (st.a.ph k).isDone = true ∧ (c.critical k = true → ∀ ex, st.a.ph k ≠ .done (.exc ex)) := by
  intro k hk hf
  obtain ⟨hdone, hdel⟩ := (trueSucc_reach c hwf evs st h s hs hsch ht).1 k hk hf
  have hcrit := (trueSucc_reach c hwf evs st h s hs hsch ht).2 k hk
  refine ⟨?_, hdone, fun hc => hcrit hc hdel⟩
  obtain ⟨evsA, hacc, hcnt⟩ := acceptB_refines_hist_aux c evs StB.init st h
  have hk0 : k ≠ 0 := (CoreB.mem_children.1 hk).2.1
  have hfil : (evs.filter fun e => match e with | .grant j => j == k | _ => false) = evs.filter (beginsEvB k) := by
    apply List.filter_congr
    intro e _
    cases e <;> simp [beginsEvB, hk0]
  rw [hfil, ← hcnt k]
  have hle := at_most_once c hwf evsA st.a hacc k
  have hA := invA_of_reachB c hwf evs st h
  have hrf := hA.rflagOn k (Or.inr hdone)
  have hbeg : begunIn evsA k = true := by
    rw [← (ghost_reach c evsA st.a hacc).run k]; exact hrf
  have hpos : 0 < beginCount evsA k := by
    unfold begunIn at hbeg
    obtain ⟨e, he, hb⟩ := List.any_eq_true.1 hbeg
    unfold beginCount
    exact List.length_pos_of_mem (List.mem_filter.2 ⟨he, hb⟩)
  omega

/-! ### item 7 (C01): the requirements of every enclosing scheduler -/

/-- `a` is `j` or one of the schedulers enclosing `j` (at any depth) -/
inductive Anc (c : Cfg) : Nat → Nat → Prop
  | self (j : Nat) : Anc c j j
  | up {a j : Nat} : Anc c a (c.parent j) → Anc c a j

theorem anc_zero {c : Cfg} (hp0 : c.parent 0 = 0) {a j : Nat} (h : Anc c a j) : j = 0 → a = 0 := by
  induction h with
  | self => exact id
  | up _ ih => intro hj; subst hj; exact ih hp0

theorem finishedIn_append_left (c : Cfg) (l1 l2 : List EvA) (r : Nat) (h : finishedIn c l1 r = true) :
    finishedIn c (l1 ++ l2) r = true := by
  simp only [finishedIn, List.any_append, Bool.or_eq_true] at h ⊢
  exact Or.inl h

/-- C01 (nested clauses, any depth), with the only part of well-formedness that is needed: the top-level scheduler is
    its own parent.  When the body of `j` begins, everything required by `j` and by each scheduler enclosing `j`
    (the top-level one has no requirement) has finished — in layer A, even without the timing assumption -/
theorem ancestors_requirements_first_p0 (c : Cfg) (hp0 : c.parent 0 = 0) (evs : List EvA) (j : Nat) (st : StA)
    (h : acceptAL c StA.init (evs ++ [.grant j]) = some st) :
    ∀ a, Anc c a j → a ≠ 0 → ∀ r ∈ c.req a, finishedIn c evs r = true := by
  intro a hanc
  revert evs st
  induction hanc with
  | self => intro evs st h _; exact AJ.Proofs.LaxA.requirements_first c evs _ st h
  | up hanc ih =>
    rename_i j
    intro evs st h ha r hr
    have hpf := AJ.Proofs.LaxA.parent_first c evs j st h
    unfold begunIn at hpf
    obtain ⟨e, he, hb⟩ := List.any_eq_true.1 hpf
    obtain ⟨l1, l2, hl⟩ := List.append_of_mem he
    cases e with
    | grant k =>
      have hk : k = c.parent j := by simpa [begins] using hb
      subst hk
      have hacc : acceptAL c StA.init ((l1 ++ [.grant (c.parent j)]) ++ (l2 ++ [.grant j])) = some st := by
        rw [← h, hl]; simp
      rw [AJ.Proofs.LaxA.acceptAL_append] at hacc
      cases h1 : acceptAL c StA.init (l1 ++ [.grant (c.parent j)]) with
      | none => simp [h1] at hacc
      | some st1 =>
        have := ih l1 st1 h1 ha r hr
        rw [hl]
        exact finishedIn_append_left c l1 _ r this
    | runBegin =>
      have hk : c.parent j = 0 := by simpa [begins] using hb
      exact absurd (anc_zero hp0 hanc hk) ha
    | _ => simp [begins] at hb

/-- C01 (nested clauses, any depth): in a well-formed tree, when the body of `j` begins, everything required by `j`
    and by each scheduler enclosing `j`, at any depth, has finished (returned or raised; for a nested scheduler:
    its run is over) — "no job inside a nested scheduler begins before everything that scheduler requires finished" -/
theorem ancestors_requirements_first (c : Cfg) (hwf : c.wf = true) (evs : List EvA) (j : Nat) (st : StA)
    (h : acceptAL c StA.init (evs ++ [.grant j]) = some st) :
    ∀ a, Anc c a j → a ≠ 0 → ∀ r ∈ c.req a, finishedIn c evs r = true := by
  exact ancestors_requirements_first_p0 c (CoreA.wf_of hwf).parent0 evs j st h

/-! ### item 8 (C04): the two diagnoses exclude each other -/

theorem diagEx_step (c : Cfg) (st st' : StB) (e : EvB) (s : Nat) (hB : InvB c st)
    (hD : ¬ (st.failT s = true ∧ st.failC s = true)) (h : stepB c st e = some st') :
    ¬ (st'.failT s = true ∧ st'.failC s = true) := by
  rintro ⟨hT, hC⟩
  rcases pcB_step c st st' e s hB h with ⟨_, q1, q2, _⟩ | ⟨_, _, q1, q2, _⟩ | ⟨_, _, q1, q2, _⟩ |
      ⟨y, y', _, _, _, q1, q2, _⟩ | ⟨y, pick, r, _, _, _, _, _, _, q1, q2, _⟩
  · exact hD ⟨q1 ▸ hT, q2 ▸ hC⟩
  · exact hD ⟨q1 ▸ hT, q2 ▸ hC⟩
  · have h1 := q1.1 hT
    have h2 := q2.1 hC
    rw [h1] at h2; cases h2
  · exact hD ⟨q1 ▸ hT, q2 ▸ hC⟩
  · exact hD ⟨q1 ▸ hT, q2 ▸ hC⟩

/-- C04 (`why()` is a function of the two flags and shows only one of them): `failed_time_out()` and
    `failed_critical()` of a scheduler never hold together — a run leaves its main loop once, for one reason -/
theorem diag_exclusive (c : Cfg) (hwf : c.wf = true) (evs : List EvB) (st : StB)
    (h : acceptB c StB.init evs = some st) (s : Nat) : ¬ (st.failT s = true ∧ st.failC s = true) := by
  refine reach_ind c hwf (fun st => ¬ (st.failT s = true ∧ st.failC s = true)) ?_
    (fun st st' e hA hB hD hs => diagEx_step c st st' e s hB hD hs) evs st h
  simp [StB.init]

/-! ### item 9 (C04 / C02): an unreported critical raise at a success exit lies in the exit's instant -/

/-- a job of a run in its main loop that has finished and has not been handed over by the main wait yet ended (its
    body, or its nested run) with no `tick` since: the wait-return that reports it is due in this very instant -/
theorem unreported_no_latency (c : Cfg) (hwf : c.wf = true) (evs : List EvB) (s k : Nat) (st0 : StB)
    (h0 : acceptB c StB.init evs = some st0) (hl : st0.pcB s = .loop) (hkc : k ∈ c.children s)
    (hdone : (st0.a.ph k).isDone = true) (hdl : st0.a.deliv k = false) :
    CausedAt c evs (fun st e => jobEnds c st k e) := by
  obtain ⟨hkn, hk0, hkp⟩ := CoreB.mem_children.1 hkc
  let P : StB → Prop := fun st =>
    (st.pcB s ≠ .loop ∧ st.pcB s ≠ .notBegun) ∨ ((st.a.ph k).isDone = true → st.a.deliv k = true)
  apply last_cause c (fun st e => jobEnds c st k e) P
  · exact Or.inr (by simp [StB.init, StA.init, Ph.isDone])
  · intro pre st hpre hq
    have hA := invA_of_reachB c hwf pre st hpre
    have hB := invB_reach c hwf pre st hpre
    cases hpc : st.pcB s with
    | loop =>
      obtain ⟨hrx, hds⟩ := (stuck_of_quiet hB hq s).loop hpc
      refine Or.inr fun hd => ?_
      cases hdv : st.a.deliv k with
      | true => rfl
      | false =>
        have : k ∈ doneSet c st.a s := CoreB.mem_doneSet.2 ⟨hkc, Or.inl hd, hdv⟩
        rw [hds] at this; cases this
    | notBegun =>
      refine Or.inr fun hd => ?_
      have hi := hA.childIdle k (Nat.pos_of_ne_zero hk0) hkn (by rw [hkp]; exact (hB.pcNotBegun s).1 hpc)
      simp [hi, Ph.isDone] at hd
    | tidy x => exact Or.inl (by simp [hpc])
    | shut x => exact Or.inl (by simp [hpc])
    | shutTidy x => exact Or.inl (by simp [hpc])
    | over => exact Or.inl (by simp [hpc])
  · intro pre st st' e hpre hstep hC hP
    have hA := invA_of_reachB c hwf pre st hpre
    have hB := invB_reach c hwf pre st hpre
    rcases hP with ⟨h1, h2⟩ | hr
    · exact Or.inl (loop_left_for_good c st st' e s hA hB hstep h1 h2)
    · refine Or.inr fun hd' => ?_
      exact (step_facts c st st' e hstep).2.1 k (hr (done_back c st st' e hstep k hC hd'))
  · exact h0
  · intro hP
    rcases hP with ⟨h1, _⟩ | hr
    · exact h1 hl
    · rw [hr hdone] at hdl; cases hdl

/-- C04 / C02 (the `deliv` tie): when a run leaves its main loop with a success although a critical job of it has
    raised, that job had not been reported by the main wait, and it raised in the very instant of the exit (no `tick`
    between the end of its body — or of its nested run — and the exit step) -/
theorem success_unreported_same_instant (c : Cfg) (hwf : c.wf = true) (evs : List EvB) (e : EvB) (s k : Nat)
    (st0 st : StB) (h0 : acceptB c StB.init evs = some st0) (h1 : stepB c st0 e = some st)
    (hloop : st0.pcB s = .loop) (hx : st.pcB s = .tidy .success) (hk : k ∈ c.children s)
    (hc : c.critical k = true) (hex : ∃ ex, st0.a.ph k = .done (.exc ex)) :
    st0.a.deliv k = false ∧ CausedAt c evs (fun st e => jobEnds c st k e) := by
  have hB := invB_reach c hwf evs st0 h0
  obtain ⟨_, D, hD, hcrit, _⟩ := exit_reason c st0 st e s .success hB h1 hloop hx
  have hdl : st0.a.deliv k = false := by
    rcases hB.noCrit s hloop k hk hc hex with h | h
    · exact h
    · exfalso
      simp only [rxD, hD, Option.getD_some] at h
      obtain ⟨ex, hex⟩ := hex
      exact critIn_false hcrit k h hc ex hex
  obtain ⟨ex, hex⟩ := hex
  exact ⟨hdl, unreported_no_latency c hwf evs s k st0 h0 hloop hk (by simp [hex, Ph.isDone]) hdl⟩

/-! ### non-vacuity -/

/-- item 1: `ExitB.tmoCfg` / `tmoEvs` (scheduler `0` with timeout 3, job `1` of 3 time units, job `2` requiring `1`):
    the reaction to the completion of `1`, in the instant of the deadline, takes the timeout exit; the hypotheses of
    `timeout_exit_unfinished` hold with `evs = tmoEvs.take 5`, `e = react 0` -/
example : tmoCfg.wf = true ∧ (∃ k ∈ tmoCfg.children 0, tmoCfg.forever k = false) ∧
    ((acceptB tmoCfg StB.init (tmoEvs.take 5)).map fun st0 =>
      (st0.pcB 0, (stepB tmoCfg st0 (.react 0)).map fun st => st.pcB 0)) = some (.loop, some (.tidy .timeout)) := by
  refine ⟨by decide, ⟨2, by decide, by decide⟩, by decide⟩

/-- scheduler `0` with timeout 2 and a single job `1`, not `forever`, whose body never ends by itself -/
def tmCfg : Cfg :=
  { n := 2, parent := fun _ => 0, isSched := fun j => j == 0, req := fun _ => [],
    critical := fun _ => false, forever := fun _ => false, window := fun _ => 0,
    timeout := fun j => if j = 0 then some 2 else none, sdTimeout := fun _ => none, topPure := true }

def tmEvs : List EvB :=
  [.runBegin, .grant 1, .tick 2, .timeoutFire 0, .cancelAck 1, .tidyReturn 0 0, .hEnd 1, .sdWaitReturn 0 0]

/-- item 2: the hypotheses of `verdict_true_iff` hold of `tmCfg` / `tmEvs` (the run is over, it returned `False`:
    it timed out), and of `LatC.exCfg` / a run that succeeds -/
example : tmCfg.wf = true ∧ 0 < tmCfg.n ∧ tmCfg.isSched 0 = true ∧ tmCfg.children 0 ≠ [] ∧
    (acceptB tmCfg StB.init tmEvs).map (fun st => (st.pcB 0, st.a.ph 0, st.failT 0)) =
      some (.over, .done (.retBool false), true) := by decide

def okEvs : List EvB :=
  [.runBegin, .grant 1, .tick 1, .bodyEnd 1 true, .waitReturn 0, .react 0, .tidyReturn 0 0, .hEnd 1, .sdWaitReturn 0 0]

/-- items 2 and 6: same tree, the job ends in time: the run is over and returned `True`; job `1` was granted once -/
example : (acceptB tmCfg StB.init okEvs).map (fun st => (st.pcB 0, st.a.ph 0, st.failT 0, st.failC 0)) =
      some (.over, .done (.retBool true), false, false) ∧
    (okEvs.filter fun e => match e with | .grant j => j == 1 | _ => false).length = 1 := by decide

/-! item 3: an infinite run of `tmCfg` in which the body of job `1` never ends by itself; the tree is not admissible
    (`AdmB.Admissible`), the environment is weakly fair for `fin = fun _ => false`, and the run ends — by its timeout -/

def tmEv (i : Nat) : EvB := if h : i < tmEvs.length then tmEvs[i] else .tick 1

def tmSt : Nat → StB
  | 0 => StB.init
  | i + 1 => (stepB tmCfg (tmSt i) (tmEv i)).getD (tmSt i)

def tmFinSt (t : Nat) : StB := { tmSt 8 with a := { (tmSt 8).a with now := 2 + t } }

theorem tmEv_late (i : Nat) (h : 8 ≤ i) : tmEv i = .tick 1 := by
  unfold tmEv
  rw [dif_neg]
  simp [tmEvs]; omega

theorem tmFin_step (t : Nat) : stepB tmCfg (tmFinSt t) (.tick 1) = some (tmFinSt (t + 1)) := rfl

theorem tmSt_late (t : Nat) : tmSt (8 + t) = tmFinSt t := by
  induction t with
  | zero => rfl
  | succ t ih =>
    show (stepB tmCfg (tmSt (8 + t)) (tmEv (8 + t))).getD (tmSt (8 + t)) = tmFinSt (t + 1)
    rw [ih, tmEv_late _ (by omega), tmFin_step]
    rfl

theorem tmSt_step (i : Nat) : stepB tmCfg (tmSt i) (tmEv i) = some (tmSt (i + 1)) := by
  by_cases h : i < 8
  · have hsome : (stepB tmCfg (tmSt i) (tmEv i)).isSome = true := by
      revert i; decide
    show _ = some ((stepB tmCfg (tmSt i) (tmEv i)).getD (tmSt i))
    cases hs : stepB tmCfg (tmSt i) (tmEv i) with
    | none => rw [hs] at hsome; cases hsome
    | some s => rfl
  · obtain ⟨t, rfl⟩ : ∃ t, i = 8 + t := ⟨i - 8, by omega⟩
    rw [tmSt_late, tmEv_late _ (by omega), show 8 + t + 1 = 8 + (t + 1) by omega, tmSt_late]
    exact tmFin_step t

def tmRun : InfRun tmCfg := { st := tmSt, ev := tmEv, init := rfl, step := tmSt_step }

theorem tm_cases {j : Nat} (hj : j < tmCfg.n) (hs : tmCfg.isSched j = false) : j = 1 := by
  have : j = 0 ∨ j = 1 := by have : j < 2 := hj; omega
  rcases this with rfl | h
  · cases hs
  · exact h

/-- the body of job `1` is only owed an end once its cancellation is requested (index 3): it acknowledges at index 4 -/
theorem tmRun_weakFair : WeakFairBodies (fun _ => false) tmRun := by
  intro i j hj hs hr hf
  obtain rfl := tm_cases hj hs
  refine ⟨4, ?_, Or.inr (Or.inr rfl)⟩
  by_cases h : i < 8
  · have : ∀ i, i < 8 → (tmSt i).a.ph 1 = .running → i ≤ 4 := by decide
    exact this i h hr
  · exfalso
    obtain ⟨t, rfl⟩ : ∃ t, i = 8 + t := ⟨i - 8, by omega⟩
    have hr' : (tmSt (8 + t)).a.ph 1 = .running := hr
    rw [tmSt_late] at hr'
    have : (tmSt 8).a.ph 1 ≠ .running := by decide
    exact this hr'

theorem tmRun_fairHandlers : FairHandlers tmRun := by
  intro i j hj hs hr
  obtain rfl := tm_cases hj hs
  refine ⟨6, ?_, Or.inl rfl⟩
  by_cases h : i < 8
  · have : ∀ i, i < 8 → (tmSt i).hph 1 = .hactive → i ≤ 6 := by decide
    exact this i h hr
  · exfalso
    obtain ⟨t, rfl⟩ : ∃ t, i = 8 + t := ⟨i - 8, by omega⟩
    have hr' : (tmSt (8 + t)).hph 1 = .hactive := hr
    rw [tmSt_late] at hr'
    have : (tmSt 8).hph 1 ≠ .hactive := by decide
    exact this hr'

/-- the hypotheses of `timeout_run_ends` hold of this run, although the tree is not admissible for that environment
    (`admissible_run_ends` does not apply): job `1` is not `forever` and never ends by itself; between index 2 and
    index 3 it runs un-cancelled and nothing is owed to it -/
example : tmCfg.wf = true ∧ tmCfg.timeout 0 = some 2 ∧ (∃ i, (tmRun.st i).pcB 0 ≠ .notBegun) ∧
    WeakFairBodies (fun _ => false) tmRun ∧ FairHandlers tmRun ∧ ¬ Admissible tmCfg (fun _ => false) ∧
    (tmRun.st 2).a.ph 1 = .running ∧ (tmRun.st 2).a.creq 1 = false ∧ (tmRun.st 8).pcB 0 = .over := by
  refine ⟨by decide, rfl, ⟨1, by decide⟩, tmRun_weakFair, tmRun_fairHandlers, ?_, by decide, by decide, by decide⟩
  intro hadm
  have := hadm.neverForever 1 (by decide) rfl rfl
  cases this

/-- item 4: `critical_raise_urgent` — scenario A of the audit (window 1, critical job `1` raises while job `2` is
    queued): after `bodyEnd 1 false` the run is in its loop with a critical job that raised -/
def urgCfg : Cfg :=
  { n := 3, parent := fun _ => 0, isSched := fun j => j == 0, req := fun _ => [],
    critical := fun j => j == 1, forever := fun _ => false, window := fun j => if j = 0 then 1 else 0,
    timeout := fun _ => none, sdTimeout := fun _ => none, topPure := true }

def urgEvs : List EvB := [.runBegin, .grant 1, .tick 1, .bodyEnd 1 false]

example : urgCfg.wf = true ∧ 1 ∈ urgCfg.children 0 ∧ urgCfg.critical 1 = true ∧
    (acceptB urgCfg StB.init urgEvs).map (fun st => (st.pcB 0, st.a.ph 1, stepB urgCfg st (.tick 1) |>.isSome)) =
      some (.loop, .done (.exc (.byJob 1)), false) := by decide

/-- … and the zero-time window the audit points at is real: in that instant job `2` is still granted a slot (its
    body begins after the critical raise, before the exit step), which is why "from the raise nothing starts" is not
    a theorem; once the run has left its loop (`no_body_begins_outside_loop`) it is not -/
example : (acceptB urgCfg StB.init (urgEvs ++ [.grant 2, .waitReturn 0, .react 0])).map
      (fun st => (st.pcB 0, st.a.ph 2, st.a.creq 2)) = some (.tidy .critical, .running, true) := by decide

/-- items 4, 5: hypotheses of `no_body_begins_outside_loop` / `no_normal_end_after_exit`: same scenario without the
    hand-over: the run has left its loop, job `2` is queued and cancelled: neither granted nor ended normally -/
example : (acceptB urgCfg StB.init (urgEvs ++ [.waitReturn 0, .react 0])).map
      (fun st => ((st.pcB 0).exiting, st.a.ph 2, (stepB urgCfg st (.grant 2)).isSome,
        (stepB urgCfg st (.cancelAck 2)).isSome)) = some (true, .queued, false, true) := by decide

/-- item 7: without `c.parent 0 = 0` the statement of `ancestors_requirements_first` is false: here `parent 0 = 2`,
    so that job `2` (which requires `1`) is an "ancestor" of `1`, and `1` begins first -/
def badCfg : Cfg :=
  { n := 3, parent := fun j => if j = 0 then 2 else 0, isSched := fun j => j == 0, req := fun j => if j = 2 then [1] else [],
    critical := fun _ => false, forever := fun _ => false, window := fun _ => 0,
    timeout := fun _ => none, sdTimeout := fun _ => none, topPure := true }

example : (acceptAL badCfg StA.init ([.runBegin] ++ [.grant 1])).isSome = true ∧ Anc badCfg 2 1 ∧ (2 : Nat) ≠ 0 ∧
    1 ∈ badCfg.req 2 ∧ finishedIn badCfg [.runBegin] 1 = false := by
  refine ⟨by decide, ?_, by decide, by decide, by decide⟩
  exact Anc.up (Anc.up (Anc.self 2))

/-- item 7, non-vacuity at depth 2: scheduler `2` (requires job `1`) contains scheduler `3`, which contains job `4` -/
def deepCfg : Cfg :=
  { n := 5, parent := fun j => if j = 3 then 2 else if j = 4 then 3 else 0, isSched := fun j => j == 0 || j == 2 || j == 3,
    req := fun j => if j = 2 then [1] else [],
    critical := fun _ => false, forever := fun _ => false, window := fun _ => 0,
    timeout := fun _ => none, sdTimeout := fun _ => none, topPure := true }

example : deepCfg.wf = true ∧ Anc deepCfg 2 4 ∧
    (acceptAL deepCfg StA.init
      ([.runBegin, .grant 1, .bodyEnd 1 true, .waitReturn 0, .react 0 false [], .grant 2, .grant 3] ++ [.grant 4])).isSome
      = true := by
  refine ⟨by decide, Anc.up (Anc.up (Anc.self 2)), by decide⟩

/-- item 9: scenario C of the audit: success although the critical (forever) job `2` raised, unreported, in the
    instant of the exit -/
def tieCfg : Cfg :=
  { n := 3, parent := fun _ => 0, isSched := fun j => j == 0, req := fun _ => [],
    critical := fun j => j == 2, forever := fun j => j == 2, window := fun _ => 0,
    timeout := fun _ => none, sdTimeout := fun _ => none, topPure := true }

def tieEvs : List EvB := [.runBegin, .grant 1, .grant 2, .tick 1, .bodyEnd 1 true, .waitReturn 0, .bodyEnd 2 false]

example : tieCfg.wf = true ∧ 2 ∈ tieCfg.children 0 ∧ tieCfg.critical 2 = true ∧
    ((acceptB tieCfg StB.init tieEvs).map fun st0 =>
      (st0.pcB 0, st0.a.ph 2, st0.a.deliv 2, (stepB tieCfg st0 (.react 0)).map fun st => st.pcB 0)) =
      some (.loop, .done (.exc (.byJob 2)), false, some (.tidy .success)) := by decide

end AJ.Proofs.Gap1
