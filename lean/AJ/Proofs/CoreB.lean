/-
  Layer B of the dynamic model: refinement to layer A, and the invariant of reachable states that the
  theorems of C03–C05, C08–C11, C13 rest on.
-/
import AJ.Model.Full
import AJ.Proofs.CoreA
namespace AJ.Proofs.CoreB
open AJ.Run AJ.Full AJ.Proofs.CoreA
set_option linter.unusedVariables false
set_option linter.unusedSimpArgs false

theorem finishRun_refines (c : Cfg) (st st' : StB) (s : Nat) (x : Exit) (pick : Nat)
    (h : finishRun c st s x pick = some st') : ∃ ea, stepA c st.a ea = some st'.a := by
  unfold finishRun at h
  split at h
  · cases h
  · split at h
    · cases h
    · rename_i a' ha
      cases h
      exact ⟨_, ha⟩

@[simp] theorem beginB_a (c : Cfg) (st : StB) (s : Nat) (a' : StA) : (beginB c st s a').a = a' := by
  unfold beginB; split <;> rfl

/-- every step of layer B is zero or one step of layer A on the embedded state -/
theorem stepB_refines (c : Cfg) (st st' : StB) (e : EvB) (h : stepB c st e = some st') :
    st'.a = st.a ∨ ∃ ea, stepA c st.a ea = some st'.a := by
  cases e <;> simp only [stepB] at h
  all_goals (repeat' split at h)
  all_goals first
    | (cases h; done)
    | (cases h; exact Or.inl rfl)
    | (cases h; right; simp only [beginB_a, exitLoop]; exact ⟨_, ‹_›⟩)
    | (cases h; right; exact ⟨_, ‹_›⟩)
    | (have h2 := finishRun_refines _ _ _ _ _ _ h; exact Or.inr h2)

/-- hence every accepted history of layer B projects onto an accepted history of layer A -/
theorem acceptB_refines (c : Cfg) (evs : List EvB) (st0 st : StB) (h : acceptB c st0 evs = some st) :
    ∃ evsA, acceptA c st0.a evsA = some st.a := by
  induction evs generalizing st0 with
  | nil => simp only [acceptB] at h; cases h; exact ⟨[], rfl⟩
  | cons e es ih =>
    simp only [acceptB] at h
    split at h
    · rename_i st1 hs
      obtain ⟨evsA, hA⟩ := ih _ h
      rcases stepB_refines c _ _ _ hs with heq | ⟨ea, hea⟩
      · exact ⟨evsA, heq ▸ hA⟩
      · refine ⟨ea :: evsA, ?_⟩
        simp only [acceptA, hea]; exact hA
    · cases h

/-- … so the layer-A invariant holds in every reachable state of layer B -/
theorem invA_of_reachB (c : Cfg) (hwf : c.wf = true) (evs : List EvB) (st : StB)
    (h : acceptB c StB.init evs = some st) : InvA c st.a := by
  obtain ⟨evsA, hA⟩ := acceptB_refines c evs _ _ h
  exact invA_reach c hwf evsA _ hA

/-- the `done` set a pending reaction of `s` is about (empty when none is pending) -/
def rxD (st : StB) (s : Nat) : List Nat := (st.a.rx s).getD []

def _root_.AJ.Full.PcB.exiting : PcB → Bool
  | .tidy _ => true | .shut _ => true | .shutTidy _ => true | _ => false

/-- the reason for which the run left its main loop, while it is tidying / shutting down -/
def _root_.AJ.Full.PcB.exitOf : PcB → Option Exit
  | .tidy x => some x | .shut x => some x | .shutTidy x => some x | _ => none

/-- what holds in every reachable state of layer B (for schedulers `s < c.n`, jobs `0 < k < c.n`).
    With respect to the first statement: `hcreqActive` is weakened (it was false, see `hcreqCex` below) and the
    fields from `didSdLoop` on are added to make the whole inductive. -/
structure InvB (c : Cfg) (st : StB) : Prop where
  /-- the two program counters agree -/
  pcNotBegun : ∀ s, st.pcB s = .notBegun ↔ st.a.pc s = .notBegun
  pcLoop : ∀ s, st.pcB s = .loop ↔ st.a.pc s = .loop
  pcOver : ∀ s, st.pcB s = .over ↔ st.a.pc s = .over
  /-- while a run is in its main loop it has cancelled none of its jobs -/
  loopClean : ∀ s, st.pcB s = .loop → ∀ k ∈ c.children s, st.a.creq k = false ∧ st.a.ph k ≠ .cancelled
  /-- `nb_jobs_done` counts the non-forever jobs reported and reacted to -/
  count : ∀ s, st.pcB s = .loop →
      st.nbDone s = ((c.children s).filter fun k => !c.forever k && st.a.deliv k && !(rxD st s).contains k).length
  /-- a critical job that raised has not been reacted to yet (otherwise the run would have left its loop) -/
  noCrit : ∀ s, st.pcB s = .loop → ∀ k ∈ c.children s, c.critical k = true →
      (∃ e, st.a.ph k = .done (.exc e)) → (st.a.deliv k = false ∨ k ∈ rxD st s)
  /-- once the run has left its main loop every unfinished job of it has been cancelled -/
  exitCancelled : ∀ s, (st.pcB s).exiting = true → ∀ k ∈ c.children s, (st.a.ph k).live = true → st.a.creq k = true
  /-- the shutdown phase begins only when no job of the scheduler is unfinished -/
  shutQuiet : ∀ s x, (st.pcB s = .shut x ∨ st.pcB s = .shutTidy x) → ∀ k ∈ c.children s, (st.a.ph k).live = false
  /-- `co_shutdown()` reaches a job at most once, exactly when its scheduler has broadcast -/
  hcallsLe : ∀ k, st.hcalls k ≤ 1
  hcallsDid : ∀ k, 0 < k → k < c.n → (st.hcalls k = 1 ↔ st.didSd (c.parent k) = true)
  hphNone : ∀ k, st.hph k = .hnone ↔ st.hcalls k = 0
  /-- the broadcast state mirrors the phase of the run (inline) / of the relay -/
  bcNone : ∀ s, st.bc s = .bnone ↔ st.didSd s = false
  bcInlineWait : ∀ s, st.bc s = .bwait .inline ↔ ∃ x, st.pcB s = .shut x
  bcInlineTidy : ∀ s, st.bc s = .btidy .inline ↔ ∃ x, st.pcB s = .shutTidy x
  bcRelay : ∀ s, relayActive st s = true → st.hph s = .hactive ∧ c.isSched s = true
  /-- a handler is pending only while its scheduler's broadcast is in progress -/
  hactiveBc : ∀ k, 0 < k → k < c.n → st.hph k = .hactive → ((st.bc (c.parent k)).isWait = true ∨ (st.bc (c.parent k)).isTidy = true)
  /-- a cancellation is pending only on a handler in progress — or on the relay of a nested scheduler that had
      already shut down: its first step returns at once without looking at the request (the field as first
      stated, `hcreq k → hph k = hactive`, is false: see the counter-example below) -/
  hcreqActive : ∀ k, st.hcreq k = true →
      st.hph k = .hactive ∨ (c.isSched k = true ∧ st.hph k = .hdone ∧ st.didSd k = true)
  /-- a run that had jobs is over only after its shutdown broadcast -/
  overDid : ∀ s, s < c.n → c.isSched s = true → st.pcB s = .over → (c.children s ≠ [] → st.didSd s = true)
  /-- a broadcast happens only when no job of the scheduler is unfinished, and stays so -/
  sdQuiet : ∀ s, st.didSd s = true → ∀ k ∈ c.children s, (st.a.ph k).live = false
  /-- a scheduler whose `co_shutdown()` was relayed is not running (it never began, or its run is over) -/
  relayIdle : ∀ s, c.isSched s = true → 0 < s → st.hph s ≠ .hnone → (st.a.ph s).live = false
  /-- deadlines: armed at the beginning of the run / of the broadcast, never passed while waiting -/
  deadlineEq : ∀ s, st.pcB s = .loop → st.deadline s = (c.timeout s).map (st.tbegin s + ·)
  deadlineGe : ∀ s dl, st.pcB s = .loop → st.deadline s = some dl → st.a.now ≤ dl ∧ st.tbegin s ≤ st.a.now
  hdeadlineEq : ∀ s, (st.bc s).isWait = true → st.hdeadline s = (c.sdTimeout s).map (st.tsd s + ·)
  hdeadlineGe : ∀ s dl, (st.bc s).isWait = true → st.hdeadline s = some dl → st.a.now ≤ dl ∧ st.tsd s ≤ st.a.now
  /-- the diagnosis while the run is in progress: `_failed_timeout` (resp. `_failed_critical`) is set when (and
      only when) the run leaves its main loop on expiry (resp. on a critical failure), before the clean-up — a
      cancellation delivered during that clean-up overwrites the exit reason, not the diagnosis -/
  diagClear : ∀ s, st.pcB s ≠ .over →
      (st.failC s = true → (st.pcB s).exitOf = some .critical ∨ (st.pcB s).exitOf = some .cancelled) ∧
      (st.failT s = true → (st.pcB s).exitOf = some .timeout ∨ (st.pcB s).exitOf = some .cancelled)
  failTSet : ∀ s, (st.pcB s).exitOf = some .timeout → st.failT s = true
  failCSet : ∀ s, (st.pcB s).exitOf = some .critical → st.failC s = true
  /-- a cancellation is delivered only to a run that was asked to stop -/
  carrivedCreq : ∀ s, st.carrived s = true → st.pcB s ≠ .notBegun
  -- fields added to make the invariant inductive
  /-- a scheduler that has broadcast its shutdown is not in its main loop (and never enters it again) -/
  didSdLoop : ∀ s, st.didSd s = true → st.pcB s ≠ .loop
  /-- a scheduler that shut down without having begun was told to by the enclosing scheduler -/
  didSdBegun : ∀ s, st.didSd s = true → st.pcB s = .notBegun → st.hph s ≠ .hnone
  didSdRange : ∀ s, st.didSd s = true → s < c.n ∧ c.isSched s = true
  hcallsRange : ∀ k, st.hcalls k ≠ 0 → 0 < k ∧ k < c.n
  /-- only schedulers of the configuration ever begin a run -/
  pcRange : ∀ s, st.pcB s ≠ .notBegun → s < c.n ∧ c.isSched s = true
  /-- the task of a run in progress is running -/
  runPh : ∀ s, st.pcB s ≠ .notBegun → st.pcB s ≠ .over → st.a.ph s = .running
  /-- exit reason `cancelled` is only set by the delivery of a `CancelledError` -/
  cancelledArr : ∀ s, (st.pcB s).exitOf = some .cancelled → st.carrived s = true
  /-- … which is delivered only once requested, and the request stands until the run is over -/
  carrivedCreq2 : ∀ s, st.carrived s = true → st.a.creq s = true ∨ st.pcB s = .over
  /-- when a run is over none of its jobs is unfinished -/
  overQuiet : ∀ s, st.pcB s = .over → ∀ k ∈ c.children s, (st.a.ph k).live = false
  /-- the `done` set of a pending reaction is a duplicate-free list of jobs of the scheduler -/
  rxSub : ∀ s D, st.a.rx s = some D → ∃ q : Nat → Bool, D = (c.children s).filter q

/-! ### why `hcreqActive` is not `hcreq k → hph k = hactive`

  A nested scheduler `1` (one job `2`) runs to the end and shuts down inline; the top-level scheduler then
  broadcasts its own shutdown with `shutdown_timeout = 0`: the bounded wait expires at once (`sdTimeoutFire 0`),
  which calls `cancel()` on the relay of `1` before that relay has had its first step.  The first step
  (`hStep 1`) finds `_did_shutdown` set and returns: `hph 1 = hdone` while `hcreq 1` is still `true`. -/

def hcreqCex : Cfg :=
  { n := 3, parent := fun j => if j = 2 then 1 else 0, isSched := fun j => j = 0 || j = 1, req := fun _ => [],
    critical := fun _ => false, forever := fun _ => false, window := fun _ => 0, timeout := fun _ => none,
    sdTimeout := fun j => if j = 0 then some 0 else none, topPure := true }

def hcreqCexEvs : List EvB :=
  [.runBegin, .grant 1, .grant 2, .bodyEnd 2 true, .waitReturn 1, .react 1, .tidyReturn 1 0, .hEnd 2,
   .sdWaitReturn 1 0, .waitReturn 0, .react 0, .tidyReturn 0 0, .sdTimeoutFire 0, .hStep 1]

example : hcreqCex.wf = true ∧
    (acceptB hcreqCex StB.init hcreqCexEvs).map (fun st => (st.hcreq 1, st.hph 1)) = some (true, .hdone) := by
  decide

/-! ### well-formedness, extracted once -/

structure WF (c : Cfg) : Prop where
  npos : 0 < c.n
  sched0 : c.isSched 0 = true
  par0 : c.parent 0 = 0
  parLt : ∀ j, 0 < j → j < c.n → c.parent j < j
  parSched : ∀ j, 0 < j → j < c.n → c.isSched (c.parent j) = true

theorem wf_of (c : Cfg) (h : c.wf = true) : WF c := by
  unfold Cfg.wf at h
  simp only [Bool.and_eq_true, decide_eq_true_eq, beq_iff_eq, List.all_eq_true, List.mem_range,
    Bool.or_eq_true] at h
  obtain ⟨⟨⟨⟨h1, h2⟩, h3⟩, _⟩, h5⟩ := h
  refine ⟨h1, h2, h3, ?_, ?_⟩
  · intro j hj hn
    rcases h5 j hn with h | h
    · omega
    · exact h.1.1
  · intro j hj hn
    rcases h5 j hn with h | h
    · omega
    · exact h.1.2

theorem mem_children {c : Cfg} {s k : Nat} : k ∈ c.children s ↔ k < c.n ∧ k ≠ 0 ∧ c.parent k = s := by
  simp [Cfg.children, List.mem_filter, List.mem_range]

theorem not_self_child {c : Cfg} (w : WF c) (s : Nat) : s ∉ c.children s := by
  intro h
  obtain ⟨h1, h2, h3⟩ := mem_children.1 h
  have := w.parLt s (by omega) h1
  omega

theorem mem_activeHandlers {c : Cfg} {st : StB} {s k : Nat} :
    k ∈ activeHandlers c st s ↔ k ∈ c.children s ∧ st.hph k = .hactive := by
  simp [activeHandlers, List.mem_filter]

theorem activeHandlers_nil {c : Cfg} {st : StB} {s : Nat} (h : activeHandlers c st s = []) :
    ∀ k ∈ c.children s, st.hph k ≠ .hactive := by
  intro k hk hh
  have : k ∈ activeHandlers c st s := mem_activeHandlers.2 ⟨hk, hh⟩
  rw [h] at this; cases this

theorem mem_liveChildren {c : Cfg} {a : StA} {s k : Nat} :
    k ∈ liveChildren c a s ↔ k ∈ c.children s ∧ (a.ph k).live = true := by
  simp [liveChildren, List.mem_filter]

theorem liveChildren_nil {c : Cfg} {a : StA} {s : Nat} (h : liveChildren c a s = []) :
    ∀ k ∈ c.children s, (a.ph k).live = false := by
  intro k hk
  cases hl : (a.ph k).live
  · rfl
  · have : k ∈ liveChildren c a s := mem_liveChildren.2 ⟨hk, hl⟩
    rw [h] at this; cases this

/-- normalise the goal and the context after a step has been made explicit, then call `grind` -/
macro "inv_close" : tactic =>
  `(tactic| ((try simp only [broadcast, exitLoop, setAt, mem_children, relayActive, rxD, release, Bool.or_eq_true,
      decide_eq_true_eq, mem_activeHandlers, mem_liveChildren] at *) <;>
    grind [Ph.live, Ph.isDone, Bc.isWait, Bc.isTidy, PcB.exiting, PcB.exitOf]))



/-! ### what a step of layer A does to the components layer B talks about -/

theorem mem_entrySet {c : Cfg} {s k : Nat} (h : k ∈ entrySet c s) : k ∈ c.children s := by
  simp only [entrySet, List.mem_filter] at h; exact h.1

theorem mem_startCands {c : Cfg} {a : StA} {s k : Nat} {D : List Nat} (h : k ∈ startCands c a s D) :
    k ∈ c.children s ∧ a.ph k = .idle := by
  simp only [startCands, List.mem_filter, Bool.and_eq_true, beq_iff_eq] at h; exact ⟨h.1, h.2.1.1⟩

theorem mem_doneSet {c : Cfg} {a : StA} {s k : Nat} :
    k ∈ doneSet c a s ↔ k ∈ c.children s ∧ ((a.ph k).isDone = true ∨ a.ph k = .cancelled) ∧ a.deliv k = false := by
  simp [doneSet, List.mem_filter]

/-- `co_run` of `s` begins from `a1` -/
theorem beginRun_spec (c : Cfg) (a1 : StA) (s : Nat) :
    (beginRun c a1 s).creq = a1.creq ∧ (beginRun c a1 s).deliv = a1.deliv ∧ (beginRun c a1 s).now = a1.now ∧
    (((c.children s).isEmpty = true ∧ (beginRun c a1 s).ph = setAt a1.ph s (.done (.retBool true)) ∧
        (beginRun c a1 s).pc = setAt a1.pc s .over ∧ (beginRun c a1 s).rx = a1.rx) ∨
     ((c.children s).isEmpty = false ∧
        (beginRun c a1 s).ph = (fun k => if k ∈ entrySet c s ∧ a1.ph k = .idle then .queued else a1.ph k) ∧
        (beginRun c a1 s).pc = setAt a1.pc s .loop ∧ (beginRun c a1 s).rx = setAt a1.rx s none)) := by
  unfold beginRun
  split
  · rename_i h; exact ⟨rfl, rfl, rfl, Or.inl ⟨h, rfl, rfl, rfl⟩⟩
  · rename_i h; exact ⟨rfl, rfl, rfl, Or.inr ⟨by simpa using h, rfl, rfl, rfl⟩⟩

theorem stepA_runBegin {c : Cfg} {a a' : StA} (h : stepA c a .runBegin = some a') :
    (a.ph 0 = .idle ∧ a.pc 0 = .notBegun) ∧
    a'.creq = a.creq ∧ a'.deliv = a.deliv ∧ a'.now = a.now ∧
    (((c.children 0).isEmpty = true ∧ a'.ph = setAt a.ph 0 (.done (.retBool true)) ∧
        a'.pc = setAt a.pc 0 .over ∧ a'.rx = a.rx) ∨
     ((c.children 0).isEmpty = false ∧
        a'.ph = (fun k => if k ∈ entrySet c 0 ∧ setAt a.ph 0 .running k = .idle then .queued else setAt a.ph 0 .running k) ∧
        a'.pc = setAt a.pc 0 .loop ∧ a'.rx = setAt a.rx 0 none)) := by
  simp only [stepA] at h
  split at h
  · rename_i hg
    cases h
    refine ⟨hg, ?_⟩
    have := beginRun_spec c { a with ph := setAt a.ph 0 .running, rflag := setAt a.rflag 0 true } 0
    obtain ⟨h1, h2, h3, h4⟩ := this
    refine ⟨h1, h2, h3, ?_⟩
    rcases h4 with ⟨e, p1, p2, p3⟩ | ⟨e, p1, p2, p3⟩
    · refine Or.inl ⟨e, ?_, p2, p3⟩
      rw [p1]; funext k; simp only [setAt]; split <;> rfl
    · exact Or.inr ⟨e, p1, p2, p3⟩
  · cases h

theorem stepA_grant {c : Cfg} {a a' : StA} {j : Nat} (h : stepA c a (.grant j) = some a') :
    (0 < j ∧ j < c.n ∧ a.ph j = .queued ∧ a.creq j = false) ∧
    a'.creq = a.creq ∧ a'.deliv = a.deliv ∧ a'.now = a.now ∧
    ((c.isSched j = false ∧ a'.ph = setAt a.ph j .running ∧ a'.pc = a.pc ∧ a'.rx = a.rx) ∨
     (c.isSched j = true ∧ (c.children j).isEmpty = true ∧ a'.ph = setAt a.ph j (.done (.retBool true)) ∧
        a'.pc = setAt a.pc j .over ∧ a'.rx = a.rx) ∨
     (c.isSched j = true ∧ (c.children j).isEmpty = false ∧
        a'.ph = (fun k => if k ∈ entrySet c j ∧ setAt a.ph j .running k = .idle then .queued else setAt a.ph j .running k) ∧
        a'.pc = setAt a.pc j .loop ∧ a'.rx = setAt a.rx j none)) := by
  simp only [stepA] at h
  split at h
  · rename_i hg
    refine ⟨⟨hg.1, hg.2.1, hg.2.2.1, hg.2.2.2.1⟩, ?_⟩
    split at h
    · rename_i hs
      cases h
      have := beginRun_spec c (StA.mk (setAt a.ph j .running) a.creq (setAt a.rflag j true) a.deliv
        (setAt a.entries j (a.entries j + 1)) a.dbl a.pc
        (setAt a.qcount (c.parent j) (a.qcount (c.parent j) + 1)) a.rx a.now) j
      obtain ⟨h1, h2, h3, h4⟩ := this
      rcases h4 with ⟨e, p1, p2, p3⟩ | ⟨e, p1, p2, p3⟩
      · rw [if_pos e]
        refine ⟨h1, h2, h3, Or.inr (Or.inl ⟨hs, e, ?_, p2, p3⟩)⟩
        show (beginRun c _ j).ph = _
        rw [p1]; funext k; simp only [setAt]; split <;> rfl
      · rw [if_neg (by simp [e])]
        exact ⟨h1, h2, h3, Or.inr (Or.inr ⟨hs, e, p1, p2, p3⟩)⟩
    · rename_i hs
      cases h
      exact ⟨rfl, rfl, rfl, Or.inl ⟨by simpa using hs, rfl, rfl, rfl⟩⟩
  · cases h

theorem stepA_bodyEnd {c : Cfg} {a a' : StA} {j : Nat} {ok : Bool} (h : stepA c a (.bodyEnd j ok) = some a') :
    (0 < j ∧ j < c.n ∧ c.isSched j = false ∧ a.ph j = .running ∧ a.creq j = false) ∧
    a'.ph = setAt a.ph j (.done (if ok then .retOwn else .exc (.byJob j))) ∧
    a'.creq = a.creq ∧ a'.deliv = a.deliv ∧ a'.pc = a.pc ∧ a'.rx = a.rx ∧ a'.now = a.now := by
  simp only [stepA] at h
  split at h
  · rename_i hg; cases h; exact ⟨hg, rfl, rfl, rfl, rfl, rfl, rfl⟩
  · cases h

theorem stepA_cancelAck {c : Cfg} {a a' : StA} {j : Nat} (h : stepA c a (.cancelAck j) = some a') :
    (0 < j ∧ j < c.n ∧ a.creq j = true ∧ (a.ph j = .queued ∨ (a.ph j = .running ∧ c.isSched j = false))) ∧
    a'.ph = setAt a.ph j .cancelled ∧ a'.creq = setAt a.creq j false ∧
    a'.deliv = a.deliv ∧ a'.pc = a.pc ∧ a'.rx = a.rx ∧ a'.now = a.now := by
  simp only [stepA] at h
  split at h
  · rename_i hg; cases h
    refine ⟨hg, ?_⟩
    split <;> exact ⟨rfl, rfl, rfl, rfl, rfl, rfl⟩
  · cases h

theorem stepA_waitReturn {c : Cfg} {a a' : StA} {s : Nat} (h : stepA c a (.waitReturn s) = some a') :
    (s < c.n ∧ c.isSched s = true ∧ a.pc s = .loop ∧ a.rx s = none ∧ doneSet c a s ≠ []) ∧
    a'.ph = a.ph ∧ a'.creq = a.creq ∧ a'.deliv = (fun k => a.deliv k || decide (k ∈ doneSet c a s)) ∧
    a'.pc = a.pc ∧ a'.rx = setAt a.rx s (some (doneSet c a s)) ∧ a'.now = a.now := by
  simp only [stepA] at h
  split at h
  · rename_i hg; cases h; exact ⟨hg, rfl, rfl, rfl, rfl, rfl, rfl⟩
  · cases h

theorem stepA_react_leave {c : Cfg} {a a' : StA} {s : Nat} {K : List Nat} (h : stepA c a (.react s true K) = some a') :
    (∃ D, a.rx s = some D) ∧
    (s < c.n ∧ c.isSched s = true ∧ a.pc s = .loop ∧ ∀ k ∈ K, k ∈ c.children s ∧ (a.ph k).live = true) ∧
    a'.ph = a.ph ∧ a'.creq = (fun k => a.creq k || decide (k ∈ K)) ∧ a'.deliv = a.deliv ∧
    a'.pc = setAt a.pc s .exiting ∧ a'.rx = setAt a.rx s none ∧ a'.now = a.now := by
  simp only [stepA] at h
  split at h
  · cases h
  · rename_i D hD
    split at h
    · rename_i hg
      simp only [if_true] at h
      cases h
      exact ⟨⟨D, hD⟩, ⟨hg.1, hg.2.1, hg.2.2.1, hg.2.2.2.2⟩, rfl, rfl, rfl, rfl, rfl, rfl⟩
    · cases h

theorem stepA_leave {c : Cfg} {a a' : StA} {s : Nat} {K : List Nat} (h : stepA c a (.leave s K) = some a') :
    (s < c.n ∧ c.isSched s = true ∧ a.pc s = .loop ∧ ∀ k ∈ K, k ∈ c.children s ∧ (a.ph k).live = true) ∧
    a'.ph = a.ph ∧ a'.creq = (fun k => a.creq k || decide (k ∈ K)) ∧ a'.deliv = a.deliv ∧
    a'.pc = setAt a.pc s .exiting ∧ a'.rx = setAt a.rx s none ∧ a'.now = a.now := by
  simp only [stepA] at h
  split at h
  · rename_i hg
    cases h
    exact ⟨hg, rfl, rfl, rfl, rfl, rfl, rfl⟩
  · cases h

theorem stepA_react_go {c : Cfg} {a a' : StA} {s : Nat} (h : stepA c a (.react s false []) = some a') :
    ∃ D, a.rx s = some D ∧
    (s < c.n ∧ c.isSched s = true ∧ a.pc s = .loop) ∧
    (∃ S : List Nat, (∀ k ∈ S, k ∈ c.children s ∧ a.ph k = .idle) ∧
      a'.ph = (fun k => if k ∈ S ∧ a.ph k = .idle then .queued else a.ph k)) ∧
    a'.creq = a.creq ∧ a'.deliv = a.deliv ∧
    a'.pc = a.pc ∧ a'.rx = setAt a.rx s none ∧ a'.now = a.now := by
  simp only [stepA] at h
  split at h
  · cases h
  · rename_i D hD
    split at h
    · rename_i hg
      simp only [Bool.false_eq_true, if_false] at h
      cases h
      refine ⟨D, hD, ⟨hg.1, hg.2.1, hg.2.2.1⟩, ⟨startCands c { a with rx := setAt a.rx s none } s D, ?_, rfl⟩,
        rfl, rfl, rfl, rfl, rfl⟩
      intro k hk
      exact mem_startCands hk
    · cases h

/-- the phase a scheduler's task ends in -/
def finPh : Option Res → Ph
  | some r => .done r
  | none => .cancelled

theorem stepA_finish {c : Cfg} {a a' : StA} {s : Nat} {r : Option Res} (h : stepA c a (.finish s r) = some a') :
    (s < c.n ∧ c.isSched s = true ∧ a.pc s = .exiting ∧ a.ph s = .running) ∧
    a'.ph = setAt a.ph s (finPh r) ∧
    a'.creq = setAt a.creq s false ∧ a'.deliv = a.deliv ∧
    a'.pc = setAt a.pc s .over ∧ a'.rx = a.rx ∧ a'.now = a.now := by
  simp only [stepA] at h
  split at h
  · rename_i hg; cases h
    refine ⟨hg, ?_⟩
    split <;> cases r <;> exact ⟨rfl, rfl, rfl, rfl, rfl, rfl⟩
  · cases h

theorem stepA_tick {c : Cfg} {a a' : StA} {d : Nat} (h : stepA c a (.tick d) = some a') :
    a'.ph = a.ph ∧ a'.creq = a.creq ∧ a'.deliv = a.deliv ∧
    a'.pc = a.pc ∧ a'.rx = a.rx ∧ a'.now = a.now + d := by
  simp only [stepA] at h
  split at h
  · cases h; exact ⟨rfl, rfl, rfl, rfl, rfl, rfl⟩
  · cases h

theorem stepA_extCancel {c : Cfg} {a a' : StA} (h : stepA c a .extCancel = some a') :
    (a.ph 0 = .running ∧ a.creq 0 = false) ∧
    a' = { a with creq := setAt a.creq 0 true } := by
  simp only [stepA] at h
  split at h
  · rename_i hg; cases h; exact ⟨hg, rfl⟩
  · cases h

/-! ### preservation, event by event -/

/-- a cancellation requested from outside on the top-level task: only `creq 0` changes, and `0` is nobody's job -/
theorem invB_extCancel (c : Cfg) (w : WF c) (st st' : StB)
    (hA : InvA c st.a) (hinv : InvB c st) (h : stepB c st .extCancel = some st') : InvB c st' := by
  simp only [stepB] at h
  split at h
  · cases h
  · rename_i a' ha
    cases h
    obtain ⟨⟨hrun, hcr⟩, rfl⟩ := stepA_extCancel ha
    exact
      { hinv with
        loopClean := by
          intro s' hl k hk
          have := hinv.loopClean s' hl k hk
          have hk0 : k ≠ 0 := (mem_children.1 hk).2.1
          simpa [setAt, hk0] using this
        exitCancelled := by
          intro s' he k hk hlive
          have := hinv.exitCancelled s' he k hk hlive
          simp only [setAt]; split <;> simp_all
        carrivedCreq2 := by
          intro s' hc
          have := hinv.carrivedCreq2 s' hc
          simp only [setAt]; split <;> simp_all }

theorem invB_bodyEnd (c : Cfg) (w : WF c) (st st' : StB) (j : Nat) (ok : Bool)
    (hA : InvA c st.a) (hinv : InvB c st) (h : stepB c st (.bodyEnd j ok) = some st') : InvB c st' := by
  simp only [stepB] at h
  split at h
  · cases h
  · rename_i a' ha
    cases h
    obtain ⟨⟨hj0, hjn, hjs, hjr, hjc⟩, hph, hcreq, hdeliv, hpc, hrx, hnow⟩ := stepA_bodyEnd ha
    clear ha
    obtain ⟨ph', creq', rflag', deliv', entries', dbl', pc', qcount', rx', now'⟩ := a'
    simp only at hph hcreq hdeliv hpc hrx hnow
    subst hph hcreq hdeliv hpc hrx hnow
    have hpcj := hinv.pcRange j
    exact
      { hinv with
        loopClean := by
          intro s'
          have := hinv.loopClean s'
          inv_close
        noCrit := by
          intro s'
          have := hinv.noCrit s'
          have := hA.delivFin j
          inv_close
        exitCancelled := by
          intro s'
          have := hinv.exitCancelled s'
          inv_close
        shutQuiet := by
          intro s' x'
          have := hinv.shutQuiet s' x'
          inv_close
        sdQuiet := by
          intro s'
          have := hinv.sdQuiet s'
          inv_close
        relayIdle := by
          intro s'
          have := hinv.relayIdle s'
          inv_close
        runPh := by
          intro s'
          have := hinv.runPh s'
          inv_close
        overQuiet := by
          intro s'
          have := hinv.overQuiet s'
          inv_close }

theorem invB_cancelAck (c : Cfg) (w : WF c) (st st' : StB) (j : Nat)
    (hA : InvA c st.a) (hinv : InvB c st) (h : stepB c st (.cancelAck j) = some st') : InvB c st' := by
  simp only [stepB] at h
  split at h
  · cases h
  · rename_i a' ha
    cases h
    obtain ⟨⟨hj0, hjn, hjc, hjp⟩, hph, hcreq, hdeliv, hpc, hrx, hnow⟩ := stepA_cancelAck ha
    clear ha
    obtain ⟨ph', creq', rflag', deliv', entries', dbl', pc', qcount', rx', now'⟩ := a'
    simp only at hph hcreq hdeliv hpc hrx hnow
    subst hph hcreq hdeliv hpc hrx hnow
    have hpcj := hinv.pcRange j
    have hrun := hinv.runPh j
    have hcar := hinv.carrivedCreq j
    exact
      { hinv with
        loopClean := by
          intro s'
          have := hinv.loopClean s'
          inv_close
        noCrit := by
          intro s'
          have := hinv.noCrit s'
          inv_close
        exitCancelled := by
          intro s'
          have := hinv.exitCancelled s'
          inv_close
        shutQuiet := by
          intro s' x'
          have := hinv.shutQuiet s' x'
          inv_close
        sdQuiet := by
          intro s'
          have := hinv.sdQuiet s'
          inv_close
        relayIdle := by
          intro s'
          have := hinv.relayIdle s'
          inv_close
        runPh := by
          intro s'
          have := hinv.runPh s'
          inv_close
        carrivedCreq2 := by
          intro s'
          have := hinv.carrivedCreq2 s'
          inv_close
        overQuiet := by
          intro s'
          have := hinv.overQuiet s'
          inv_close }

theorem invB_tick (c : Cfg) (w : WF c) (st st' : StB) (d : Nat)
    (hA : InvA c st.a) (hinv : InvB c st) (h : stepB c st (.tick d) = some st') : InvB c st' := by
  simp only [stepB] at h
  split at h
  · rename_i hg
    obtain ⟨_, hdl, hhdl⟩ := hg
    split at h
    · cases h
    · rename_i a' ha
      cases h
      obtain ⟨hph, hcreq, hdeliv, hpc, hrx, hnow⟩ := stepA_tick ha
      clear ha
      obtain ⟨ph', creq', rflag', deliv', entries', dbl', pc', qcount', rx', now'⟩ := a'
      simp only at hph hcreq hdeliv hpc hrx hnow
      subst hph hcreq hdeliv hpc hrx hnow
      exact
        { hinv with
          deadlineGe := by
            intro s' dl' hl hd
            simp only at hl hd
            have := hinv.deadlineGe s' dl' hl hd
            have := (hinv.pcRange s' (by simp [hl])).1
            have := hdl s' (List.mem_range.2 this) hl
            simp only [hd, within, decide_eq_true_eq] at this
            simp only
            omega
          hdeadlineGe := by
            intro s' dl' hl hd
            simp only at hl hd
            have := hinv.hdeadlineGe s' dl' hl hd
            have hb : st.bc s' ≠ .bnone := by intro hb; simp [hb, Bc.isWait] at hl
            have hds : st.didSd s' = true := by
              have := hinv.bcNone s'
              cases hh : st.didSd s' <;> simp_all
            have := (hinv.didSdRange s' hds).1
            have := hhdl s' (List.mem_range.2 this) hl
            simp only [hd, within, decide_eq_true_eq] at this
            simp only
            omega }
  · cases h

theorem invB_waitReturn (c : Cfg) (w : WF c) (st st' : StB) (s : Nat)
    (hA : InvA c st.a) (hinv : InvB c st) (h : stepB c st (.waitReturn s) = some st') : InvB c st' := by
  simp only [stepB] at h
  split at h
  · rename_i hg
    obtain ⟨hloop, hcp⟩ := hg
    split at h
    · cases h
    · rename_i a' ha
      cases h
      obtain ⟨⟨hsn, hss, hpcs, hrxs, hD⟩, hph, hcreq, hdeliv, hpc, hrx, hnow⟩ := stepA_waitReturn ha
      clear ha
      obtain ⟨ph', creq', rflag', deliv', entries', dbl', pc', qcount', rx', now'⟩ := a'
      simp only at hph hcreq hdeliv hpc hrx hnow
      subst hph hcreq hdeliv hpc hrx hnow
      have hmem : ∀ k, k ∈ doneSet c st.a s ↔
          k ∈ c.children s ∧ ((st.a.ph k).isDone = true ∨ st.a.ph k = .cancelled) ∧ st.a.deliv k = false :=
        fun k => mem_doneSet
      have hsub : ∃ q : Nat → Bool, doneSet c st.a s = (c.children s).filter q := ⟨_, rfl⟩
      generalize doneSet c st.a s = D at *
      exact
        { hinv with
          count := by
            intro s' hl
            have := hinv.count s' hl
            simp only at hl
            rw [this]
            congr 1
            apply List.filter_congr
            intro k hk
            rw [Bool.eq_iff_iff]
            simp only [rxD, setAt, Bool.and_eq_true, Bool.not_eq_true', Bool.or_eq_true, decide_eq_true_eq, List.contains_eq_mem, decide_eq_false_iff_not]
            have := hmem k
            by_cases he : s' = s
            · subst he; simp only [if_true, hrxs, Option.getD_some, Option.getD_none, List.not_mem_nil, not_false_eq_true, and_true]; grind
            · simp only [if_neg he]; grind [mem_children]
          noCrit := by
            intro s'
            have := hinv.noCrit s'
            inv_close
          rxSub := by
            intro s' D' hr
            simp only [setAt] at hr
            by_cases he : s' = s
            · subst he
              simp only [if_true, Option.some.injEq] at hr
              subst hr
              exact hsub
            · simp only [if_neg he] at hr
              exact hinv.rxSub s' D' hr }
  · cases h

/-- the run of `s` leaves its main loop (critical failure, success, expiry, cancellation, or failure of the
    orchestration itself) -/
theorem invB_exitLoop (c : Cfg) (w : WF c) (st : StB) (s : Nat) (x : Exit) (nb' : Nat → Nat) (ca' : Nat → Bool)
    (a' : StA) (hA : InvA c st.a) (hinv : InvB c st) (hloop : st.pcB s = .loop)
    (hnb : ∀ s', s' ≠ s → nb' s' = st.nbDone s')
    (hca1 : ∀ s', ca' s' = true → st.carrived s' = true ∨ (s' = s ∧ st.a.creq s = true))
    (hca2 : ∀ s', st.carrived s' = true → ca' s' = true)
    (hca3 : x = .cancelled → ca' s = true)
    (hph : a'.ph = st.a.ph) (hcreq : a'.creq = fun k => st.a.creq k || decide (k ∈ liveChildren c st.a s))
    (hdeliv : a'.deliv = st.a.deliv) (hpc : a'.pc = setAt st.a.pc s .exiting) (hrx : a'.rx = setAt st.a.rx s none)
    (hnow : a'.now = st.a.now) :
    InvB c (exitLoop c { st with nbDone := nb', carrived := ca' } s x a') := by
  obtain ⟨ph', creq', rflag', deliv', entries', dbl', pc', qcount', rx', now'⟩ := a'
  simp only at hph hcreq hdeliv hpc hrx hnow
  subst hph hcreq hdeliv hpc hrx hnow
  have hpcs := hinv.pcRange s
  have hpl := (hinv.pcLoop s).1 hloop
  have hrun := hinv.runPh s
  unfold exitLoop
  exact
    { hinv with
      pcNotBegun := by
        intro s'
        have := hinv.pcNotBegun s'
        inv_close
      pcLoop := by
        intro s'
        have := hinv.pcLoop s'
        inv_close
      pcOver := by
        intro s'
        have := hinv.pcOver s'
        inv_close
      loopClean := by
        intro s'
        have := hinv.loopClean s'
        inv_close
      count := by
        intro s'
        have := hinv.count s'
        have := hnb s'
        inv_close
      noCrit := by
        intro s'
        have := hinv.noCrit s'
        inv_close
      exitCancelled := by
        intro s'
        have := hinv.exitCancelled s'
        inv_close
      shutQuiet := by
        intro s' x'
        have := hinv.shutQuiet s' x'
        inv_close
      bcInlineWait := by
        intro s'
        have := hinv.bcInlineWait s'
        inv_close
      bcInlineTidy := by
        intro s'
        have := hinv.bcInlineTidy s'
        inv_close
      overDid := by
        intro s'
        have := hinv.overDid s'
        inv_close
      deadlineEq := by
        intro s'
        have := hinv.deadlineEq s'
        inv_close
      deadlineGe := by
        intro s' dl'
        have := hinv.deadlineGe s' dl'
        inv_close
      diagClear := by
        intro s'
        have := hinv.diagClear s'
        inv_close
      failTSet := by
        intro s'
        have := hinv.diagClear s'
        have := hinv.failTSet s'
        inv_close
      failCSet := by
        intro s'
        have := hinv.diagClear s'
        have := hinv.failCSet s'
        inv_close
      carrivedCreq := by
        intro s'
        have := hinv.carrivedCreq s'
        have := hca1 s'
        inv_close
      didSdLoop := by
        intro s'
        have := hinv.didSdLoop s'
        inv_close
      didSdBegun := by
        intro s'
        have := hinv.didSdBegun s'
        inv_close
      pcRange := by
        intro s'
        have := hinv.pcRange s'
        inv_close
      runPh := by
        intro s'
        have := hinv.runPh s'
        inv_close
      cancelledArr := by
        intro s'
        have := hinv.cancelledArr s'
        have := hca1 s'
        have := hca2 s'
        inv_close
      carrivedCreq2 := by
        intro s'
        have := hinv.carrivedCreq2 s'
        have := hca1 s'
        have := hca2 s'
        inv_close
      overQuiet := by
        intro s'
        have := hinv.overQuiet s'
        inv_close
      rxSub := by
        intro s' D'
        have := hinv.rxSub s' D'
        inv_close }

theorem filter_split (l : List Nat) (f dl q : Nat → Bool) (h : ∀ k ∈ l, q k = true → dl k = true) :
    (l.filter fun k => !f k && dl k && !q k).length + (l.filter fun k => q k && !f k).length =
      (l.filter fun k => !f k && dl k).length := by
  induction l with
  | nil => rfl
  | cons a l ih =>
    have h1 := h a (by simp)
    have ih' := ih (fun k hk => h k (by simp [hk]))
    simp only [List.filter_cons]
    cases hf : f a <;> cases hd : dl a <;> cases hq : q a <;> simp_all <;> omega

theorem count_react (l D : List Nat) (f dl q : Nat → Bool) (hD : D = l.filter q) (hdl : ∀ d ∈ D, dl d = true) :
    (l.filter fun k => !f k && dl k && !(D.contains k)).length + (D.filter fun d => !f d).length =
      (l.filter fun k => !f k && dl k && !(([] : List Nat).contains k)).length := by
  subst hD
  have h1 : (l.filter fun k => !f k && dl k && !((l.filter q).contains k)) = l.filter fun k => !f k && dl k && !q k := by
    apply List.filter_congr
    intro k hk
    have : (l.filter q).contains k = q k := by
      rw [Bool.eq_iff_iff]; simp [List.mem_filter, hk]
    rw [this]
  have h2 : (l.filter fun k => !f k && dl k && !(([] : List Nat).contains k)) = l.filter fun k => !f k && dl k := by
    apply List.filter_congr
    intro k hk
    simp
  rw [h1, h2, List.filter_filter]
  have := filter_split l f dl q (fun k hk hq => hdl k (by simp [List.mem_filter, hk, hq]))
  have h3 : (l.filter fun a => !f a && q a) = l.filter fun k => q k && !f k := by
    apply List.filter_congr
    intro k hk
    exact Bool.and_comm _ _
  rw [h3]
  exact this

theorem critIn_false {c : Cfg} {a : StA} {D : List Nat} (h : critIn c a D = false) :
    ∀ d ∈ D, c.critical d = true → ∀ e, a.ph d ≠ .done (.exc e) := by
  intro d hd hc e he
  have : critIn c a D = true := by
    simp only [critIn, List.any_eq_true]
    exact ⟨d, hd, by simp [hc, he]⟩
  simp [h] at this

theorem invB_react (c : Cfg) (w : WF c) (st st' : StB) (s : Nat)
    (hA : InvA c st.a) (hinv : InvB c st) (h : stepB c st (.react s) = some st') : InvB c st' := by
  simp only [stepB] at h
  split at h
  · rename_i D hloop hD
    split at h
    · cases h
    · rename_i hcp
      split at h
      · -- a critical job raised
        split at h
        · cases h
        · rename_i a' ha
          cases h
          obtain ⟨_, ⟨hsn, hss, hpcs, hK⟩, hph, hcreq, hdeliv, hpc, hrx, hnow⟩ := stepA_react_leave ha
          exact invB_exitLoop c w st s .critical st.nbDone st.carrived a' hA hinv hloop (fun _ _ => rfl)
            (fun _ h => Or.inl h) (fun _ h => h) (by intro h; cases h) hph hcreq hdeliv hpc hrx hnow
      · rename_i hcrit
        split at h
        · -- all regular jobs done
          split at h
          · cases h
          · rename_i a' ha
            cases h
            obtain ⟨_, ⟨hsn, hss, hpcs, hK⟩, hph, hcreq, hdeliv, hpc, hrx, hnow⟩ := stepA_react_leave ha
            exact invB_exitLoop c w st s .success _ st.carrived a' hA hinv hloop
              (fun s' hs' => by simp [setAt, hs'])
              (fun _ h => Or.inl h) (fun _ h => h) (by intro h; cases h) hph hcreq hdeliv hpc hrx hnow
        · split at h
          · -- the deadline is reached
            split at h
            · cases h
            · rename_i a' ha
              cases h
              obtain ⟨_, ⟨hsn, hss, hpcs, hK⟩, hph, hcreq, hdeliv, hpc, hrx, hnow⟩ := stepA_react_leave ha
              exact invB_exitLoop c w st s .timeout _ st.carrived a' hA hinv hloop
                (fun s' hs' => by simp [setAt, hs'])
                (fun _ h => Or.inl h) (fun _ h => h) (by intro h; cases h) hph hcreq hdeliv hpc hrx hnow
          · split at h
            · cases h
            · rename_i hnb hexp a' ha
              cases h
              obtain ⟨D2, hD2, ⟨hsn, hss, hpcs⟩, ⟨S, hS, hph⟩, hcreq, hdeliv, hpc, hrx, hnow⟩ := stepA_react_go ha
              clear ha
              rw [hD] at hD2; cases hD2
              obtain ⟨ph', creq', rflag', deliv', entries', dbl', pc', qcount', rx', now'⟩ := a'
              simp only at hph hcreq hdeliv hpc hrx hnow
              subst hph hcreq hdeliv hpc hrx hnow
              have hcr := critIn_false (by simpa using hcrit)
              have hdl := hinv.didSdLoop s
              have hsub := hinv.rxSub s D hD
              have hrl := (hA.rxLoop s D hD).2
              exact
                { hinv with
                  loopClean := by
                    intro s'
                    have := hinv.loopClean s'
                    inv_close
                  count := by
                    intro s' hl
                    have := hinv.count s' hl
                    simp only [setAt, rxD] at *
                    by_cases he : s' = s
                    · subst he
                      simp only [if_true, hD, Option.getD_some, Option.getD_none] at *
                      rw [this]
                      obtain ⟨q, hq⟩ := hsub
                      exact count_react (c.children s') D c.forever st.a.deliv q hq hrl
                    · simp only [if_neg he] at *
                      exact this
                  noCrit := by
                    intro s'
                    have := hinv.noCrit s'
                    have := hcr
                    inv_close
                  exitCancelled := by
                    intro s'
                    have := hinv.exitCancelled s'
                    inv_close
                  shutQuiet := by
                    intro s' x'
                    have := hinv.shutQuiet s' x'
                    inv_close
                  sdQuiet := by
                    intro s'
                    have := hinv.sdQuiet s'
                    inv_close
                  relayIdle := by
                    intro s'
                    have := hinv.relayIdle s'
                    have := hinv.hphNone s'
                    have := hinv.hcallsLe s'
                    have := hinv.hcallsDid s'
                    inv_close
                  runPh := by
                    intro s'
                    have := hinv.runPh s'
                    inv_close
                  overQuiet := by
                    intro s'
                    have := hinv.overQuiet s'
                    inv_close
                  rxSub := by
                    intro s' D'
                    have := hinv.rxSub s' D'
                    inv_close }
  · cases h

/-- the orchestration of `s` fails instead of reacting: as far as the invariant goes, one more way to leave the loop -/
theorem invB_orchFail (c : Cfg) (w : WF c) (st st' : StB) (s : Nat)
    (hA : InvA c st.a) (hinv : InvB c st) (h : stepB c st (.orchFail s) = some st') : InvB c st' := by
  simp only [stepB] at h
  split at h
  · rename_i D hloop hD
    split at h
    · cases h
    · split at h
      · cases h
      · rename_i a' ha
        cases h
        obtain ⟨_, ⟨hsn, hss, hpcs, hK⟩, hph, hcreq, hdeliv, hpc, hrx, hnow⟩ := stepA_react_leave ha
        exact invB_exitLoop c w st s .crashed st.nbDone st.carrived a' hA hinv hloop (fun _ _ => rfl)
          (fun _ h => Or.inl h) (fun _ h => h) (by intro h; cases h) hph hcreq hdeliv hpc hrx hnow
  · cases h

theorem invB_timeoutFire (c : Cfg) (w : WF c) (st st' : StB) (s : Nat)
    (hA : InvA c st.a) (hinv : InvB c st) (h : stepB c st (.timeoutFire s) = some st') : InvB c st' := by
  simp only [stepB] at h
  split at h
  · rename_i hg
    obtain ⟨hloop, _⟩ := hg
    split at h
    · cases h
    · rename_i a' ha
      cases h
      obtain ⟨⟨hsn, hss, hpcs, hK⟩, hph, hcreq, hdeliv, hpc, hrx, hnow⟩ := stepA_leave ha
      exact invB_exitLoop c w st s .timeout st.nbDone st.carrived a' hA hinv hloop (fun _ _ => rfl)
        (fun _ h => Or.inl h) (fun _ h => h) (by intro h; cases h) hph hcreq hdeliv hpc hrx hnow
  · cases h

theorem invB_cancelArrive (c : Cfg) (w : WF c) (st st' : StB) (s : Nat)
    (hA : InvA c st.a) (hinv : InvB c st) (h : stepB c st (.cancelArrive s) = some st') : InvB c st' := by
  simp only [stepB] at h
  split at h
  · rename_i hg
    obtain ⟨hsn, hss, hrun, hcr, hca⟩ := hg
    split at h
    · rename_i hloop
      split at h
      · cases h
      · rename_i a' ha
        cases h
        obtain ⟨_, hph, hcreq, hdeliv, hpc, hrx, hnow⟩ := stepA_leave ha
        exact invB_exitLoop c w st s .cancelled st.nbDone (setAt st.carrived s true) a' hA hinv hloop (fun _ _ => rfl)
          (fun s' h => by simp only [setAt] at h; grind) (fun s' h => by simp only [setAt]; grind)
          (fun _ => by simp [setAt]) hph hcreq hdeliv hpc hrx hnow
    · rename_i x hx
      cases h
      exact
        { hinv with
          pcNotBegun := by
            intro s'
            have := hinv.pcNotBegun s'
            inv_close
          pcLoop := by
            intro s'
            have := hinv.pcLoop s'
            inv_close
          pcOver := by
            intro s'
            have := hinv.pcOver s'
            inv_close
          loopClean := by
            intro s'
            have := hinv.loopClean s'
            inv_close
          count := by
            intro s'
            have := hinv.count s'
            inv_close
          noCrit := by
            intro s'
            have := hinv.noCrit s'
            inv_close
          exitCancelled := by
            intro s'
            have := hinv.exitCancelled s'
            inv_close
          shutQuiet := by
            intro s' x'
            have := hinv.shutQuiet s' x'
            inv_close
          bcInlineWait := by
            intro s'
            have := hinv.bcInlineWait s'
            inv_close
          bcInlineTidy := by
            intro s'
            have := hinv.bcInlineTidy s'
            inv_close
          overDid := by
            intro s'
            have := hinv.overDid s'
            inv_close
          deadlineEq := by
            intro s'
            have := hinv.deadlineEq s'
            inv_close
          deadlineGe := by
            intro s' dl'
            have := hinv.deadlineGe s' dl'
            inv_close
          diagClear := by
            intro s'
            have := hinv.diagClear s'
            inv_close
          failTSet := by
            intro s'
            have := hinv.diagClear s'
            have := hinv.failTSet s'
            inv_close
          failCSet := by
            intro s'
            have := hinv.diagClear s'
            have := hinv.failCSet s'
            inv_close
          carrivedCreq := by
            intro s'
            have := hinv.carrivedCreq s'
            inv_close
          didSdLoop := by
            intro s'
            have := hinv.didSdLoop s'
            inv_close
          didSdBegun := by
            intro s'
            have := hinv.didSdBegun s'
            inv_close
          pcRange := by
            intro s'
            have := hinv.pcRange s'
            inv_close
          runPh := by
            intro s'
            have := hinv.runPh s'
            inv_close
          cancelledArr := by
            intro s'
            have := hinv.cancelledArr s'
            inv_close
          carrivedCreq2 := by
            intro s'
            have := hinv.carrivedCreq2 s'
            inv_close
          overQuiet := by
            intro s'
            have := hinv.overQuiet s'
            inv_close }
    · rename_i x hx
      cases h
      have hbw := (hinv.bcInlineWait s).2 ⟨x, hx⟩
      exact
        { hinv with
          pcNotBegun := by
            intro s'
            have := hinv.pcNotBegun s'
            inv_close
          pcLoop := by
            intro s'
            have := hinv.pcLoop s'
            inv_close
          pcOver := by
            intro s'
            have := hinv.pcOver s'
            inv_close
          loopClean := by
            intro s'
            have := hinv.loopClean s'
            inv_close
          count := by
            intro s'
            have := hinv.count s'
            inv_close
          noCrit := by
            intro s'
            have := hinv.noCrit s'
            inv_close
          exitCancelled := by
            intro s'
            have := hinv.exitCancelled s'
            inv_close
          shutQuiet := by
            intro s' x'
            have := hinv.shutQuiet s' x'
            have := hinv.shutQuiet s x
            inv_close
          bcNone := by
            intro s'
            have := hinv.bcNone s'
            inv_close
          bcInlineWait := by
            intro s'
            have := hinv.bcInlineWait s'
            inv_close
          bcInlineTidy := by
            intro s'
            have := hinv.bcInlineTidy s'
            simp only [setAt] at *
            by_cases he : s' = s
            · simp [he]
            · simpa [he] using this
          bcRelay := by
            intro s'
            have := hinv.bcRelay s'
            inv_close
          hactiveBc := by
            intro k'
            have := hinv.hactiveBc k'
            inv_close
          hcreqActive := by
            intro k'
            have := hinv.hcreqActive k'
            inv_close
          overDid := by
            intro s'
            have := hinv.overDid s'
            inv_close
          deadlineEq := by
            intro s'
            have := hinv.deadlineEq s'
            inv_close
          deadlineGe := by
            intro s' dl'
            have := hinv.deadlineGe s' dl'
            inv_close
          hdeadlineEq := by
            intro s'
            have := hinv.hdeadlineEq s'
            inv_close
          hdeadlineGe := by
            intro s' dl'
            have := hinv.hdeadlineGe s' dl'
            inv_close
          diagClear := by
            intro s'
            have := hinv.diagClear s'
            inv_close
          failTSet := by
            intro s'
            have := hinv.diagClear s'
            have := hinv.failTSet s'
            inv_close
          failCSet := by
            intro s'
            have := hinv.diagClear s'
            have := hinv.failCSet s'
            inv_close
          carrivedCreq := by
            intro s'
            have := hinv.carrivedCreq s'
            inv_close
          didSdLoop := by
            intro s'
            have := hinv.didSdLoop s'
            inv_close
          didSdBegun := by
            intro s'
            have := hinv.didSdBegun s'
            inv_close
          pcRange := by
            intro s'
            have := hinv.pcRange s'
            inv_close
          runPh := by
            intro s'
            have := hinv.runPh s'
            inv_close
          cancelledArr := by
            intro s'
            have := hinv.cancelledArr s'
            inv_close
          carrivedCreq2 := by
            intro s'
            have := hinv.carrivedCreq2 s'
            inv_close
          overQuiet := by
            intro s'
            have := hinv.overQuiet s'
            inv_close }
    · rename_i x hx
      cases h
      exact
        { hinv with
          pcNotBegun := by
            intro s'
            have := hinv.pcNotBegun s'
            inv_close
          pcLoop := by
            intro s'
            have := hinv.pcLoop s'
            inv_close
          pcOver := by
            intro s'
            have := hinv.pcOver s'
            inv_close
          loopClean := by
            intro s'
            have := hinv.loopClean s'
            inv_close
          count := by
            intro s'
            have := hinv.count s'
            inv_close
          noCrit := by
            intro s'
            have := hinv.noCrit s'
            inv_close
          exitCancelled := by
            intro s'
            have := hinv.exitCancelled s'
            inv_close
          shutQuiet := by
            intro s' x'
            have := hinv.shutQuiet s' x'
            have := hinv.shutQuiet s x
            inv_close
          bcInlineWait := by
            intro s'
            have := hinv.bcInlineWait s'
            inv_close
          bcInlineTidy := by
            intro s'
            have := hinv.bcInlineTidy s'
            simp only [setAt] at *
            by_cases he : s' = s
            · simp [he, hx] at *; exact this
            · simpa [he] using this
          overDid := by
            intro s'
            have := hinv.overDid s'
            inv_close
          deadlineEq := by
            intro s'
            have := hinv.deadlineEq s'
            inv_close
          deadlineGe := by
            intro s' dl'
            have := hinv.deadlineGe s' dl'
            inv_close
          diagClear := by
            intro s'
            have := hinv.diagClear s'
            inv_close
          failTSet := by
            intro s'
            have := hinv.diagClear s'
            have := hinv.failTSet s'
            inv_close
          failCSet := by
            intro s'
            have := hinv.diagClear s'
            have := hinv.failCSet s'
            inv_close
          carrivedCreq := by
            intro s'
            have := hinv.carrivedCreq s'
            inv_close
          didSdLoop := by
            intro s'
            have := hinv.didSdLoop s'
            inv_close
          didSdBegun := by
            intro s'
            have := hinv.didSdBegun s'
            inv_close
          pcRange := by
            intro s'
            have := hinv.pcRange s'
            inv_close
          runPh := by
            intro s'
            have := hinv.runPh s'
            inv_close
          cancelledArr := by
            intro s'
            have := hinv.cancelledArr s'
            inv_close
          carrivedCreq2 := by
            intro s'
            have := hinv.carrivedCreq2 s'
            inv_close
          overQuiet := by
            intro s'
            have := hinv.overQuiet s'
            inv_close }
    · cases h
  · cases h

/-- `co_run` of `s` begins (`runBegin` for the top-level scheduler, `grant s` for a nested one) -/
theorem invB_begin (c : Cfg) (w : WF c) (st : StB) (s : Nat) (a' : StA)
    (hA : InvA c st.a) (hinv : InvB c st) (hnb : st.pcB s = .notBegun) (hsn : s < c.n) (hss : c.isSched s = true)
    (hcase : (s = 0 ∧ st.a.ph 0 = .idle) ∨ (0 < s ∧ st.a.ph s = .queued ∧ st.a.creq s = false))
    (hcreq : a'.creq = st.a.creq) (hdeliv : a'.deliv = st.a.deliv) (hnow : a'.now = st.a.now)
    (hrest : ((c.children s).isEmpty = true ∧ a'.ph = setAt st.a.ph s (.done (.retBool true)) ∧
        a'.pc = setAt st.a.pc s .over ∧ a'.rx = st.a.rx) ∨
     ((c.children s).isEmpty = false ∧
        a'.ph = (fun k => if k ∈ entrySet c s ∧ setAt st.a.ph s .running k = .idle then .queued
                          else setAt st.a.ph s .running k) ∧
        a'.pc = setAt st.a.pc s .loop ∧ a'.rx = setAt st.a.rx s none)) :
    InvB c (beginB c st s a') := by
  have hself := not_self_child w s
  have h0 : ∀ p, 0 ∉ c.children p := by intro p hp; exact (mem_children.1 hp).2.1 rfl
  -- the scheduler has not shut down yet
  have hnd : st.didSd s = false := by
    cases hd : st.didSd s
    · rfl
    · exfalso
      have h1 := hinv.didSdBegun s hd hnb
      rcases hcase with ⟨rfl, _⟩ | ⟨hs0, hq, _⟩
      · have := hinv.hcallsRange 0 (by intro h; exact h1 ((hinv.hphNone 0).2 h))
        omega
      · have := hinv.relayIdle s hss hs0 h1
        simp [hq, Ph.live] at this
  -- its jobs are idle, nothing was asked of them
  have hidle : ∀ k ∈ c.children s, st.a.ph k = .idle := by
    intro k hk
    obtain ⟨h1, h2, h3⟩ := mem_children.1 hk
    exact hA.childIdle k (by omega) h1 (by rw [h3]; exact (hinv.pcNotBegun s).1 hnb)
  have hcr : ∀ k ∈ c.children s, st.a.creq k = false := by
    intro k hk
    cases hc : st.a.creq k
    · rfl
    · have := hA.creqLive k hc
      simp [hidle k hk, Ph.live] at this
  have hdl : ∀ k ∈ c.children s, st.a.deliv k = false := by
    intro k hk
    cases hc : st.a.deliv k
    · rfl
    · have := hA.delivFin k hc
      simp [hidle k hk, Ph.isDone] at this
  have hhn : ∀ k ∈ c.children s, st.hph k = .hnone := by
    intro k hk
    obtain ⟨h1, h2, h3⟩ := mem_children.1 hk
    have h4 := hinv.hcallsLe k
    have h5 := hinv.hcallsDid k (by omega) h1
    rw [h3, hnd] at h5
    apply (hinv.hphNone k).2
    have : st.hcalls k ≠ 1 := by intro h; have := h5.1 h; cases this
    omega
  have hes : ∀ k ∈ entrySet c s, k ∈ c.children s := fun k hk => mem_entrySet hk
  obtain ⟨ph', creq', rflag', deliv', entries', dbl', pc', qcount', rx', now'⟩ := a'
  simp only at hcreq hdeliv hnow hrest
  subst hcreq hdeliv hnow
  have hpcs := (hinv.pcNotBegun s).1 hnb
  rcases hrest with ⟨he, hph, hpc, hrx⟩ | ⟨he, hph, hpc, hrx⟩
  · subst hph hpc hrx
    have hnoch : ∀ k, k ∈ c.children s → False := by
      intro k hk; rw [List.isEmpty_iff.1 he] at hk; cases hk
    have hch : c.children s = [] := List.isEmpty_iff.1 he
    unfold beginB
    rw [if_pos he]
    exact
      { hinv with
        pcNotBegun := by
          intro s'
          have := hinv.pcNotBegun s'
          have := hnoch
          inv_close
        pcLoop := by
          intro s'
          have := hinv.pcLoop s'
          have := hnoch
          inv_close
        pcOver := by
          intro s'
          have := hinv.pcOver s'
          have := hnoch
          inv_close
        loopClean := by
          intro s'
          have := hinv.loopClean s'
          have := hnoch
          inv_close
        count := by
          intro s'
          have := hinv.count s'
          have := hnoch
          inv_close
        noCrit := by
          intro s'
          have := hinv.noCrit s'
          have := hnoch
          inv_close
        exitCancelled := by
          intro s'
          have := hinv.exitCancelled s'
          have := hnoch
          inv_close
        shutQuiet := by
          intro s' x'
          have := hinv.shutQuiet s' x'
          have := hnoch
          inv_close
        bcInlineWait := by
          intro s'
          have := hinv.bcInlineWait s'
          have := hnoch
          inv_close
        bcInlineTidy := by
          intro s'
          have := hinv.bcInlineTidy s'
          have := hnoch
          inv_close
        overDid := by
          intro s' hn' hs' ho hne
          have := hinv.overDid s' hn' hs'
          simp only [setAt] at *
          by_cases he' : s' = s
          · subst he'; exact absurd hch hne
          · simp only [if_neg he'] at ho; exact this ho hne
        sdQuiet := by
          intro s'
          have := hinv.sdQuiet s'
          have := hnoch
          inv_close
        relayIdle := by
          intro s'
          have := hinv.relayIdle s'
          have := hnoch
          inv_close
        deadlineEq := by
          intro s'
          have := hinv.deadlineEq s'
          have := hnoch
          inv_close
        deadlineGe := by
          intro s' dl'
          have := hinv.deadlineGe s' dl'
          have := hnoch
          inv_close
        diagClear := by
          intro s'
          have := hinv.diagClear s'
          have := hnoch
          inv_close
        failTSet := by
          intro s'
          have := hinv.diagClear s'
          have := hinv.failTSet s'
          have := hnoch
          inv_close
        failCSet := by
          intro s'
          have := hinv.diagClear s'
          have := hinv.failCSet s'
          have := hnoch
          inv_close
        carrivedCreq := by
          intro s'
          have := hinv.carrivedCreq s'
          have := hnoch
          inv_close
        didSdLoop := by
          intro s'
          have := hinv.didSdLoop s'
          have := hnoch
          inv_close
        didSdBegun := by
          intro s'
          have := hinv.didSdBegun s'
          have := hnoch
          inv_close
        pcRange := by
          intro s'
          have := hinv.pcRange s'
          have := hnoch
          inv_close
        runPh := by
          intro s'
          have := hinv.runPh s'
          have := hnoch
          inv_close
        cancelledArr := by
          intro s'
          have := hinv.cancelledArr s'
          have := hnoch
          inv_close
        carrivedCreq2 := by
          intro s'
          have := hinv.carrivedCreq2 s'
          have := hnoch
          inv_close
        overQuiet := by
          intro s'
          have := hinv.overQuiet s'
          have := hnoch
          inv_close }
  · subst hph hpc hrx
    unfold beginB
    rw [if_neg (by simp [he])]
    generalize entrySet c s = E at *
    exact
      { hinv with
        pcNotBegun := by
          intro s'
          have := hinv.pcNotBegun s'
          inv_close
        pcLoop := by
          intro s'
          have := hinv.pcLoop s'
          inv_close
        pcOver := by
          intro s'
          have := hinv.pcOver s'
          inv_close
        loopClean := by
          intro s'
          have := hinv.loopClean s'
          have := hidle
          have := hcr
          inv_close
        count := by
          intro s' hl
          simp only [setAt, rxD] at *
          by_cases he' : s' = s
          · subst he'
            simp only [if_true, Option.getD_none]
            symm
            rw [List.length_eq_zero_iff, List.filter_eq_nil_iff]
            intro k hk
            simp [hdl k hk]
          · simp only [if_neg he'] at *
            exact hinv.count s' hl
        noCrit := by
          intro s'
          have := hinv.noCrit s'
          have := hidle
          inv_close
        exitCancelled := by
          intro s'
          have := hinv.exitCancelled s'
          have := hidle
          inv_close
        shutQuiet := by
          intro s' x'
          have := hinv.shutQuiet s' x'
          have := hidle
          inv_close
        bcInlineWait := by
          intro s'
          have := hinv.bcInlineWait s'
          inv_close
        bcInlineTidy := by
          intro s'
          have := hinv.bcInlineTidy s'
          inv_close
        overDid := by
          intro s'
          have := hinv.overDid s'
          inv_close
        sdQuiet := by
          intro s'
          have := hinv.sdQuiet s'
          have := hidle
          inv_close
        relayIdle := by
          intro s'
          have := hinv.relayIdle s'
          have := hhn s'
          have := hidle
          inv_close
        deadlineEq := by
          intro s'
          have := hinv.deadlineEq s'
          inv_close
        deadlineGe := by
          intro s' dl'
          have := hinv.deadlineGe s' dl'
          simp only [setAt] at *
          cases ht : c.timeout s <;> grind
        diagClear := by
          intro s'
          have := hinv.diagClear s'
          inv_close
        failTSet := by
          intro s'
          have := hinv.diagClear s'
          have := hinv.failTSet s'
          inv_close
        failCSet := by
          intro s'
          have := hinv.diagClear s'
          have := hinv.failCSet s'
          inv_close
        carrivedCreq := by
          intro s'
          have := hinv.carrivedCreq s'
          inv_close
        didSdLoop := by
          intro s'
          have := hinv.didSdLoop s'
          inv_close
        didSdBegun := by
          intro s'
          have := hinv.didSdBegun s'
          inv_close
        pcRange := by
          intro s'
          have := hinv.pcRange s'
          inv_close
        runPh := by
          intro s'
          have := hinv.runPh s'
          have := hidle
          inv_close
        cancelledArr := by
          intro s'
          have := hinv.cancelledArr s'
          inv_close
        carrivedCreq2 := by
          intro s'
          have := hinv.carrivedCreq2 s'
          inv_close
        overQuiet := by
          intro s'
          have := hinv.overQuiet s'
          have := hidle
          inv_close
        rxSub := by
          intro s' D'
          have := hinv.rxSub s' D'
          inv_close }

theorem invB_runBegin (c : Cfg) (w : WF c) (st st' : StB)
    (hA : InvA c st.a) (hinv : InvB c st) (h : stepB c st .runBegin = some st') : InvB c st' := by
  simp only [stepB] at h
  split at h
  · cases h
  · rename_i a' ha
    cases h
    obtain ⟨⟨hi, hp⟩, hcreq, hdeliv, hnow, hrest⟩ := stepA_runBegin ha
    exact invB_begin c w st 0 a' hA hinv ((hinv.pcNotBegun 0).2 hp) w.npos w.sched0 (Or.inl ⟨rfl, hi⟩)
      hcreq hdeliv hnow hrest

theorem invB_grant (c : Cfg) (w : WF c) (st st' : StB) (j : Nat)
    (hA : InvA c st.a) (hinv : InvB c st) (h : stepB c st (.grant j) = some st') : InvB c st' := by
  simp only [stepB] at h
  split at h
  · cases h
  · rename_i a' ha
    obtain ⟨⟨hj0, hjn, hjq, hjc⟩, hcreq, hdeliv, hnow, hrest⟩ := stepA_grant ha
    clear ha
    split at h
    · rename_i hs
      cases h
      have hnb : st.pcB j = .notBegun := (hinv.pcNotBegun j).2 (hA.notBegun j hs (Or.inr hjq))
      refine invB_begin c w st j a' hA hinv hnb hjn hs (Or.inr ⟨hj0, hjq, hjc⟩) hcreq hdeliv hnow ?_
      rcases hrest with ⟨h1, _⟩ | ⟨_, h2⟩ | ⟨_, h3⟩
      · simp [hs] at h1
      · exact Or.inl h2
      · exact Or.inr h3
    · rename_i hs
      cases h
      rcases hrest with ⟨_, hph, hpc, hrx⟩ | ⟨h1, _⟩ | ⟨h1, _⟩
      · obtain ⟨ph', creq', rflag', deliv', entries', dbl', pc', qcount', rx', now'⟩ := a'
        simp only at hph hcreq hdeliv hpc hrx hnow
        subst hph hcreq hdeliv hpc hrx hnow
        have hpcj := hinv.pcRange j
        exact
          { hinv with
            loopClean := by
              intro s'
              have := hinv.loopClean s'
              inv_close
            noCrit := by
              intro s'
              have := hinv.noCrit s'
              inv_close
            exitCancelled := by
              intro s'
              have := hinv.exitCancelled s'
              inv_close
            shutQuiet := by
              intro s' x'
              have := hinv.shutQuiet s' x'
              inv_close
            sdQuiet := by
              intro s'
              have := hinv.sdQuiet s'
              inv_close
            relayIdle := by
              intro s'
              have := hinv.relayIdle s'
              inv_close
            runPh := by
              intro s'
              have := hinv.runPh s'
              inv_close
            overQuiet := by
              intro s'
              have := hinv.overQuiet s'
              inv_close }
      · exact absurd h1 hs
      · exact absurd h1 hs

theorem verdict_none {c : Cfg} {st : StB} {s : Nat} {x : Exit} {pick : Nat}
    (h : verdict c st s x pick = some none) : x = .cancelled := by
  unfold verdict at h
  cases x
  · cases h
  · simp only at h
    split at h
    · split at h
      · split at h <;> cases h
      · cases h
    · cases h
  · simp only at h
    split at h <;> cases h
  · rfl
  · cases h

/-- `co_run` of `s` ends -/
theorem invB_finish (c : Cfg) (w : WF c) (st : StB) (s : Nat) (x : Exit) (pick : Nat) (bc' : Nat → Bc)
    (sv' : Nat → Option Bool) (st' : StB) (hA : InvA c st.a) (hinv : InvB c st)
    (hcase : (bc' = st.bc ∧ st.pcB s = .tidy x ∧ st.didSd s = true ∧ liveChildren c st.a s = []) ∨
             (bc' = setAt st.bc s .bover ∧ activeHandlers c st s = [] ∧ (st.pcB s = .shut x ∨ st.pcB s = .shutTidy x)))
    (h : finishRun c { st with bc := bc', sdValue := sv' } s x pick = some st') : InvB c st' := by
  unfold finishRun at h
  split at h
  · cases h
  · rename_i r hv
    split at h
    · cases h
    · rename_i a' ha
      cases h
      have hrx' : r = none → x = .cancelled := fun hr => verdict_none (hr ▸ hv)
      clear hv
      obtain ⟨⟨hsn, hss, hpce, hrun⟩, hph, hcreq, hdeliv, hpc, hrx, hnow⟩ := stepA_finish ha
      clear ha
      obtain ⟨ph', creq', rflag', deliv', entries', dbl', pc', qcount', rx', now'⟩ := a'
      simp only at hph hcreq hdeliv hpc hrx hnow hsn hss hpce hrun
      subst hph hcreq hdeliv hpc hrx hnow
      have hfin : (finPh r).live = false ∧ (finPh r = .cancelled → x = .cancelled) := by
        cases r <;> simp [finPh, Ph.live] at *
        exact hrx'
      generalize finPh r = fp at *
      have hself := not_self_child w s
      rcases hcase with ⟨rfl, hpcs, hds, hlq⟩ | ⟨rfl, hact, hpcs⟩
      · have hlq := liveChildren_nil hlq
        exact
          { hinv with
            pcNotBegun := by
              intro s'
              have := hinv.pcNotBegun s'
              inv_close
            pcLoop := by
              intro s'
              have := hinv.pcLoop s'
              inv_close
            pcOver := by
              intro s'
              have := hinv.pcOver s'
              inv_close
            loopClean := by
              intro s'
              have := hinv.loopClean s'
              have := hinv.cancelledArr s
              have := hinv.carrivedCreq2 s
              inv_close
            count := by
              intro s'
              have := hinv.count s'
              inv_close
            noCrit := by
              intro s'
              have := hinv.noCrit s'
              have := hA.delivFin s
              inv_close
            exitCancelled := by
              intro s'
              have := hinv.exitCancelled s'
              inv_close
            shutQuiet := by
              intro s' x'
              have := hinv.shutQuiet s' x'
              inv_close
            bcInlineWait := by
              intro s'
              have := hinv.bcInlineWait s'
              inv_close
            bcInlineTidy := by
              intro s'
              have := hinv.bcInlineTidy s'
              inv_close
            overDid := by
              intro s'
              have := hinv.overDid s'
              inv_close
            sdQuiet := by
              intro s'
              have := hinv.sdQuiet s'
              inv_close
            relayIdle := by
              intro s'
              have := hinv.relayIdle s'
              inv_close
            deadlineEq := by
              intro s'
              have := hinv.deadlineEq s'
              inv_close
            deadlineGe := by
              intro s' dl'
              have := hinv.deadlineGe s' dl'
              inv_close
            diagClear := by
              intro s'
              have := hinv.diagClear s'
              inv_close
            failTSet := by
              intro s'
              have := hinv.diagClear s'
              have := hinv.failTSet s'
              inv_close
            failCSet := by
              intro s'
              have := hinv.diagClear s'
              have := hinv.failCSet s'
              inv_close
            carrivedCreq := by
              intro s'
              have := hinv.carrivedCreq s'
              inv_close
            didSdLoop := by
              intro s'
              have := hinv.didSdLoop s'
              inv_close
            didSdBegun := by
              intro s'
              have := hinv.didSdBegun s'
              inv_close
            pcRange := by
              intro s'
              have := hinv.pcRange s'
              inv_close
            runPh := by
              intro s'
              have := hinv.runPh s'
              inv_close
            cancelledArr := by
              intro s'
              have := hinv.cancelledArr s'
              inv_close
            carrivedCreq2 := by
              intro s'
              have := hinv.carrivedCreq2 s'
              inv_close
            overQuiet := by
              intro s'
              have := hinv.overQuiet s'
              have := hlq
              inv_close }
      · have hact := activeHandlers_nil hact
        have hlq := hinv.shutQuiet s x hpcs
        have hb1 := hinv.bcInlineWait s
        have hb2 := hinv.bcInlineTidy s
        have hb3 := hinv.bcNone s
        exact
          { hinv with
            pcNotBegun := by
              intro s'
              have := hinv.pcNotBegun s'
              inv_close
            pcLoop := by
              intro s'
              have := hinv.pcLoop s'
              inv_close
            pcOver := by
              intro s'
              have := hinv.pcOver s'
              inv_close
            loopClean := by
              intro s'
              have := hinv.loopClean s'
              have := hinv.cancelledArr s
              have := hinv.carrivedCreq2 s
              inv_close
            count := by
              intro s'
              have := hinv.count s'
              inv_close
            noCrit := by
              intro s'
              have := hinv.noCrit s'
              have := hA.delivFin s
              inv_close
            exitCancelled := by
              intro s'
              have := hinv.exitCancelled s'
              inv_close
            shutQuiet := by
              intro s' x'
              have := hinv.shutQuiet s' x'
              inv_close
            bcNone := by
              intro s'
              have := hinv.bcNone s'
              inv_close
            bcInlineWait := by
              intro s'
              have := hinv.bcInlineWait s'
              inv_close
            bcInlineTidy := by
              intro s'
              have := hinv.bcInlineTidy s'
              inv_close
            bcRelay := by
              intro s'
              have := hinv.bcRelay s'
              inv_close
            hactiveBc := by
              intro k'
              have := hinv.hactiveBc k'
              have := hact
              inv_close
            overDid := by
              intro s'
              have := hinv.overDid s'
              inv_close
            sdQuiet := by
              intro s'
              have := hinv.sdQuiet s'
              inv_close
            relayIdle := by
              intro s'
              have := hinv.relayIdle s'
              inv_close
            deadlineEq := by
              intro s'
              have := hinv.deadlineEq s'
              inv_close
            deadlineGe := by
              intro s' dl'
              have := hinv.deadlineGe s' dl'
              inv_close
            hdeadlineEq := by
              intro s'
              have := hinv.hdeadlineEq s'
              inv_close
            hdeadlineGe := by
              intro s' dl'
              have := hinv.hdeadlineGe s' dl'
              inv_close
            diagClear := by
              intro s'
              have := hinv.diagClear s'
              inv_close
            failTSet := by
              intro s'
              have := hinv.diagClear s'
              have := hinv.failTSet s'
              inv_close
            failCSet := by
              intro s'
              have := hinv.diagClear s'
              have := hinv.failCSet s'
              inv_close
            carrivedCreq := by
              intro s'
              have := hinv.carrivedCreq s'
              inv_close
            didSdLoop := by
              intro s'
              have := hinv.didSdLoop s'
              inv_close
            didSdBegun := by
              intro s'
              have := hinv.didSdBegun s'
              inv_close
            pcRange := by
              intro s'
              have := hinv.pcRange s'
              inv_close
            runPh := by
              intro s'
              have := hinv.runPh s'
              inv_close
            cancelledArr := by
              intro s'
              have := hinv.cancelledArr s'
              inv_close
            carrivedCreq2 := by
              intro s'
              have := hinv.carrivedCreq2 s'
              inv_close
            overQuiet := by
              intro s'
              have := hinv.overQuiet s'
              have := hlq
              inv_close }

theorem invB_tidyReturn (c : Cfg) (w : WF c) (st st' : StB) (s pick : Nat)
    (hA : InvA c st.a) (hinv : InvB c st) (h : stepB c st (.tidyReturn s pick) = some st') : InvB c st' := by
  simp only [stepB] at h
  split at h
  · rename_i x hx
    split at h
    · rename_i hg
      obtain ⟨hlq, hcp⟩ := hg
      split at h
      · rename_i hd
        exact invB_finish c w st s x pick st.bc _ st' hA hinv (Or.inl ⟨rfl, hx, hd, hlq⟩) h
      · rename_i hd
        cases h
        have hlq := liveChildren_nil hlq
        have hself := not_self_child w s
        have hpr := hinv.pcRange s
        have hbn : st.bc s = .bnone := (hinv.bcNone s).2 (by simpa using hd)
        exact
          { hinv with
            pcNotBegun := by
              intro s'
              have := hinv.pcNotBegun s'
              inv_close
            pcLoop := by
              intro s'
              have := hinv.pcLoop s'
              inv_close
            pcOver := by
              intro s'
              have := hinv.pcOver s'
              inv_close
            loopClean := by
              intro s'
              have := hinv.loopClean s'
              inv_close
            count := by
              intro s'
              have := hinv.count s'
              inv_close
            noCrit := by
              intro s'
              have := hinv.noCrit s'
              inv_close
            exitCancelled := by
              intro s'
              have := hinv.exitCancelled s'
              inv_close
            shutQuiet := by
              intro s' x'
              have := hinv.shutQuiet s' x'
              have := hlq
              inv_close
            hcallsLe := by
              intro k'
              have := hinv.hcallsLe k'
              have := hinv.hcallsDid k'
              inv_close
            hcallsDid := by
              intro k'
              have := hinv.hcallsDid k'
              have := hinv.hcallsLe k'
              inv_close
            hphNone := by
              intro k'
              have := hinv.hphNone k'
              inv_close
            bcNone := by
              intro s'
              have := hinv.bcNone s'
              inv_close
            bcInlineWait := by
              intro s'
              have := hinv.bcInlineWait s'
              simp only [broadcast, setAt] at *
              by_cases he : s' = s
              · simp [he]
              · simpa [he] using this
            bcInlineTidy := by
              intro s'
              have := hinv.bcInlineTidy s'
              inv_close
            bcRelay := by
              intro s'
              have := hinv.bcRelay s'
              inv_close
            hactiveBc := by
              intro k'
              have := hinv.hactiveBc k'
              inv_close
            hcreqActive := by
              intro k'
              have := hinv.hcreqActive k'
              inv_close
            overDid := by
              intro s'
              have := hinv.overDid s'
              inv_close
            sdQuiet := by
              intro s'
              have := hinv.sdQuiet s'
              have := hlq
              inv_close
            relayIdle := by
              intro s'
              have := hinv.relayIdle s'
              have := hlq
              inv_close
            deadlineEq := by
              intro s'
              have := hinv.deadlineEq s'
              inv_close
            deadlineGe := by
              intro s' dl'
              have := hinv.deadlineGe s' dl'
              inv_close
            hdeadlineEq := by
              intro s'
              have := hinv.hdeadlineEq s'
              inv_close
            hdeadlineGe := by
              intro s' dl'
              have := hinv.hdeadlineGe s' dl'
              simp only [broadcast, setAt] at *
              cases ht : c.sdTimeout s <;> grind [Bc.isWait]
            diagClear := by
              intro s'
              have := hinv.diagClear s'
              inv_close
            failTSet := by
              intro s'
              have := hinv.diagClear s'
              have := hinv.failTSet s'
              inv_close
            failCSet := by
              intro s'
              have := hinv.diagClear s'
              have := hinv.failCSet s'
              inv_close
            carrivedCreq := by
              intro s'
              have := hinv.carrivedCreq s'
              inv_close
            didSdLoop := by
              intro s'
              have := hinv.didSdLoop s'
              inv_close
            didSdBegun := by
              intro s'
              have := hinv.didSdBegun s'
              inv_close
            didSdRange := by
              intro s'
              have := hinv.didSdRange s'
              inv_close
            hcallsRange := by
              intro k'
              have := hinv.hcallsRange k'
              inv_close
            pcRange := by
              intro s'
              have := hinv.pcRange s'
              inv_close
            runPh := by
              intro s'
              have := hinv.runPh s'
              inv_close
            cancelledArr := by
              intro s'
              have := hinv.cancelledArr s'
              inv_close
            carrivedCreq2 := by
              intro s'
              have := hinv.carrivedCreq2 s'
              inv_close
            overQuiet := by
              intro s'
              have := hinv.overQuiet s'
              inv_close }
    · cases h
  · cases h

theorem invB_sdWaitReturn (c : Cfg) (w : WF c) (st st' : StB) (s pick : Nat)
    (hA : InvA c st.a) (hinv : InvB c st) (h : stepB c st (.sdWaitReturn s pick) = some st') : InvB c st' := by
  simp only [stepB] at h
  split at h
  · rename_i hg
    obtain ⟨hact, hcp, hhp⟩ := hg
    split at h
    · rename_i hb
      split at h
      · rename_i x hx
        exact invB_finish c w st s x pick _ _ st' hA hinv (Or.inr ⟨rfl, hact, Or.inl hx⟩) h
      · cases h
    · rename_i hb
      cases h
      have hact := activeHandlers_nil hact
      have hrel := hinv.bcRelay s (by simp [relayActive, hb])
      have hbn := hinv.bcNone s
      have hb1 := hinv.bcInlineWait s
      have hb2 := hinv.bcInlineTidy s
      exact
        { hinv with
          hphNone := by
            intro k'
            have := hinv.hphNone k'
            inv_close
          bcNone := by
            intro s'
            have := hinv.bcNone s'
            inv_close
          bcInlineWait := by
            intro s'
            have := hinv.bcInlineWait s'
            inv_close
          bcInlineTidy := by
            intro s'
            have := hinv.bcInlineTidy s'
            inv_close
          bcRelay := by
            intro s'
            have := hinv.bcRelay s'
            inv_close
          hactiveBc := by
            intro k'
            have := hinv.hactiveBc k'
            have := hact
            inv_close
          hcreqActive := by
            intro k'
            have := hinv.hcreqActive k'
            inv_close
          relayIdle := by
            intro s'
            have := hinv.relayIdle s'
            inv_close
          hdeadlineEq := by
            intro s'
            have := hinv.hdeadlineEq s'
            inv_close
          hdeadlineGe := by
            intro s' dl'
            have := hinv.hdeadlineGe s' dl'
            inv_close
          didSdBegun := by
            intro s'
            have := hinv.didSdBegun s'
            inv_close }
    · cases h
  · cases h

theorem invB_sdTidyReturn (c : Cfg) (w : WF c) (st st' : StB) (s pick : Nat)
    (hA : InvA c st.a) (hinv : InvB c st) (h : stepB c st (.sdTidyReturn s pick) = some st') : InvB c st' := by
  simp only [stepB] at h
  split at h
  · rename_i hg
    obtain ⟨hact, hcp, hhp⟩ := hg
    split at h
    · rename_i hb
      split at h
      · rename_i x hx
        exact invB_finish c w st s x pick _ _ st' hA hinv (Or.inr ⟨rfl, hact, Or.inr hx⟩) h
      · cases h
    · rename_i hb
      cases h
      have hact := activeHandlers_nil hact
      have hrel := hinv.bcRelay s (by simp [relayActive, hb])
      have hbn := hinv.bcNone s
      have hb1 := hinv.bcInlineWait s
      have hb2 := hinv.bcInlineTidy s
      exact
        { hinv with
          hphNone := by
            intro k'
            have := hinv.hphNone k'
            inv_close
          bcNone := by
            intro s'
            have := hinv.bcNone s'
            inv_close
          bcInlineWait := by
            intro s'
            have := hinv.bcInlineWait s'
            inv_close
          bcInlineTidy := by
            intro s'
            have := hinv.bcInlineTidy s'
            inv_close
          bcRelay := by
            intro s'
            have := hinv.bcRelay s'
            inv_close
          hactiveBc := by
            intro k'
            have := hinv.hactiveBc k'
            have := hact
            inv_close
          hcreqActive := by
            intro k'
            have := hinv.hcreqActive k'
            inv_close
          relayIdle := by
            intro s'
            have := hinv.relayIdle s'
            inv_close
          hdeadlineEq := by
            intro s'
            have := hinv.hdeadlineEq s'
            inv_close
          hdeadlineGe := by
            intro s' dl'
            have := hinv.hdeadlineGe s' dl'
            inv_close
          didSdBegun := by
            intro s'
            have := hinv.didSdBegun s'
            inv_close }
    · cases h
  · cases h

theorem invB_hEnd (c : Cfg) (w : WF c) (st st' : StB) (j : Nat)
    (hA : InvA c st.a) (hinv : InvB c st) (h : stepB c st (.hEnd j) = some st') : InvB c st' := by
  simp only [stepB] at h
  split at h
  · rename_i hg
    obtain ⟨hj0, hjn, hjs, hjh, hjc⟩ := hg
    cases h
    exact
      { hinv with
        hphNone := by
          intro k
          have := hinv.hphNone k
          simp only [setAt] at *
          grind
        bcRelay := by
          intro s hs
          have := hinv.bcRelay s hs
          simp only [setAt] at *
          grind
        hactiveBc := by
          intro k h0 hn
          have := hinv.hactiveBc k h0 hn
          simp only [setAt] at *
          grind
        hcreqActive := by
          intro k
          have := hinv.hcreqActive k
          simp only [setAt] at *
          grind
        relayIdle := by
          intro s hs h0
          have := hinv.relayIdle s hs h0
          simp only [setAt] at *
          grind
        didSdBegun := by
          intro s hs
          have := hinv.didSdBegun s hs
          simp only [setAt] at *
          grind }
  · cases h

theorem invB_hStep (c : Cfg) (w : WF c) (st st' : StB) (j : Nat)
    (hA : InvA c st.a) (hinv : InvB c st) (h : stepB c st (.hStep j) = some st') : InvB c st' := by
  simp only [stepB] at h
  split at h
  · rename_i hg
    obtain ⟨hj0, hjn, hjs, hjh, hjr⟩ := hg
    split at h
    · rename_i hd
      cases h
      exact
        { hinv with
          hphNone := by
            intro k
            have := hinv.hphNone k
            simp only [setAt] at *
            grind
          bcRelay := by
            intro s hs
            have := hinv.bcRelay s hs
            simp only [setAt, relayActive] at *
            grind
          hactiveBc := by
            intro k h0 hn
            have := hinv.hactiveBc k h0 hn
            simp only [setAt] at *
            grind
          hcreqActive := by
            intro k
            have := hinv.hcreqActive k
            simp only [setAt] at *
            grind
          relayIdle := by
            intro s hs h0
            have := hinv.relayIdle s hs h0
            simp only [setAt] at *
            grind
          didSdBegun := by
            intro s hs
            have := hinv.didSdBegun s hs
            simp only [setAt] at *
            grind }
    · rename_i hd
      cases h
      have hjj : j ∉ c.children j := not_self_child w j
      have hnl : (st.a.ph j).live = false := hinv.relayIdle j hjs hj0 (by simp [hjh])
      have hpcj : st.pcB j = .notBegun ∨ st.pcB j = .over := by
        by_cases h1 : st.pcB j = .notBegun
        · exact Or.inl h1
        · by_cases h2 : st.pcB j = .over
          · exact Or.inr h2
          · have := hinv.runPh j h1 h2; simp [this, Ph.live] at hnl
      have hq : ∀ k ∈ c.children j, (st.a.ph k).live = false := by
        intro k hk
        rcases hpcj with h1 | h1
        · have := hA.childIdle k (by have := mem_children.1 hk; omega) (mem_children.1 hk).1
            (by rw [(mem_children.1 hk).2.2]; exact (hinv.pcNotBegun j).1 h1)
          simp [this, Ph.live]
        · exact hinv.overQuiet j h1 k hk
      have hbn : st.bc j = .bnone := (hinv.bcNone j).2 (by simpa using hd)
      exact
        { hinv with
          hcallsLe := by
            intro k
            have := hinv.hcallsLe k
            have := hinv.hcallsDid k
            simp only [broadcast, setAt, mem_children] at *
            grind
          hcallsDid := by
            intro k h0 hn
            have := hinv.hcallsLe k
            have := hinv.hcallsDid k h0 hn
            simp only [broadcast, setAt, mem_children] at *
            grind
          hphNone := by
            intro k
            have := hinv.hphNone k
            simp only [broadcast, setAt, mem_children] at *
            grind
          bcNone := by
            intro s
            have := hinv.bcNone s
            simp only [broadcast, setAt, mem_children] at *
            grind
          bcInlineWait := by
            intro s
            have := hinv.bcInlineWait s
            simp only [broadcast, setAt, mem_children] at *
            grind
          bcInlineTidy := by
            intro s
            have := hinv.bcInlineTidy s
            simp only [broadcast, setAt, mem_children] at *
            grind
          bcRelay := by
            intro s hs
            have := hinv.bcRelay s
            simp only [broadcast, setAt, mem_children, relayActive] at *
            grind
          hactiveBc := by
            intro k h0 hn
            have := hinv.hactiveBc k h0 hn
            simp only [broadcast, setAt, mem_children] at *
            grind [Bc.isWait]
          hcreqActive := by
            intro k
            have := hinv.hcreqActive k
            simp only [broadcast, setAt, mem_children] at *
            grind
          overDid := by
            intro s hn hs ho
            have := hinv.overDid s hn hs ho
            simp only [broadcast, setAt, mem_children] at *
            grind
          sdQuiet := by
            intro s hs k hk
            have := hinv.sdQuiet s
            have := hq k
            simp only [broadcast, setAt] at *
            grind
          relayIdle := by
            intro s hs h0
            have := hinv.relayIdle s hs h0
            have := hq s
            simp only [broadcast, setAt] at *
            grind
          hdeadlineEq := by
            intro s
            have := hinv.hdeadlineEq s
            simp only [broadcast, setAt] at *
            grind [Bc.isWait]
          hdeadlineGe := by
            intro s dl
            have := hinv.hdeadlineGe s dl
            simp only [broadcast, setAt] at *
            cases hsd : c.sdTimeout j <;> grind [Bc.isWait]
          didSdLoop := by
            intro s
            have := hinv.didSdLoop s
            simp only [broadcast, setAt] at *
            grind
          didSdBegun := by
            intro s
            have := hinv.didSdBegun s
            simp only [broadcast, setAt] at *
            grind
          didSdRange := by
            intro s
            have := hinv.didSdRange s
            simp only [broadcast, setAt] at *
            grind
          hcallsRange := by
            intro k
            have := hinv.hcallsRange k
            simp only [broadcast, setAt, mem_children] at *
            grind }
  · cases h

theorem invB_hCancelAck (c : Cfg) (w : WF c) (st st' : StB) (j : Nat)
    (hA : InvA c st.a) (hinv : InvB c st) (h : stepB c st (.hCancelAck j) = some st') : InvB c st' := by
  simp only [stepB] at h
  split at h
  · rename_i hg
    obtain ⟨hj0, hjn, hjs, hjh, hjc⟩ := hg
    cases h
    exact
      { hinv with
        hphNone := by
          intro k
          have := hinv.hphNone k
          simp only [setAt] at *
          grind
        bcRelay := by
          intro s hs
          have := hinv.bcRelay s hs
          simp only [setAt, relayActive] at *
          grind
        hactiveBc := by
          intro k h0 hn
          have := hinv.hactiveBc k h0 hn
          simp only [setAt] at *
          grind
        hcreqActive := by
          intro k
          have := hinv.hcreqActive k
          simp only [setAt] at *
          grind
        relayIdle := by
          intro s hs h0
          have := hinv.relayIdle s hs h0
          simp only [setAt] at *
          grind
        didSdBegun := by
          intro s hs
          have := hinv.didSdBegun s hs
          simp only [setAt] at *
          grind }
  · cases h

theorem invB_hCancelArrive (c : Cfg) (w : WF c) (st st' : StB) (j : Nat)
    (hA : InvA c st.a) (hinv : InvB c st) (h : stepB c st (.hCancelArrive j) = some st') : InvB c st' := by
  simp only [stepB] at h
  split at h
  · rename_i hg
    obtain ⟨hj0, hjn, hjs, hjh, hjc, hja⟩ := hg
    split at h
    · rename_i hbc
      cases h
      exact
        { hinv with
          bcNone := by
            intro s
            have := hinv.bcNone s
            simp only [setAt] at *
            grind
          bcInlineWait := by
            intro s
            have := hinv.bcInlineWait s
            simp only [setAt] at *
            grind
          bcInlineTidy := by
            intro s
            have := hinv.bcInlineTidy s
            simp only [setAt] at *
            grind
          bcRelay := by
            intro s hs
            have := hinv.bcRelay s
            simp only [setAt, relayActive] at *
            grind
          hactiveBc := by
            intro k h0 hn
            have := hinv.hactiveBc k h0 hn
            simp only [setAt] at *
            grind [Bc.isWait, Bc.isTidy]
          hcreqActive := by
            intro k
            have := hinv.hcreqActive k
            simp only [setAt, Bool.or_eq_true, decide_eq_true_eq, mem_activeHandlers] at *
            grind
          hdeadlineEq := by
            intro s
            have := hinv.hdeadlineEq s
            simp only [setAt] at *
            grind [Bc.isWait]
          hdeadlineGe := by
            intro s dl
            have := hinv.hdeadlineGe s dl
            simp only [setAt] at *
            grind [Bc.isWait] }
    · cases h
      exact { hinv with }
    · cases h
  · cases h

theorem invB_sdTimeoutFire (c : Cfg) (w : WF c) (st st' : StB) (s : Nat)
    (hA : InvA c st.a) (hinv : InvB c st) (h : stepB c st (.sdTimeoutFire s) = some st') : InvB c st' := by
  simp only [stepB] at h
  split at h
  · rename_i hg
    obtain ⟨hw, hact, hexp, hcp, hhp⟩ := hg
    cases h
    -- the two cases: inline (pcB s = shut x) / relay
    have hcase : (st.bc s = .bwait .inline ∧ ∃ x, st.pcB s = .shut x) ∨
        (st.bc s = .bwait .relay ∧ ∀ x, st.pcB s ≠ .shut x) := by
      have := hinv.bcInlineWait s
      cases hb : st.bc s <;> simp [hb, Bc.isWait] at hw
      rename_i w'
      cases w' <;> grind
    rcases hcase with ⟨hb, x, hx⟩ | ⟨hb, hx⟩
    · simp only [hb, Bc.who, hx]
      exact
        { hinv with
          pcNotBegun := by
            intro s'
            have := hinv.pcNotBegun s'
            have := hinv.pcLoop s
            have := hinv.pcOver s
            simp only [setAt] at *
            grind
          pcLoop := by
            intro s'
            have := hinv.pcLoop s'
            have := hinv.pcNotBegun s
            have := hinv.pcOver s
            simp only [setAt] at *
            grind
          pcOver := by
            intro s'
            have := hinv.pcOver s'
            have := hinv.pcNotBegun s
            have := hinv.pcLoop s
            simp only [setAt] at *
            grind
          loopClean := by
            intro s' hs'
            have := hinv.loopClean s'
            simp only [setAt] at *
            grind
          count := by
            intro s' hs'
            have := hinv.count s'
            simp only [setAt, rxD] at *
            grind
          noCrit := by
            intro s' hs'
            have := hinv.noCrit s'
            simp only [setAt, rxD] at *
            grind
          exitCancelled := by
            intro s' hs'
            have := hinv.exitCancelled s'
            simp only [setAt] at *
            grind [PcB.exiting]
          shutQuiet := by
            intro s' x' hs'
            have := hinv.shutQuiet s' x'
            have := hinv.shutQuiet s x
            simp only [setAt] at *
            grind
          bcNone := by
            intro s'
            have := hinv.bcNone s'
            simp only [setAt] at *
            grind
          bcInlineWait := by
            intro s'
            have := hinv.bcInlineWait s'
            simp only [setAt] at *
            grind
          bcInlineTidy := by
            intro s'
            have := hinv.bcInlineTidy s'
            simp only [setAt] at *
            by_cases he : s' = s
            · simp [he]
            · simpa [he] using this
          bcRelay := by
            intro s' hs'
            have := hinv.bcRelay s'
            simp only [setAt, relayActive] at *
            grind
          hactiveBc := by
            intro k h0 hn
            have := hinv.hactiveBc k h0 hn
            simp only [setAt] at *
            grind [Bc.isWait, Bc.isTidy]
          hcreqActive := by
            intro k
            have := hinv.hcreqActive k
            simp only [setAt, Bool.or_eq_true, decide_eq_true_eq, mem_activeHandlers] at *
            grind
          overDid := by
            intro s' hn hs'
            have := hinv.overDid s' hn hs'
            simp only [setAt] at *
            grind
          deadlineEq := by
            intro s'
            have := hinv.deadlineEq s'
            simp only [setAt] at *
            grind
          deadlineGe := by
            intro s' dl
            have := hinv.deadlineGe s' dl
            simp only [setAt] at *
            grind
          hdeadlineEq := by
            intro s'
            have := hinv.hdeadlineEq s'
            simp only [setAt] at *
            grind [Bc.isWait]
          hdeadlineGe := by
            intro s' dl
            have := hinv.hdeadlineGe s' dl
            simp only [setAt] at *
            grind [Bc.isWait]
          diagClear := by
            intro s'
            have := hinv.diagClear s'
            simp only [setAt] at *
            grind [PcB.exitOf]
          failTSet := by
            intro s'
            have := hinv.failTSet s'
            simp only [setAt] at *
            grind [PcB.exitOf]
          failCSet := by
            intro s'
            have := hinv.failCSet s'
            simp only [setAt] at *
            grind [PcB.exitOf]
          carrivedCreq := by
            intro s'
            have := hinv.carrivedCreq s'
            simp only [setAt] at *
            grind
          didSdLoop := by
            intro s'
            have := hinv.didSdLoop s'
            simp only [setAt] at *
            grind
          didSdBegun := by
            intro s'
            have := hinv.didSdBegun s'
            simp only [setAt] at *
            grind
          pcRange := by
            intro s'
            have := hinv.pcRange s'
            simp only [setAt] at *
            grind
          runPh := by
            intro s'
            have := hinv.runPh s'
            simp only [setAt] at *
            grind
          cancelledArr := by
            intro s'
            have := hinv.cancelledArr s'
            simp only [setAt] at *
            grind [PcB.exitOf]
          carrivedCreq2 := by
            intro s'
            have := hinv.carrivedCreq2 s'
            simp only [setAt] at *
            grind
          overQuiet := by
            intro s'
            have := hinv.overQuiet s'
            simp only [setAt] at *
            grind }
    · have hpc : (match (st.bc s).who, st.pcB s with
          | .inline, .shut x => setAt st.pcB s (.shutTidy x)
          | _, _ => st.pcB) = st.pcB := by
        simp [hb, Bc.who]
      simp only [hpc, hb, Bc.who]
      exact
        { hinv with
          bcNone := by
            intro s'
            have := hinv.bcNone s'
            simp only [setAt] at *
            grind
          bcInlineWait := by
            intro s'
            have := hinv.bcInlineWait s'
            simp only [setAt] at *
            grind
          bcInlineTidy := by
            intro s'
            have := hinv.bcInlineTidy s'
            simp only [setAt] at *
            grind
          bcRelay := by
            intro s' hs'
            have := hinv.bcRelay s'
            simp only [setAt, relayActive] at *
            grind
          hactiveBc := by
            intro k h0 hn
            have := hinv.hactiveBc k h0 hn
            simp only [setAt] at *
            grind [Bc.isWait, Bc.isTidy]
          hcreqActive := by
            intro k
            have := hinv.hcreqActive k
            simp only [setAt, Bool.or_eq_true, decide_eq_true_eq, mem_activeHandlers] at *
            grind
          hdeadlineEq := by
            intro s'
            have := hinv.hdeadlineEq s'
            simp only [setAt] at *
            grind [Bc.isWait]
          hdeadlineGe := by
            intro s' dl
            have := hinv.hdeadlineGe s' dl
            simp only [setAt] at *
            grind [Bc.isWait] }
  · cases h

/-! ### the invariant holds in every reachable state -/

theorem invB_init (c : Cfg) : InvB c StB.init := by
  constructor <;> intros <;>
    simp_all [StB.init, StA.init, rxD, relayActive, PcB.exiting, PcB.exitOf, Bc.isWait, Bc.isTidy, Ph.live]

theorem invB_step (c : Cfg) (hwf : c.wf = true) (st st' : StB) (e : EvB)
    (hA : InvA c st.a) (hinv : InvB c st) (h : stepB c st e = some st') : InvB c st' := by
  have w := wf_of c hwf
  cases e with
  | runBegin => exact invB_runBegin c w st st' hA hinv h
  | grant j => exact invB_grant c w st st' j hA hinv h
  | bodyEnd j ok => exact invB_bodyEnd c w st st' j ok hA hinv h
  | cancelAck j => exact invB_cancelAck c w st st' j hA hinv h
  | cancelArrive s => exact invB_cancelArrive c w st st' s hA hinv h
  | waitReturn s => exact invB_waitReturn c w st st' s hA hinv h
  | react s => exact invB_react c w st st' s hA hinv h
  | orchFail s => exact invB_orchFail c w st st' s hA hinv h
  | timeoutFire s => exact invB_timeoutFire c w st st' s hA hinv h
  | tidyReturn s pick => exact invB_tidyReturn c w st st' s pick hA hinv h
  | hStep j => exact invB_hStep c w st st' j hA hinv h
  | hEnd j => exact invB_hEnd c w st st' j hA hinv h
  | hCancelAck j => exact invB_hCancelAck c w st st' j hA hinv h
  | hCancelArrive s => exact invB_hCancelArrive c w st st' s hA hinv h
  | sdWaitReturn s pick => exact invB_sdWaitReturn c w st st' s pick hA hinv h
  | sdTimeoutFire s => exact invB_sdTimeoutFire c w st st' s hA hinv h
  | sdTidyReturn s pick => exact invB_sdTidyReturn c w st st' s pick hA hinv h
  | tick d => exact invB_tick c w st st' d hA hinv h
  | extCancel => exact invB_extCancel c w st st' hA hinv h

/-- both invariants are carried along any accepted history -/
theorem inv_accept (c : Cfg) (hwf : c.wf = true) (evs : List EvB) (st0 st : StB)
    (hA : InvA c st0.a) (hB : InvB c st0) (h : acceptB c st0 evs = some st) : InvA c st.a ∧ InvB c st := by
  induction evs generalizing st0 with
  | nil => simp only [acceptB] at h; cases h; exact ⟨hA, hB⟩
  | cons e es ih =>
    simp only [acceptB] at h
    split at h
    · rename_i st1 hs
      have hB1 := invB_step c hwf st0 st1 e hA hB hs
      have hA1 : InvA c st1.a := by
        rcases stepB_refines c st0 st1 e hs with heq | ⟨ea, hea⟩
        · rw [heq]; exact hA
        · exact invA_step c hwf st0.a st1.a ea hA hea
      exact ih st1 hA1 hB1 h
    · cases h

theorem invB_reach (c : Cfg) (hwf : c.wf = true) (evs : List EvB) (st : StB)
    (h : acceptB c StB.init evs = some st) : InvB c st :=
  (inv_accept c hwf evs StB.init st (invA_init c) (invB_init c) h).2

/-! ### "the run of `s` times out" as a property of a history

  The exit reason is kept in the program counter only while the run cleans up (and a cancellation delivered during
  the clean-up overwrites it), so "the run of `s` left its main loop on expiry" is stated over the history: some
  prefix leads to a state where `co_run` of `s` is in the `_tidy_tasks` of `_abort_on_timeout`
  (`pcB s = .tidy .timeout`: a state entered only from `.loop`, by `timeoutFire s` or by a reaction that notices the
  expiry, see `ExitB.exit_reason`). -/

def timesOutFrom (c : Cfg) (s : Nat) (st0 : StB) (evs : List EvB) : Prop :=
  ∃ pre st1, pre <+: evs ∧ acceptB c st0 pre = some st1 ∧ st1.pcB s = .tidy .timeout

/-- the run of `s` leaves its main loop on expiry somewhere in the history `evs` -/
def timesOut (c : Cfg) (s : Nat) (evs : List EvB) : Prop := timesOutFrom c s StB.init evs

theorem timesOutFrom_nil (c : Cfg) (s : Nat) (st0 : StB) :
    timesOutFrom c s st0 [] ↔ st0.pcB s = .tidy .timeout := by
  constructor
  · rintro ⟨pre, st1, hp, ha, hx⟩
    have : pre = [] := List.prefix_nil.1 hp
    subst this
    simp only [acceptB] at ha; cases ha; exact hx
  · intro hx; exact ⟨[], st0, List.nil_prefix, rfl, hx⟩

theorem timesOutFrom_cons (c : Cfg) (s : Nat) (st0 st1 : StB) (e : EvB) (es : List EvB)
    (h : stepB c st0 e = some st1) :
    timesOutFrom c s st0 (e :: es) ↔ st0.pcB s = .tidy .timeout ∨ timesOutFrom c s st1 es := by
  constructor
  · rintro ⟨pre, st2, hp, ha, hx⟩
    cases pre with
    | nil => simp only [acceptB] at ha; cases ha; exact Or.inl hx
    | cons e' pre' =>
      obtain ⟨rfl, hp'⟩ := List.cons_prefix_cons.1 hp
      simp only [acceptB, h] at ha
      exact Or.inr ⟨pre', st2, hp', ha, hx⟩
  · rintro (hx | ⟨pre, st2, hp, ha, hx⟩)
    · exact ⟨[], st0, List.nil_prefix, rfl, hx⟩
    · exact ⟨e :: pre, st2, List.cons_prefix_cons.2 ⟨rfl, hp⟩, by simp only [acceptB, h]; exact ha, hx⟩

/-! ### "the run of `s` aborts on a critical failure" as a property of a history

  Mirror image of `timesOut`: some prefix of the history leads to a state where `co_run` of `s` is in the
  `_tidy_tasks` that follows the detection of a critical failure (`pcB s = .tidy .critical`: a state entered only
  from `.loop`, by a reaction that finds a critical job that raised, see `ExitB.exit_reason`). -/

def critOutFrom (c : Cfg) (s : Nat) (st0 : StB) (evs : List EvB) : Prop :=
  ∃ pre st1, pre <+: evs ∧ acceptB c st0 pre = some st1 ∧ st1.pcB s = .tidy .critical

/-- the run of `s` leaves its main loop by a critical failure somewhere in the history `evs` -/
def critOut (c : Cfg) (s : Nat) (evs : List EvB) : Prop := critOutFrom c s StB.init evs

theorem critOutFrom_nil (c : Cfg) (s : Nat) (st0 : StB) :
    critOutFrom c s st0 [] ↔ st0.pcB s = .tidy .critical := by
  constructor
  · rintro ⟨pre, st1, hp, ha, hx⟩
    have : pre = [] := List.prefix_nil.1 hp
    subst this
    simp only [acceptB] at ha; cases ha; exact hx
  · intro hx; exact ⟨[], st0, List.nil_prefix, rfl, hx⟩

theorem critOutFrom_cons (c : Cfg) (s : Nat) (st0 st1 : StB) (e : EvB) (es : List EvB)
    (h : stepB c st0 e = some st1) :
    critOutFrom c s st0 (e :: es) ↔ st0.pcB s = .tidy .critical ∨ critOutFrom c s st1 es := by
  constructor
  · rintro ⟨pre, st2, hp, ha, hx⟩
    cases pre with
    | nil => simp only [acceptB] at ha; cases ha; exact Or.inl hx
    | cons e' pre' =>
      obtain ⟨rfl, hp'⟩ := List.cons_prefix_cons.1 hp
      simp only [acceptB, h] at ha
      exact Or.inr ⟨pre', st2, hp', ha, hx⟩
  · rintro (hx | ⟨pre, st2, hp, ha, hx⟩)
    · exact ⟨[], st0, List.nil_prefix, rfl, hx⟩
    · exact ⟨e :: pre, st2, List.cons_prefix_cons.2 ⟨rfl, hp⟩, by simp only [acceptB, h]; exact ha, hx⟩

end AJ.Proofs.CoreB
