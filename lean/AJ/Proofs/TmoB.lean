/-
  Layer B: a timeout that does not fire has no effect (C08) — a history in which the run of scheduler `s` never
  leaves its main loop on expiry (neither by `timeoutFire s` nor by a reaction that notices the expiry) is accepted
  unchanged, and leads to the same state, by the configuration in which `s` has no timeout.
-/
import AJ.Proofs.CoreB
import AJ.Proofs.ExitB
namespace AJ.Proofs.TmoB
open AJ.Run AJ.Full AJ.Proofs.CoreB

/-- the same configuration, scheduler `s` having no timeout -/
def noTimeout (c : Cfg) (s : Nat) : Cfg := { c with timeout := fun k => if k = s then none else c.timeout k }

/-- the same state, forgetting the deadline armed for `s` -/
def eraseDl (s : Nat) (st : StB) : StB := { st with deadline := setAt st.deadline s none }

theorem stepA_noTimeout (c : Cfg) (s : Nat) (a : StA) (e : EvA) : stepA (noTimeout c s) a e = stepA c a e := by
  cases e <;> rfl

theorem quietB_erase (c : Cfg) (s : Nat) (st : StB) : quietB (noTimeout c s) (eraseDl s st) = quietB c st := rfl
theorem liveChildren_nt (c : Cfg) (s : Nat) (a : StA) (k : Nat) : liveChildren (noTimeout c s) a k = liveChildren c a k := rfl
theorem activeHandlers_nt (c : Cfg) (s : Nat) (st : StB) (k : Nat) :
    activeHandlers (noTimeout c s) (eraseDl s st) k = activeHandlers c st k := rfl
theorem verdict_nt (c : Cfg) (s : Nat) (st : StB) (k : Nat) (x : Exit) (pick : Nat) :
    verdict (noTimeout c s) (eraseDl s st) k x pick = verdict c st k x pick := by
  cases x <;> rfl
theorem broadcast_nt (c : Cfg) (s : Nat) (st : StB) (k : Nat) (w : Who) :
    broadcast (noTimeout c s) (eraseDl s st) k w = eraseDl s (broadcast c st k w) := rfl


theorem setAt_erase_comm (f : Nat → Option Nat) (s k : Nat) (v : Option Nat) :
    setAt (setAt f s none) k (if k = s then none else v) = setAt (setAt f k v) s none := by
  funext i
  simp only [setAt]
  by_cases h1 : i = k <;> by_cases h2 : i = s <;> simp [h1, h2]
  intro h h'; exact absurd h.symm h'

theorem beginB_nt (c : Cfg) (s : Nat) (st : StB) (k : Nat) (a' : StA) :
    beginB (noTimeout c s) (eraseDl s st) k a' = eraseDl s (beginB c st k a') := by
  unfold beginB
  rw [show (noTimeout c s).children k = c.children k from rfl]
  split
  · rfl
  · simp only [eraseDl]
    have := setAt_erase_comm st.deadline s k ((c.timeout k).map (st.a.now + ·))
    rw [← this]
    congr 2
    simp only [noTimeout]
    split <;> simp_all

theorem exitLoop_nt (c : Cfg) (s : Nat) (st : StB) (k : Nat) (x : Exit) (a' : StA) :
    exitLoop (noTimeout c s) (eraseDl s st) k x a' = eraseDl s (exitLoop c st k x a') := by
  simp only [exitLoop, eraseDl]
  have := setAt_erase_comm st.deadline s k none
  simp only [ite_self] at this
  rw [this]

theorem finishRun_nt (c : Cfg) (s : Nat) (st : StB) (k : Nat) (x : Exit) (pick : Nat) :
    finishRun (noTimeout c s) (eraseDl s st) k x pick = (finishRun c st k x pick).map (eraseDl s) := by
  unfold finishRun
  rw [verdict_nt]
  split
  · rfl
  · rw [show (eraseDl s st).a = st.a from rfl, stepA_noTimeout]
    split <;> rfl


theorem eraseDl_a (s : Nat) (st : StB) : (eraseDl s st).a = st.a := rfl
theorem eraseDl_pcB (s : Nat) (st : StB) : (eraseDl s st).pcB = st.pcB := rfl
theorem eraseDl_nbDone (s : Nat) (st : StB) : (eraseDl s st).nbDone = st.nbDone := rfl
theorem eraseDl_carrived (s : Nat) (st : StB) : (eraseDl s st).carrived = st.carrived := rfl
theorem eraseDl_didSd (s : Nat) (st : StB) : (eraseDl s st).didSd = st.didSd := rfl
theorem eraseDl_bc (s : Nat) (st : StB) : (eraseDl s st).bc = st.bc := rfl
theorem eraseDl_hdeadline (s : Nat) (st : StB) : (eraseDl s st).hdeadline = st.hdeadline := rfl
theorem eraseDl_hph (s : Nat) (st : StB) : (eraseDl s st).hph = st.hph := rfl
theorem eraseDl_hcreq (s : Nat) (st : StB) : (eraseDl s st).hcreq = st.hcreq := rfl
theorem eraseDl_hcarrived (s : Nat) (st : StB) : (eraseDl s st).hcarrived = st.hcarrived := rfl
theorem eraseDl_hcalls (s : Nat) (st : StB) : (eraseDl s st).hcalls = st.hcalls := rfl
theorem eraseDl_failT (s : Nat) (st : StB) : (eraseDl s st).failT = st.failT := rfl
theorem eraseDl_failC (s : Nat) (st : StB) : (eraseDl s st).failC = st.failC := rfl
theorem eraseDl_sdValue (s : Nat) (st : StB) : (eraseDl s st).sdValue = st.sdValue := rfl
theorem eraseDl_tbegin (s : Nat) (st : StB) : (eraseDl s st).tbegin = st.tbegin := rfl
theorem eraseDl_tsd (s : Nat) (st : StB) : (eraseDl s st).tsd = st.tsd := rfl
theorem eraseDl_deadline (s : Nat) (st : StB) : (eraseDl s st).deadline = setAt st.deadline s none := rfl
theorem noTimeout_n (c : Cfg) (s : Nat) : (noTimeout c s).n = c.n := rfl
theorem noTimeout_parent (c : Cfg) (s : Nat) : (noTimeout c s).parent = c.parent := rfl
theorem noTimeout_isSched (c : Cfg) (s : Nat) : (noTimeout c s).isSched = c.isSched := rfl
theorem noTimeout_req (c : Cfg) (s : Nat) : (noTimeout c s).req = c.req := rfl
theorem noTimeout_critical (c : Cfg) (s : Nat) : (noTimeout c s).critical = c.critical := rfl
theorem noTimeout_forever (c : Cfg) (s : Nat) : (noTimeout c s).forever = c.forever := rfl
theorem noTimeout_window (c : Cfg) (s : Nat) : (noTimeout c s).window = c.window := rfl
theorem noTimeout_sdTimeout (c : Cfg) (s : Nat) : (noTimeout c s).sdTimeout = c.sdTimeout := rfl
theorem noTimeout_topPure (c : Cfg) (s : Nat) : (noTimeout c s).topPure = c.topPure := rfl
theorem cancelPending_nt (s : Nat) (st : StB) (k : Nat) : cancelPending (eraseDl s st) k = cancelPending st k := rfl
theorem hcancelPending_nt (s : Nat) (st : StB) (k : Nat) : hcancelPending (eraseDl s st) k = hcancelPending st k := rfl
theorem relayActive_nt (s : Nat) (st : StB) (k : Nat) : relayActive (eraseDl s st) k = relayActive st k := rfl
theorem doneSet_nt (c : Cfg) (s : Nat) (a : StA) (k : Nat) : doneSet (noTimeout c s) a k = doneSet c a k := rfl
theorem critIn_nt (c : Cfg) (s : Nat) (a : StA) (D : List Nat) : critIn (noTimeout c s) a D = critIn c a D := rfl
theorem nbFinite_nt (c : Cfg) (s : Nat) (k : Nat) : nbFinite (noTimeout c s) k = nbFinite c k := rfl
theorem children_nt (c : Cfg) (s : Nat) (k : Nat) : (noTimeout c s).children k = c.children k := rfl

macro "nt_norm" : tactic => `(tactic| simp only [stepB, eraseDl_a, eraseDl_pcB, eraseDl_nbDone, eraseDl_carrived, eraseDl_didSd, eraseDl_bc, eraseDl_hdeadline, eraseDl_hph, eraseDl_hcreq, eraseDl_hcarrived, eraseDl_hcalls, eraseDl_failT, eraseDl_failC, eraseDl_sdValue, eraseDl_tbegin, eraseDl_tsd, noTimeout_n, noTimeout_parent, noTimeout_isSched, noTimeout_req, noTimeout_critical, noTimeout_forever, noTimeout_window, noTimeout_sdTimeout, noTimeout_topPure, cancelPending_nt, hcancelPending_nt, relayActive_nt, doneSet_nt, critIn_nt, nbFinite_nt, children_nt, liveChildren_nt, activeHandlers_nt, quietB_erase, stepA_noTimeout])
macro "nt_norm_at" h:ident : tactic => `(tactic| simp only [stepB] at $h:ident)

theorem expired_erase_ne (s k : Nat) (st : StB) (now : Nat) (hk : k ≠ s) :
    expired ((eraseDl s st).deadline k) now = expired (st.deadline k) now := by
  rw [eraseDl_deadline]; simp [setAt, hk]

theorem expired_erase_self (s : Nat) (st : StB) (now : Nat) :
    expired ((eraseDl s st).deadline s) now = false := by
  rw [eraseDl_deadline]; simp [setAt, expired]

/-- a step that does not take the run of `s` out of its loop on expiry is a step of the configuration without the
    timeout of `s` -/
theorem step_sim (c : Cfg) (s : Nat) (st st' : StB) (e : EvB) (h : stepB c st e = some st')
    (hne : st'.pcB s ≠ .tidy .timeout) : stepB (noTimeout c s) (eraseDl s st) e = some (eraseDl s st') := by
  cases e
  case runBegin =>
    nt_norm; nt_norm_at h
    split at h
    · cases h
    · cases h; exact congrArg some (beginB_nt ..)
  case grant j =>
    nt_norm; nt_norm_at h
    split at h
    · cases h
    · split at h
      · rename_i hc; refine (if_pos hc).trans ?_; cases h; exact congrArg some (beginB_nt ..)
      · rename_i hc; refine (if_neg hc).trans ?_; cases h; rfl
  case bodyEnd j ok =>
    nt_norm; nt_norm_at h
    split at h
    · cases h
    · cases h; rfl
  case extCancel =>
    nt_norm; nt_norm_at h
    split at h
    · cases h
    · cases h; rfl
  case cancelAck j =>
    nt_norm; nt_norm_at h
    split at h
    · cases h
    · cases h; rfl
  case cancelArrive k =>
    nt_norm; nt_norm_at h
    split at h
    · rename_i hc; refine (if_pos hc).trans ?_
      split at h
      · split at h
        · cases h
        · cases h; exact congrArg some (exitLoop_nt c s { st with carrived := setAt st.carrived k true } k .cancelled _)
      · cases h; rfl
      · cases h; rfl
      · cases h; rfl
      · cases h
    · cases h
  case waitReturn k =>
    nt_norm; nt_norm_at h
    split at h
    · rename_i hc; refine (if_pos hc).trans ?_
      split at h
      · cases h
      · cases h; rfl
    · cases h
  case react k =>
    nt_norm; nt_norm_at h
    split at h
    · split at h
      · cases h
      · rename_i hc; refine (if_neg hc).trans ?_
        split at h
        · rename_i hc; refine (if_pos hc).trans ?_
          split at h
          · cases h
          · cases h; exact congrArg some (exitLoop_nt ..)
        · rename_i hc; refine (if_neg hc).trans ?_
          split at h
          · rename_i hc; refine (if_pos hc).trans ?_
            split at h
            · cases h
            · cases h; exact congrArg some (exitLoop_nt c s { st with nbDone := setAt st.nbDone k _ } k .success _)
          · rename_i hc; refine (if_neg hc).trans ?_
            split at h
            · -- the expiry is noticed: not by `s` (hypothesis), and the other deadlines are the same
              rename_i hx
              have hks : k ≠ s := by
                intro hk
                subst hk
                split at h
                · cases h
                · cases h; exact hne (by simp [exitLoop, setAt])
              rw [expired_erase_ne s k st _ hks]
              refine (if_pos hx).trans ?_
              split at h
              · cases h
              · cases h; exact congrArg some (exitLoop_nt c s { st with nbDone := setAt st.nbDone k _ } k .timeout _)
            · rename_i hx
              have hx' : ¬ expired ((eraseDl s st).deadline k) st.a.now = true := by
                by_cases hk : k = s
                · subst hk; rw [expired_erase_self]; simp
                · rw [expired_erase_ne s k st _ hk]; exact hx
              refine (if_neg hx').trans ?_
              split at h
              · cases h
              · cases h; rfl
    · cases h
  case orchFail k =>
    nt_norm; nt_norm_at h
    split at h
    · split at h
      · cases h
      · rename_i hc; refine (if_neg hc).trans ?_
        split at h
        · cases h
        · cases h; exact congrArg some (exitLoop_nt ..)
    · cases h
  case timeoutFire k =>
    have hks : k ≠ s := by
      intro hk
      subst hk
      nt_norm_at h
      split at h
      · split at h
        · cases h
        · cases h; exact hne (by simp [exitLoop, setAt])
      · cases h
    nt_norm; nt_norm_at h
    rw [eraseDl_deadline, show setAt st.deadline s none k = st.deadline k from by simp [setAt, hks]]
    split at h
    · rename_i hc; refine (if_pos hc).trans ?_
      split at h
      · cases h
      · cases h; exact congrArg some (exitLoop_nt ..)
    · cases h
  case tidyReturn k pick =>
    nt_norm; nt_norm_at h
    split at h
    · rename_i x _
      split at h
      · rename_i hc; refine (if_pos hc).trans ?_
        split at h
        · rename_i hc; refine (if_pos hc).trans ?_
          have := finishRun_nt c s { st with sdValue := setAt st.sdValue k none } k x pick
          rw [h] at this
          exact this
        · rename_i hc; refine (if_neg hc).trans ?_
          cases h; rfl
      · cases h
    · cases h
  case hStep j =>
    nt_norm; nt_norm_at h
    split at h
    · rename_i hc; refine (if_pos hc).trans ?_
      split at h
      · rename_i hc; refine (if_pos hc).trans ?_
        cases h; rfl
      · rename_i hc; refine (if_neg hc).trans ?_
        cases h; rfl
    · cases h
  case hEnd j =>
    nt_norm; nt_norm_at h
    split at h
    · rename_i hc; refine (if_pos hc).trans ?_
      cases h; rfl
    · cases h
  case hCancelAck j =>
    nt_norm; nt_norm_at h
    split at h
    · rename_i hc; refine (if_pos hc).trans ?_
      cases h; rfl
    · cases h
  case hCancelArrive k =>
    nt_norm; nt_norm_at h
    split at h
    · rename_i hc; refine (if_pos hc).trans ?_
      split at h
      · cases h; rfl
      · cases h; rfl
      · cases h
    · cases h
  case sdWaitReturn k pick =>
    nt_norm; nt_norm_at h
    split at h
    · rename_i hc; refine (if_pos hc).trans ?_
      split at h
      · split at h
        · rename_i x _
          have := finishRun_nt c s { st with bc := setAt st.bc k .bover, sdValue := setAt st.sdValue k (some true) } k x pick
          rw [h] at this
          exact this
        · cases h
      · cases h; rfl
      · cases h
    · cases h
  case sdTimeoutFire k =>
    nt_norm; nt_norm_at h
    split at h
    · rename_i hc; refine (if_pos hc).trans ?_
      cases h; rfl
    · cases h
  case sdTidyReturn k pick =>
    nt_norm; nt_norm_at h
    split at h
    · rename_i hc; refine (if_pos hc).trans ?_
      split at h
      · split at h
        · rename_i x _
          have := finishRun_nt c s { st with bc := setAt st.bc k .bover, sdValue := setAt st.sdValue k (some false) } k x pick
          rw [h] at this
          exact this
        · cases h
      · cases h; rfl
      · cases h
    · cases h
  case tick d =>
    nt_norm; nt_norm_at h
    split at h
    · rename_i hc
      have hc' : quietB c st = true ∧
          (∀ k ∈ List.range c.n, st.pcB k = .loop → within ((eraseDl s st).deadline k) st.a.now d = true) ∧
          (∀ k ∈ List.range c.n, (st.bc k).isWait = true → within (st.hdeadline k) st.a.now d = true) := by
        refine ⟨hc.1, ?_, hc.2.2⟩
        intro k hk hl
        have := hc.2.1 k hk hl
        rw [eraseDl_deadline]
        simp only [setAt]
        split
        · rfl
        · exact this
      refine (if_pos hc').trans ?_
      split at h
      · cases h
      · cases h; rfl
    · cases h


theorem eraseDl_init (s : Nat) : eraseDl s StB.init = StB.init := by
  simp only [eraseDl, StB.init]
  congr 1
  funext k
  simp [setAt]

theorem eraseDl_idem (s : Nat) (st : StB) : eraseDl s (eraseDl s st) = eraseDl s st := by
  simp only [eraseDl]
  congr 1
  funext k
  simp only [setAt]
  split <;> rfl

theorem accept_sim (c : Cfg) (s : Nat) : ∀ (evs : List EvB) (st st' : StB),
    acceptB c st evs = some st' → ¬ timesOutFrom c s st evs →
    acceptB (noTimeout c s) (eraseDl s st) evs = some (eraseDl s st')
  | [], st, st', h, _ => by
    simp only [acceptB] at h ⊢
    cases h; rfl
  | e :: es, st, st', h, hno => by
    simp only [acceptB] at h ⊢
    split at h
    · rename_i st1 h1
      rw [timesOutFrom_cons c s st st1 e es h1] at hno
      have hne : st1.pcB s ≠ .tidy .timeout := fun hx => hno (Or.inr ⟨[], st1, List.nil_prefix, rfl, hx⟩)
      rw [step_sim c s st st1 e h1 hne]
      exact accept_sim c s es st1 st' h (fun hm => hno (Or.inr hm))
    · cases h

/-- C08: if the run of `s` never leaves its main loop on expiry in a history (`timesOut`: no prefix of the history
    leads to a state where `co_run` of `s` is in the clean-up of `_abort_on_timeout`), the run is exactly the run
    without that timeout: the same events are accepted — in particular time passes in the same way — and the states
    agree (up to the armed deadline).  (As first stated the hypothesis was `EvB.timeoutFire s ∉ evs`: no longer
    enough, since a reaction of `s` that notices the expiry leaves the loop as well.) -/
theorem timeout_silent (c : Cfg) (s : Nat) (evs : List EvB) (st : StB)
    (h : acceptB c StB.init evs = some st) (hno : ¬ timesOut c s evs) :
    ∃ st', acceptB (noTimeout c s) StB.init evs = some st' ∧ eraseDl s st' = eraseDl s st := by
  refine ⟨eraseDl s st, ?_, eraseDl_idem s st⟩
  have := accept_sim c s evs StB.init st h hno
  rwa [eraseDl_init] at this

/-- C08: the same, read off the diagnosis: a run of `s` that does not report `failed_time_out()` in the end is
    exactly the run without the timeout of `s` (`ExitB.failT_iff_timesOut`) -/
theorem timeout_silent_diag (c : Cfg) (hwf : c.wf = true) (s : Nat) (evs : List EvB) (st : StB)
    (h : acceptB c StB.init evs = some st) (hf : st.failT s = false) :
    ∃ st', acceptB (noTimeout c s) StB.init evs = some st' ∧ eraseDl s st' = eraseDl s st := by
  apply timeout_silent c s evs st h
  intro ht
  have := (ExitB.failT_iff_timesOut c hwf evs st h s).2 ht
  simp [hf] at this

/-- C08: the expiry event is the only one that reads the deadline of `s` to make a decision: it is accepted only once
    `begin + T` has been reached -/
theorem timeoutFire_needs_expiry (c : Cfg) (st st' : StB) (s : Nat) (h : stepB c st (.timeoutFire s) = some st') :
    ∃ dl, st.deadline s = some dl ∧ dl ≤ st.a.now := by
  simp only [stepB] at h
  split at h
  · rename_i hc
    have hx := hc.2.2.2.2
    cases hd : st.deadline s with
    | none => rw [hd] at hx; simp [expired] at hx
    | some dl =>
      rw [hd] at hx
      exact ⟨dl, rfl, by simpa [expired] using hx⟩
  · cases h

/-- C08: … and so does the reaction that notices the expiry: a `react s` step that takes the timeout exit happens
    at an instant where `begin + T` has been reached (the expiry test is the only other place where the deadline of
    `s` is read) -/
theorem react_timeout_needs_expiry (c : Cfg) (st st' : StB) (s : Nat) (h : stepB c st (.react s) = some st')
    (hx : st'.pcB s = .tidy .timeout) :
    ∃ dl, st.deadline s = some dl ∧ dl ≤ st.a.now := by
  have hexp : expired (st.deadline s) st.a.now = true := by
    simp only [stepB] at h
    split at h
    · split at h
      · cases h
      · (repeat' split at h)
        all_goals first
          | (cases h; done)
          | (cases h; simp [exitLoop, setAt] at hx; done)
          | (cases h; rw [‹st.pcB s = PcB.loop›] at hx; cases hx; done)
          | assumption
    · cases h
  cases hd : st.deadline s with
  | none => rw [hd] at hexp; simp [expired] at hexp
  | some dl =>
    rw [hd] at hexp
    exact ⟨dl, rfl, by simpa [expired] using hexp⟩

end AJ.Proofs.TmoB
