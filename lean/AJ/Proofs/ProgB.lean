/-
  Layer B: progress (C03) — failures and windows never wedge a run: whenever something must happen "now" some
  event other than the passing of time is enabled, and whenever time may pass with the top-level run unfinished,
  something that takes finite time is in flight (a job body, a shutdown handler) or a deadline is armed.
-/
import AJ.Proofs.CoreB
import AJ.Proofs.ProgBInv
namespace AJ.Proofs.ProgB
open AJ.Run AJ.Full AJ.Proofs.CoreA AJ.Proofs.CoreB
set_option linter.unusedVariables false
set_option linter.unusedSimpArgs false

structure QuietAt (c : Cfg) (st : StB) (j : Nat) : Prop where
  q1 : ¬ (0 < j ∧ st.a.ph j = .queued ∧ (st.a.creq j = true ∨ slotFree c st.a (c.parent j) = true))
  q2 : ¬ (c.isSched j = true ∧ st.a.ph j = .running ∧ st.a.creq j = true ∧ st.carrived j = false)
  q3 : ¬ (c.isSched j = true ∧ st.pcB j = .loop ∧ (doneSet c st.a j ≠ [] ∨ st.a.rx j ≠ none))
  q4 : ¬ (c.isSched j = true ∧ (st.pcB j).isTidy = true ∧ liveChildren c st.a j = [])
  q5 : ¬ (c.isSched j = true ∧ st.hph j = .hactive ∧ relayActive st j = false)
  q6 : ¬ (c.isSched j = true ∧ st.hph j = .hactive ∧ st.hcreq j = true ∧ st.hcarrived j = false)
  q7 : ¬ (c.isSched j = true ∧ ((st.bc j).isWait = true ∨ (st.bc j).isTidy = true) ∧ activeHandlers c st j = [])

theorem isSome_false {α : Type} {o : Option α} : o.isSome = false ↔ o = none := by cases o <;> simp
theorem isEmpty_false {α : Type} {l : List α} : l.isEmpty = false ↔ l ≠ [] := by cases l <;> simp

theorem quietB_iff (c : Cfg) (st : StB) : quietB c st = true ↔ ∀ j, j < c.n → QuietAt c st j := by
  unfold quietB
  simp only [List.all_eq_true, List.mem_range]
  constructor
  · intro h j hj
    have := h j hj
    simp only [Bool.and_eq_true, Bool.not_eq_true', Bool.or_eq_true, beq_iff_eq, decide_eq_true_eq,
      List.isEmpty_iff, Option.isSome_iff_ne_none, Bool.and_eq_false_iff, Bool.not_eq_false', Bool.or_eq_false_iff,
      decide_eq_false_iff_not, beq_eq_false_iff_ne, isSome_false, isEmpty_false] at this
    constructor <;> grind
  · intro h j hj
    have := h j hj
    obtain ⟨q1, q2, q3, q4, q5, q6, q7⟩ := this
    simp only [Bool.and_eq_true, Bool.not_eq_true', Bool.or_eq_true, beq_iff_eq, decide_eq_true_eq,
      List.isEmpty_iff, Option.isSome_iff_ne_none, Bool.and_eq_false_iff, Bool.not_eq_false', Bool.or_eq_false_iff,
      decide_eq_false_iff_not, beq_eq_false_iff_ne, isSome_false, isEmpty_false]
    grind

theorem quietB_false (c : Cfg) (st : StB) (h : quietB c st = false) : ∃ j, j < c.n ∧ ¬ QuietAt c st j := by
  apply Classical.byContradiction
  intro hn
  have : quietB c st = true := (quietB_iff c st).2 (fun j hj => Classical.byContradiction fun hq => hn ⟨j, hj, hq⟩)
  rw [h] at this; cases this

/-! ### layer-A guards -/

theorem enA_finish {c : Cfg} {a : StA} {s : Nat} (r : Option Res) (hsn : s < c.n) (hss : c.isSched s = true)
    (hpc : a.pc s = .exiting) (hph : a.ph s = .running) : ∃ a', stepA c a (.finish s r) = some a' := by
  simp only [stepA]
  rw [if_pos ⟨hsn, hss, hpc, hph⟩]
  exact ⟨_, rfl⟩

theorem enA_leave {c : Cfg} {a : StA} {s : Nat} (hsn : s < c.n) (hss : c.isSched s = true)
    (hpc : a.pc s = .loop) : ∃ a', stepA c a (.leave s (liveChildren c a s)) = some a' := by
  simp only [stepA]
  rw [if_pos ⟨hsn, hss, hpc, fun k hk => mem_liveChildren.1 hk⟩]
  exact ⟨_, rfl⟩

theorem enA_react_leave {c : Cfg} {a : StA} {s : Nat} {D : List Nat} (hsn : s < c.n) (hss : c.isSched s = true)
    (hpc : a.pc s = .loop) (hrx : a.rx s = some D) : ∃ a', stepA c a (.react s true (liveChildren c a s)) = some a' := by
  simp only [stepA, hrx]
  rw [if_pos ⟨hsn, hss, hpc, Or.inl trivial, fun k hk => mem_liveChildren.1 hk⟩]
  exact ⟨_, rfl⟩

theorem enA_react_go {c : Cfg} {a : StA} {s : Nat} {D : List Nat} (hsn : s < c.n) (hss : c.isSched s = true)
    (hpc : a.pc s = .loop) (hrx : a.rx s = some D) : ∃ a', stepA c a (.react s false []) = some a' := by
  simp only [stepA, hrx]
  rw [if_pos ⟨hsn, hss, hpc, Or.inr trivial, fun k hk => by cases hk⟩]
  exact ⟨_, rfl⟩

theorem enA_waitReturn {c : Cfg} {a : StA} {s : Nat} (hsn : s < c.n) (hss : c.isSched s = true)
    (hpc : a.pc s = .loop) (hrx : a.rx s = none) (hD : doneSet c a s ≠ []) : ∃ a', stepA c a (.waitReturn s) = some a' := by
  simp only [stepA]
  rw [if_pos ⟨hsn, hss, hpc, hrx, hD⟩]
  exact ⟨_, rfl⟩

theorem enA_grant {c : Cfg} {a : StA} {j : Nat} (hj0 : 0 < j) (hjn : j < c.n) (hq : a.ph j = .queued)
    (hc : a.creq j = false) (hf : slotFree c a (c.parent j) = true) : ∃ a', stepA c a (.grant j) = some a' := by
  simp only [stepA]
  rw [if_pos ⟨hj0, hjn, hq, hc, hf⟩]
  split <;> exact ⟨_, rfl⟩

theorem enA_cancelAck {c : Cfg} {a : StA} {j : Nat} (hj0 : 0 < j) (hjn : j < c.n) (hq : a.ph j = .queued)
    (hc : a.creq j = true) : ∃ a', stepA c a (.cancelAck j) = some a' := by
  simp only [stepA]
  rw [if_pos ⟨hj0, hjn, hc, Or.inl hq⟩]
  exact ⟨_, rfl⟩


/-! ### facts derived from the invariants -/

theorem hph_zero {c : Cfg} {st : StB} (hB : InvB c st) : st.hph 0 = .hnone := by
  apply (hB.hphNone 0).2
  apply Classical.byContradiction
  intro h
  have := (hB.hcallsRange 0 h).1
  omega

theorem pc_exiting {c : Cfg} {st : StB} (hB : InvB c st) {s : Nat} (h : (st.pcB s).exiting = true) :
    st.a.pc s = .exiting := by
  have h1 := hB.pcNotBegun s
  have h2 := hB.pcLoop s
  have h3 := hB.pcOver s
  cases hp : st.a.pc s <;> cases hq : st.pcB s <;> simp_all [PcB.exiting]

/-- no cancellation of a relay is pending on a scheduler that is running its own `co_run` -/
theorem hcp_running {c : Cfg} {st : StB} (hB : InvB c st) {s : Nat}
    (h1 : st.pcB s ≠ .notBegun) (h2 : st.pcB s ≠ .over) : hcancelPending st s = false := by
  cases hc : st.hcreq s
  · simp [hcancelPending, hc]
  · exfalso
    have hrun := hB.runPh s h1 h2
    have hss := (hB.pcRange s h1).2
    have hne : st.hph s ≠ .hnone := by
      rcases hB.hcreqActive s hc with h | ⟨_, h, _⟩ <;> simp [h]
    by_cases hs0 : s = 0
    · subst hs0; exact hne (hph_zero hB)
    · have := hB.relayIdle s hss (by omega) hne
      simp [hrun, Ph.live] at this

/-- no cancellation of its run is pending on a scheduler whose `co_shutdown` was relayed -/
theorem cp_relay {c : Cfg} {st : StB} (hA : InvA c st.a) (hB : InvB c st) {s : Nat}
    (h : st.hph s ≠ .hnone) (hss : c.isSched s = true) : cancelPending st s = false := by
  cases hc : st.a.creq s
  · simp [cancelPending, hc]
  · exfalso
    have hl := hA.creqLive s hc
    by_cases hs0 : s = 0
    · subst hs0; exact h (hph_zero hB)
    · have := hB.relayIdle s hss (by omega) h
      rw [hl] at this; cases this

/-! ### layer-B enabledness -/

theorem en_finishRun (c : Cfg) (st : StB) (s : Nat) (x : Exit) (hsn : s < c.n) (hss : c.isSched s = true)
    (hpc : st.a.pc s = .exiting) (hph : st.a.ph s = .running)
    (hcrit : x = .critical → ∃ k ∈ c.children s, c.critical k = true ∧ ∃ ex, st.a.ph k = .done (.exc ex)) :
    ∃ pick st', finishRun c st s x pick = some st' := by
  have hv : ∃ pick r, verdict c st s x pick = some r := by
    cases x with
    | success => exact ⟨0, _, rfl⟩
    | cancelled => exact ⟨0, _, rfl⟩
    | crashed => exact ⟨0, _, rfl⟩
    | timeout =>
      refine ⟨0, ?_⟩
      simp only [verdict]
      split <;> exact ⟨_, rfl⟩
    | critical =>
      obtain ⟨k, hk, hck, ex, hex⟩ := hcrit rfl
      refine ⟨k, ?_⟩
      simp only [verdict]
      split
      · rw [if_pos ⟨hk, hck⟩, hex]; exact ⟨_, rfl⟩
      · exact ⟨_, rfl⟩
  obtain ⟨pick, r, hr⟩ := hv
  obtain ⟨a', ha⟩ := enA_finish (c := c) (a := st.a) r hsn hss hpc hph
  refine ⟨pick, ?_⟩
  unfold finishRun
  rw [hr]
  simp only [ha]
  exact ⟨_, rfl⟩

theorem en_cancelArrive {c : Cfg} {st : StB} (hB : InvB c st) (hP : InvP c st) {s : Nat}
    (hsn : s < c.n) (hss : c.isSched s = true) (hrun : st.a.ph s = .running) (hcp : cancelPending st s = true) :
    ∃ st', stepB c st (.cancelArrive s) = some st' := by
  simp only [cancelPending, Bool.and_eq_true, Bool.not_eq_true'] at hcp
  obtain ⟨hcr, hca⟩ := hcp
  obtain ⟨hnb, hno⟩ := hP.runPc s hss hrun
  simp only [stepB]
  rw [if_pos ⟨hsn, hss, hrun, hcr, hca⟩]
  split
  · rename_i hl
    obtain ⟨a', ha⟩ := enA_leave (c := c) (a := st.a) hsn hss ((hB.pcLoop s).1 hl)
    simp only [ha]
    exact ⟨_, rfl⟩
  · exact ⟨_, rfl⟩
  · exact ⟨_, rfl⟩
  · exact ⟨_, rfl⟩
  · rename_i h1 h2 h3 h4
    cases hp : st.pcB s with
    | notBegun => exact absurd hp hnb
    | over => exact absurd hp hno
    | loop => exact absurd hp h1
    | tidy x => exact absurd hp (h2 x)
    | shut x => exact absurd hp (h3 x)
    | shutTidy x => exact absurd hp (h4 x)


theorem not_tick_of {e : EvB} (h : match e with | .tick _ => False | _ => True) : ∀ d, e ≠ .tick d := by
  intro d hd; subst hd; exact h

/-- an event of the run itself: neither the passing of time nor the cancellation of the top-level task from outside
    (the two things the run cannot count on: time may not pass while something urgent is pending, and nobody is
    obliged to cancel the run) -/
def internalEv : EvB → Prop
  | .tick _ => False
  | .extCancel => False
  | _ => True

theorem internalEv.not_tick {e : EvB} (h : internalEv e) : ∀ d, e ≠ .tick d := by
  intro d hd; subst hd; exact h

theorem internalEv.not_ext {e : EvB} (h : internalEv e) : e ≠ .extCancel := by
  intro hd; subst hd; exact h

/-- (3) a main wait that can return, a reaction that is pending -/
theorem en_loop {c : Cfg} {st : StB} (hB : InvB c st) (hP : InvP c st) {s : Nat}
    (hsn : s < c.n) (hss : c.isSched s = true) (hl : st.pcB s = .loop)
    (hu : doneSet c st.a s ≠ [] ∨ st.a.rx s ≠ none) :
    ∃ e st', internalEv e ∧ stepB c st e = some st' := by
  have hrun := hB.runPh s (by simp [hl]) (by simp [hl])
  have hpc := (hB.pcLoop s).1 hl
  by_cases hcp : cancelPending st s = true
  · obtain ⟨st', h⟩ := en_cancelArrive hB hP hsn hss hrun hcp
    exact ⟨.cancelArrive s, st', trivial, h⟩
  · cases hrx : st.a.rx s with
    | none =>
      have hD : doneSet c st.a s ≠ [] := by
        rcases hu with h | h
        · exact h
        · exact absurd hrx h
      obtain ⟨a', ha⟩ := enA_waitReturn hsn hss hpc hrx hD
      have : ∃ st', stepB c st (.waitReturn s) = some st' := by
        simp only [stepB]
        rw [if_pos ⟨hl, by simpa using hcp⟩]
        simp only [ha]
        exact ⟨_, rfl⟩
      obtain ⟨st', h⟩ := this
      exact ⟨.waitReturn s, st', trivial, h⟩
    | some D =>
      obtain ⟨a1, ha1⟩ := enA_react_leave hsn hss hpc hrx
      obtain ⟨a2, ha2⟩ := enA_react_go hsn hss hpc hrx
      have : ∃ st', stepB c st (.react s) = some st' := by
        simp only [stepB, hl, hrx]
        rw [if_neg hcp]
        split
        · simp only [ha1]; exact ⟨_, rfl⟩
        · split
          · simp only [ha1]; exact ⟨_, rfl⟩
          · split
            · simp only [ha1]; exact ⟨_, rfl⟩
            · simp only [ha2]; exact ⟨_, rfl⟩
      obtain ⟨st', h⟩ := this
      exact ⟨.react s, st', trivial, h⟩


theorem critOf {c : Cfg} {st : StB} (hP : InvP c st) {s : Nat} {x : Exit} (h : (st.pcB s).exitOf = some x) :
    x = .critical → ∃ k ∈ c.children s, c.critical k = true ∧ ∃ ex, st.a.ph k = .done (.exc ex) := by
  intro hx; subst hx; exact hP.critMeans s h

/-- (4) a tidy wait that can return -/
theorem en_tidy {c : Cfg} {st : StB} (hB : InvB c st) (hP : InvP c st) {s : Nat} {x : Exit}
    (hsn : s < c.n) (hss : c.isSched s = true) (hx : st.pcB s = .tidy x) (hlc : liveChildren c st.a s = []) :
    ∃ e st', internalEv e ∧ stepB c st e = some st' := by
  have hrun := hB.runPh s (by simp [hx]) (by simp [hx])
  by_cases hcp : cancelPending st s = true
  · obtain ⟨st', h⟩ := en_cancelArrive hB hP hsn hss hrun hcp
    exact ⟨.cancelArrive s, st', trivial, h⟩
  · have hcp' : cancelPending st s = false := by simpa using hcp
    by_cases hd : st.didSd s = true
    · obtain ⟨pick, st', hf⟩ := en_finishRun c { st with sdValue := setAt st.sdValue s none } s x hsn hss
        (pc_exiting hB (by simp [hx, PcB.exiting])) hrun (critOf hP (by simp [hx, PcB.exitOf]))
      refine ⟨.tidyReturn s pick, st', trivial, ?_⟩
      simp only [stepB, hx]
      rw [if_pos ⟨hlc, hcp'⟩]
      simp only [hd, if_true]
      exact hf
    · have : ∃ st', stepB c st (.tidyReturn s 0) = some st' := by
        simp only [stepB, hx]
        rw [if_pos ⟨hlc, hcp'⟩]
        simp only [hd]
        exact ⟨_, rfl⟩
      obtain ⟨st', h⟩ := this
      exact ⟨.tidyReturn s 0, st', trivial, h⟩

/-- (5) a relay that has not had its first step -/
theorem en_hStep {c : Cfg} {st : StB} (hB : InvB c st) {s : Nat}
    (hsn : s < c.n) (hss : c.isSched s = true) (hh : st.hph s = .hactive) (hr : relayActive st s = false) :
    ∃ st', stepB c st (.hStep s) = some st' := by
  have hs0 : 0 < s := by
    apply Nat.pos_of_ne_zero
    intro h; subst h; rw [hph_zero hB] at hh; cases hh
  simp only [stepB]
  rw [if_pos ⟨hs0, hsn, hss, hh, hr⟩]
  split <;> exact ⟨_, rfl⟩

/-- (6) a relay inside its broadcast whose cancellation has not been delivered -/
theorem en_hCancelArrive {c : Cfg} {st : StB} (hB : InvB c st) {s : Nat}
    (hsn : s < c.n) (hss : c.isSched s = true) (hh : st.hph s = .hactive) (hr : relayActive st s = true)
    (hc : st.hcreq s = true) (hca : st.hcarrived s = false) :
    ∃ st', stepB c st (.hCancelArrive s) = some st' := by
  have hs0 : 0 < s := by
    apply Nat.pos_of_ne_zero
    intro h; subst h; rw [hph_zero hB] at hh; cases hh
  simp only [stepB]
  rw [if_pos ⟨hs0, hsn, hss, hh, hc, hca⟩]
  simp only [relayActive, Bool.or_eq_true, beq_iff_eq] at hr
  rcases hr with hr | hr <;> rw [hr] <;> exact ⟨_, rfl⟩


/-- (7) a shutdown wait that can return: the scheduler's own `co_shutdown` (inline) -/
theorem en_sd_inline {c : Cfg} {st : StB} (hB : InvB c st) (hP : InvP c st) {s : Nat} {x : Exit} (tidy : Bool)
    (hsn : s < c.n) (hss : c.isSched s = true)
    (hb : if tidy then st.bc s = .btidy .inline ∧ st.pcB s = .shutTidy x else st.bc s = .bwait .inline ∧ st.pcB s = .shut x)
    (hact : activeHandlers c st s = []) :
    ∃ e st', internalEv e ∧ stepB c st e = some st' := by
  have hne : st.pcB s ≠ .notBegun ∧ st.pcB s ≠ .over ∧ (st.pcB s).exiting = true ∧ (st.pcB s).exitOf = some x := by
    cases tidy <;> simp at hb <;> simp [hb.2, PcB.exiting, PcB.exitOf]
  obtain ⟨h1, h2, h3, h4⟩ := hne
  have hrun := hB.runPh s h1 h2
  by_cases hcp : cancelPending st s = true
  · obtain ⟨st', h⟩ := en_cancelArrive hB hP hsn hss hrun hcp
    exact ⟨.cancelArrive s, st', trivial, h⟩
  · have hcp' : cancelPending st s = false := by simpa using hcp
    have hhcp := hcp_running hB h1 h2
    cases tidy with
    | false =>
      simp only [Bool.false_eq_true, if_false] at hb
      obtain ⟨pick, st', hf⟩ := en_finishRun c
        { st with bc := setAt st.bc s .bover, sdValue := setAt st.sdValue s (some true) } s x hsn hss
        (pc_exiting hB h3) hrun (critOf hP h4)
      refine ⟨.sdWaitReturn s pick, st', trivial, ?_⟩
      simp only [stepB]
      rw [if_pos ⟨hact, hcp', hhcp⟩]
      simp only [hb.1, hb.2]
      exact hf
    | true =>
      simp only [if_true] at hb
      obtain ⟨pick, st', hf⟩ := en_finishRun c
        { st with bc := setAt st.bc s .bover, sdValue := setAt st.sdValue s (some false) } s x hsn hss
        (pc_exiting hB h3) hrun (critOf hP h4)
      refine ⟨.sdTidyReturn s pick, st', trivial, ?_⟩
      simp only [stepB]
      rw [if_pos ⟨hact, hcp', hhcp⟩]
      simp only [hb.1, hb.2]
      exact hf

/-- (7) a shutdown wait that can return: `co_shutdown` called by the enclosing scheduler (relay) -/
theorem en_sd_relay {c : Cfg} {st : StB} (hA : InvA c st.a) (hB : InvB c st) {s : Nat}
    (hsn : s < c.n) (hb : st.bc s = .bwait .relay ∨ st.bc s = .btidy .relay)
    (hact : activeHandlers c st s = []) :
    ∃ e st', internalEv e ∧ stepB c st e = some st' := by
  have hr : relayActive st s = true := by
    rcases hb with hb | hb <;> simp [relayActive, hb]
  obtain ⟨hh, hss⟩ := hB.bcRelay s hr
  by_cases hhcp : hcancelPending st s = true
  · simp only [hcancelPending, Bool.and_eq_true, Bool.not_eq_true'] at hhcp
    obtain ⟨st', h⟩ := en_hCancelArrive hB hsn hss hh hr hhcp.1 hhcp.2
    exact ⟨.hCancelArrive s, st', trivial, h⟩
  · have hhcp' : hcancelPending st s = false := by simpa using hhcp
    have hcp := cp_relay hA hB (s := s) (by simp [hh]) hss
    rcases hb with hb | hb
    · have : ∃ st', stepB c st (.sdWaitReturn s 0) = some st' := by
        simp only [stepB]
        rw [if_pos ⟨hact, hcp, hhcp'⟩]
        simp only [hb]
        exact ⟨_, rfl⟩
      obtain ⟨st', h⟩ := this
      exact ⟨.sdWaitReturn s 0, st', trivial, h⟩
    · have : ∃ st', stepB c st (.sdTidyReturn s 0) = some st' := by
        simp only [stepB]
        rw [if_pos ⟨hact, hcp, hhcp'⟩]
        simp only [hb]
        exact ⟨_, rfl⟩
      obtain ⟨st', h⟩ := this
      exact ⟨.sdTidyReturn s 0, st', trivial, h⟩

theorem en_sd {c : Cfg} {st : StB} (hA : InvA c st.a) (hB : InvB c st) (hP : InvP c st) {s : Nat}
    (hsn : s < c.n) (hss : c.isSched s = true)
    (hbc : (st.bc s).isWait = true ∨ (st.bc s).isTidy = true) (hact : activeHandlers c st s = []) :
    ∃ e st', internalEv e ∧ stepB c st e = some st' := by
  cases hb : st.bc s with
  | bnone => simp [hb, Bc.isWait, Bc.isTidy] at hbc
  | bover => simp [hb, Bc.isWait, Bc.isTidy] at hbc
  | bwait w =>
    cases w with
    | inline =>
      obtain ⟨x, hx⟩ := (hB.bcInlineWait s).1 hb
      exact en_sd_inline hB hP (x := x) false hsn hss (by simp [hb, hx]) hact
    | relay => exact en_sd_relay hA hB hsn (Or.inl hb) hact
  | btidy w =>
    cases w with
    | inline =>
      obtain ⟨x, hx⟩ := (hB.bcInlineTidy s).1 hb
      exact en_sd_inline hB hP (x := x) true hsn hss (by simp [hb, hx]) hact
    | relay => exact en_sd_relay hA hB hsn (Or.inr hb) hact


/-- (1) a queued job that can take a slot, or whose cancellation is pending -/
theorem en_queued {c : Cfg} {st : StB} {j : Nat} (hjn : j < c.n) (hj0 : 0 < j) (hq : st.a.ph j = .queued)
    (hor : st.a.creq j = true ∨ slotFree c st.a (c.parent j) = true) :
    ∃ e st', internalEv e ∧ stepB c st e = some st' := by
  cases hc : st.a.creq j with
  | true =>
    obtain ⟨a', ha⟩ := enA_cancelAck hj0 hjn hq hc
    have : ∃ st', stepB c st (.cancelAck j) = some st' := by
      simp only [stepB, ha]; exact ⟨_, rfl⟩
    obtain ⟨st', h⟩ := this
    exact ⟨.cancelAck j, st', trivial, h⟩
  | false =>
    have hf : slotFree c st.a (c.parent j) = true := by
      rcases hor with h | h
      · rw [hc] at h; cases h
      · exact h
    obtain ⟨a', ha⟩ := enA_grant hj0 hjn hq hc hf
    have : ∃ st', stepB c st (.grant j) = some st' := by
      simp only [stepB, ha]; split <;> exact ⟨_, rfl⟩
    obtain ⟨st', h⟩ := this
    exact ⟨.grant j, st', trivial, h⟩


/-- `urgent_enabled` with the sharper conclusion: the enabled event is an event of the run itself — not `tick`, and not
    the `extCancel` of the outside world either -/
theorem urgent_enabled_internal (c : Cfg) (hwf : c.wf = true) (evs : List EvB) (st : StB)
    (h : acceptB c StB.init evs = some st) (hq : quietB c st = false) :
    ∃ e st', internalEv e ∧ stepB c st e = some st' := by
  have hA := invA_of_reachB c hwf evs st h
  have hB := invB_reach c hwf evs st h
  have hP := invP_reach c hwf evs st h
  obtain ⟨j, hjn, hnq⟩ := quietB_false c st hq
  by_cases h1 : 0 < j ∧ st.a.ph j = .queued ∧ (st.a.creq j = true ∨ slotFree c st.a (c.parent j) = true)
  · exact en_queued hjn h1.1 h1.2.1 h1.2.2
  by_cases h2 : c.isSched j = true ∧ st.a.ph j = .running ∧ st.a.creq j = true ∧ st.carrived j = false
  · obtain ⟨st', h⟩ := en_cancelArrive hB hP hjn h2.1 h2.2.1 (by simp [cancelPending, h2.2.2.1, h2.2.2.2])
    exact ⟨.cancelArrive j, st', trivial, h⟩
  by_cases h3 : c.isSched j = true ∧ st.pcB j = .loop ∧ (doneSet c st.a j ≠ [] ∨ st.a.rx j ≠ none)
  · exact en_loop hB hP hjn h3.1 h3.2.1 h3.2.2
  by_cases h4 : c.isSched j = true ∧ (st.pcB j).isTidy = true ∧ liveChildren c st.a j = []
  · obtain ⟨hs, ht, hl⟩ := h4
    cases hp : st.pcB j with
    | tidy x => exact en_tidy hB hP hjn hs hp hl
    | _ => simp [hp, PcB.isTidy] at ht
  by_cases h5 : c.isSched j = true ∧ st.hph j = .hactive ∧ relayActive st j = false
  · obtain ⟨st', h⟩ := en_hStep hB hjn h5.1 h5.2.1 h5.2.2
    exact ⟨.hStep j, st', trivial, h⟩
  by_cases h6 : c.isSched j = true ∧ st.hph j = .hactive ∧ st.hcreq j = true ∧ st.hcarrived j = false
  · have hr : relayActive st j = true := by
      cases hr : relayActive st j
      · exact absurd ⟨h6.1, h6.2.1, hr⟩ h5
      · rfl
    obtain ⟨st', h⟩ := en_hCancelArrive hB hjn h6.1 h6.2.1 hr h6.2.2.1 h6.2.2.2
    exact ⟨.hCancelArrive j, st', trivial, h⟩
  by_cases h7 : c.isSched j = true ∧ ((st.bc j).isWait = true ∨ (st.bc j).isTidy = true) ∧ activeHandlers c st j = []
  · exact en_sd hA hB hP hjn h7.1 h7.2.1 h7.2.2
  exact absurd ⟨h1, h2, h3, h4, h5, h6, h7⟩ hnq

/-- C03 (no zero-time deadlock): in every reachable state, if the clock may not advance because something urgent
    is pending, then some event other than `tick` is enabled -/
theorem urgent_enabled (c : Cfg) (hwf : c.wf = true) (evs : List EvB) (st : StB)
    (h : acceptB c StB.init evs = some st) (hq : quietB c st = false) :
    ∃ e st', (∀ d, e ≠ .tick d) ∧ stepB c st e = some st' := by
  obtain ⟨e, st', hi, hs⟩ := urgent_enabled_internal c hwf evs st h hq
  exact ⟨e, st', hi.not_tick, hs⟩


theorem expired_of_within {dl : Option Nat} {now : Nat} (h : within dl now 1 = false) : expired dl now = true := by
  cases dl with
  | none => simp [within] at h
  | some x => simp only [within, decide_eq_false_iff_not] at h; simp only [expired, decide_eq_true_eq]; omega

theorem cp_of_quiet {c : Cfg} {st : StB} {s : Nat} (hq : QuietAt c st s) (hss : c.isSched s = true)
    (hrun : st.a.ph s = .running) : cancelPending st s = false := by
  cases hc : st.a.creq s
  · simp [cancelPending, hc]
  · cases hca : st.carrived s
    · exact absurd ⟨hss, hrun, hc, hca⟩ hq.q2
    · simp [cancelPending, hca]

theorem en_timeoutFire {c : Cfg} {st : StB} (hB : InvB c st) {s : Nat} (hsn : s < c.n) (hq : QuietAt c st s)
    (hl : st.pcB s = .loop) (hw : within (st.deadline s) st.a.now 1 = false) :
    ∃ st', stepB c st (.timeoutFire s) = some st' := by
  have hss := (hB.pcRange s (by simp [hl])).2
  have hrun := hB.runPh s (by simp [hl]) (by simp [hl])
  have hcp := cp_of_quiet hq hss hrun
  have hrx : st.a.rx s = none := by
    cases hr : st.a.rx s
    · rfl
    · exact absurd ⟨hss, hl, Or.inr (by simp [hr])⟩ hq.q3
  have hD : doneSet c st.a s = [] := by
    cases hd : doneSet c st.a s
    · rfl
    · exact absurd ⟨hss, hl, Or.inl (by simp [hd])⟩ hq.q3
  obtain ⟨a', ha⟩ := enA_leave (c := c) (a := st.a) hsn hss ((hB.pcLoop s).1 hl)
  simp only [stepB]
  rw [if_pos ⟨hl, hcp, hrx, hD, expired_of_within hw⟩]
  simp only [ha]
  exact ⟨_, rfl⟩

theorem en_sdTimeoutFire {c : Cfg} {st : StB} (hA : InvA c st.a) (hB : InvB c st) {s : Nat} (hsn : s < c.n)
    (hq : QuietAt c st s) (hbw : (st.bc s).isWait = true) (hw : within (st.hdeadline s) st.a.now 1 = false) :
    ∃ st', stepB c st (.sdTimeoutFire s) = some st' := by
  have hds : st.didSd s = true := by
    cases hd : st.didSd s
    · have := (hB.bcNone s).2 hd
      simp [this, Bc.isWait] at hbw
    · rfl
  have hss := (hB.didSdRange s hds).2
  have hact : activeHandlers c st s ≠ [] := fun h => hq.q7 ⟨hss, Or.inl hbw, h⟩
  have hcc : cancelPending st s = false ∧ hcancelPending st s = false := by
    cases hb : st.bc s with
    | bnone => simp [hb, Bc.isWait] at hbw
    | bover => simp [hb, Bc.isWait] at hbw
    | btidy w => simp [hb, Bc.isWait] at hbw
    | bwait w =>
      cases w with
      | inline =>
        obtain ⟨x, hx⟩ := (hB.bcInlineWait s).1 hb
        have hrun := hB.runPh s (by simp [hx]) (by simp [hx])
        exact ⟨cp_of_quiet hq hss hrun, hcp_running hB (by simp [hx]) (by simp [hx])⟩
      | relay =>
        have hr : relayActive st s = true := by simp [relayActive, hb]
        obtain ⟨hh, _⟩ := hB.bcRelay s hr
        refine ⟨cp_relay hA hB (by simp [hh]) hss, ?_⟩
        cases hc : st.hcreq s
        · simp [hcancelPending, hc]
        · cases hca : st.hcarrived s
          · exact absurd ⟨hss, hh, hc, hca⟩ hq.q6
          · simp [hcancelPending, hca]
  simp only [stepB]
  rw [if_pos ⟨hbw, hact, expired_of_within hw, hcc.1, hcc.2⟩]
  exact ⟨_, rfl⟩

theorem enA_tick {c : Cfg} {st : StB} (hB : InvB c st) (hq : ∀ j, j < c.n → QuietAt c st j) :
    ∃ a', stepA c st.a (.tick 1) = some a' := by
  simp only [stepA]
  rw [if_pos]
  · exact ⟨_, rfl⟩
  · refine ⟨by omega, ?_, ?_⟩
    · intro j hj hc
      exact (hq j (List.mem_range.1 hj)).q1 ⟨hc.1, hc.2.1, Or.inr hc.2.2.2⟩
    · intro s hs hc
      exact (hq s (List.mem_range.1 hs)).q3 ⟨hc.1, (hB.pcLoop s).2 hc.2.1, hc.2.2⟩

/-- C03 (deadlines are met): if nothing urgent is pending but the clock may not advance by 1 because an armed
    deadline has been reached, then the corresponding expiry event is enabled -/
theorem deadline_enabled (c : Cfg) (hwf : c.wf = true) (evs : List EvB) (st : StB)
    (h : acceptB c StB.init evs = some st) (hq : quietB c st = true)
    (hno : stepB c st (.tick 1) = none) :
    ∃ s st', stepB c st (.timeoutFire s) = some st' ∨ stepB c st (.sdTimeoutFire s) = some st' := by
  have hA := invA_of_reachB c hwf evs st h
  have hB := invB_reach c hwf evs st h
  have hQ := (quietB_iff c st).1 hq
  by_cases hE1 : ∃ s, s < c.n ∧ st.pcB s = .loop ∧ within (st.deadline s) st.a.now 1 = false
  · obtain ⟨s, hsn, hl, hw⟩ := hE1
    obtain ⟨st', h'⟩ := en_timeoutFire hB hsn (hQ s hsn) hl hw
    exact ⟨s, st', Or.inl h'⟩
  by_cases hE2 : ∃ s, s < c.n ∧ (st.bc s).isWait = true ∧ within (st.hdeadline s) st.a.now 1 = false
  · obtain ⟨s, hsn, hl, hw⟩ := hE2
    obtain ⟨st', h'⟩ := en_sdTimeoutFire hA hB hsn (hQ s hsn) hl hw
    exact ⟨s, st', Or.inr h'⟩
  exfalso
  obtain ⟨a', ha⟩ := enA_tick hB hQ
  simp only [stepB] at hno
  rw [if_pos, ha] at hno
  · cases hno
  · refine ⟨hq, ?_, ?_⟩
    · intro s hs hl
      cases hw : within (st.deadline s) st.a.now 1
      · exact absurd ⟨s, List.mem_range.1 hs, hl, hw⟩ hE1
      · rfl
    · intro s hs hl
      cases hw : within (st.hdeadline s) st.a.now 1
      · exact absurd ⟨s, List.mem_range.1 hs, hl, hw⟩ hE2
      · rfl


theorem ph_cases (p : Ph) : p = .idle ∨ p = .queued ∨ p = .running ∨ p.isDone = true ∨ p = .cancelled := by
  cases p <;> simp [Ph.isDone]

/-- a quiet run waiting in its main loop has a job whose body is executing -/
theorem loop_has_running {c : Cfg} (w : CoreA.WF c) {st : StB} (hA : InvA c st.a) (hB : InvB c st) (hP : InvP c st)
    (hQ : ∀ j, j < c.n → QuietAt c st j) {s : Nat} (hsn : s < c.n) (hss : c.isSched s = true)
    (hl : st.pcB s = .loop) : ∃ k ∈ c.children s, st.a.ph k = .running := by
  apply Classical.byContradiction
  intro hno
  have hnr : ∀ k ∈ c.children s, st.a.ph k ≠ .running := fun k hk hr => hno ⟨k, hk, hr⟩
  have hq := hQ s hsn
  have hrx : st.a.rx s = none := by
    cases hr : st.a.rx s
    · rfl
    · exact absurd ⟨hss, hl, Or.inr (by simp [hr])⟩ hq.q3
  have hD : doneSet c st.a s = [] := by
    cases hd : doneSet c st.a s
    · rfl
    · exact absurd ⟨hss, hl, Or.inl (by simp [hd])⟩ hq.q3
  have hpc := (hB.pcLoop s).1 hl
  -- no job is waiting for a slot: the window is empty
  have hnq : ∀ k ∈ c.children s, st.a.ph k ≠ .queued := by
    intro k hk hkq
    obtain ⟨hkn, hk0, hkp⟩ := CoreA.mem_children.1 hk
    have hqk := (hQ k hkn).q1
    have hrc : runningCount c st.a s = 0 := by
      rw [runningCount_eq]
      exact rcOf_zero c st.a.ph s hnr
    have hqc := hA.qcountEq s hsn hss
    apply hqk
    refine ⟨by omega, hkq, Or.inr ?_⟩
    rw [hkp]
    simp only [slotFree, Bool.or_eq_true, beq_iff_eq, decide_eq_true_eq]
    omega
  -- a finished job has been reported
  have hdd : ∀ k ∈ c.children s, (st.a.ph k).isDone = true → st.a.deliv k = true := by
    intro k hk hd
    cases hdl : st.a.deliv k
    · have : k ∈ doneSet c st.a s := CoreA.mem_doneSet.2 ⟨hk, Or.inl hd, hdl⟩
      rw [hD] at this; cases this
    · rfl
  have hnc : ∀ k ∈ c.children s, st.a.ph k ≠ .cancelled := fun k hk => (hB.loopClean s hl k hk).2
  -- no job is idle: its requirements are finished and reported
  have hni : ∀ m k, k ≤ m → k ∈ c.children s → st.a.ph k ≠ .idle := by
    intro m
    induction m with
    | zero =>
      intro k hk hkc
      exact absurd (by omega) (CoreA.mem_children.1 hkc).2.1
    | succ m ih =>
      intro k hk hkc hi
      obtain ⟨hkn, hk0, hkp⟩ := CoreA.mem_children.1 hkc
      obtain ⟨r, hr, hnot⟩ := hA.eager s hpc k hkc hi
      have hrc := w.req_child hkc hr
      have hrl := w.reqLt k (by omega) hkn r hr
      have hri := ih r (by omega) hrc
      have hrd : (st.a.ph r).isDone = true := by
        rcases ph_cases (st.a.ph r) with h | h | h | h | h
        · exact absurd h hri
        · exact absurd h (hnq r hrc)
        · exact absurd h (hnr r hrc)
        · exact h
        · exact absurd h (hnc r hrc)
      exact hnot ⟨hrd, hdd r hrc hrd, by simp [hrx]⟩
  have hall : ∀ k ∈ c.children s, st.a.deliv k = true := by
    intro k hk
    rcases ph_cases (st.a.ph k) with h | h | h | h | h
    · exact absurd h (hni k k (Nat.le_refl _) hk)
    · exact absurd h (hnq k hk)
    · exact absurd h (hnr k hk)
    · exact hdd k hk h
    · exact absurd h (hnc k hk)
  rcases hP.notStuck s hl hrx with h | ⟨k, hk, hkd⟩
  · apply h
    rw [hB.count s hl]
    unfold nbFinite
    congr 1
    apply List.filter_congr
    intro k hk
    simp [rxD, hrx, hall k hk]
  · rw [hall k hk] at hkd; cases hkd

/-- something that ends by itself in finite time (assumption A6) or at a known instant is in flight -/
def InFlight (c : Cfg) (st : StB) : Prop :=
  (∃ j, j < c.n ∧ c.isSched j = false ∧ st.a.ph j = .running) ∨
  (∃ j, j < c.n ∧ c.isSched j = false ∧ st.hph j = .hactive) ∨
  (∃ s dl, s < c.n ∧ st.pcB s = .loop ∧ st.deadline s = some dl) ∨
  (∃ s dl, s < c.n ∧ (st.bc s).isWait = true ∧ st.hdeadline s = some dl)

/-- descent: below a scheduler that is running, or whose relay is inside its broadcast, something is in flight -/
theorem inflight_below {c : Cfg} (w : CoreA.WF c) {st : StB} (hA : InvA c st.a) (hB : InvB c st) (hP : InvP c st)
    (hQ : ∀ j, j < c.n → QuietAt c st j) :
    ∀ m s, c.n - s ≤ m → s < c.n → c.isSched s = true → (st.a.ph s = .running ∨ relayActive st s = true) →
      InFlight c st := by
  intro m
  induction m with
  | zero => intro s h1 h2; omega
  | succ m ih =>
    intro s hm hsn hss hcase
    have hq := hQ s hsn
    -- a job of `s` whose body is executing
    have hchildRun : ∀ k ∈ c.children s, st.a.ph k = .running → InFlight c st := by
      intro k hk hr
      obtain ⟨hkn, hk0, hkp⟩ := CoreA.mem_children.1 hk
      have hlt := w.parentLt k (by omega) hkn
      cases hks : c.isSched k
      · exact Or.inl ⟨k, hkn, hks, hr⟩
      · exact ih k (by omega) hkn hks (Or.inl hr)
    -- a job of `s` whose shutdown handler is pending
    have hchildH : ∀ k ∈ c.children s, st.hph k = .hactive → InFlight c st := by
      intro k hk hh
      obtain ⟨hkn, hk0, hkp⟩ := CoreA.mem_children.1 hk
      have hlt := w.parentLt k (by omega) hkn
      cases hks : c.isSched k
      · exact Or.inr (Or.inl ⟨k, hkn, hks, hh⟩)
      · have hr : relayActive st k = true := by
          cases hr : relayActive st k
          · exact absurd ⟨hks, hh, hr⟩ (hQ k hkn).q5
          · rfl
        exact ih k (by omega) hkn hks (Or.inr hr)
    -- a broadcast in progress has a pending handler
    have hbcast : ((st.bc s).isWait = true ∨ (st.bc s).isTidy = true) → InFlight c st := by
      intro hbc
      cases hact : activeHandlers c st s with
      | nil => exact absurd ⟨hss, hbc, hact⟩ hq.q7
      | cons k l =>
        have hk : k ∈ activeHandlers c st s := by simp [hact]
        obtain ⟨hkc, hkh⟩ := mem_activeHandlers.1 hk
        exact hchildH k hkc hkh
    rcases hcase with hrun | hrel
    · obtain ⟨hnb, hno⟩ := hP.runPc s hss hrun
      cases hp : st.pcB s with
      | notBegun => exact absurd hp hnb
      | over => exact absurd hp hno
      | loop =>
        obtain ⟨k, hk, hr⟩ := loop_has_running w hA hB hP hQ hsn hss hp
        exact hchildRun k hk hr
      | tidy x =>
        cases hlc : liveChildren c st.a s with
        | nil => exact absurd ⟨hss, by simp [hp, PcB.isTidy], hlc⟩ hq.q4
        | cons k l =>
          have hk : k ∈ liveChildren c st.a s := by simp [hlc]
          obtain ⟨hkc, hkl⟩ := mem_liveChildren.1 hk
          obtain ⟨hkn, hk0, hkp⟩ := CoreA.mem_children.1 hkc
          have hcr := hB.exitCancelled s (by simp [hp, PcB.exiting]) k hkc hkl
          have hr : st.a.ph k = .running := by
            rcases ph_cases (st.a.ph k) with h | h | h | h | h
            · simp [h, Ph.live] at hkl
            · exact absurd ⟨by omega, h, Or.inl hcr⟩ (hQ k hkn).q1
            · exact h
            · cases hph : st.a.ph k <;> simp [hph, Ph.live, Ph.isDone] at hkl h
            · simp [h, Ph.live] at hkl
          exact hchildRun k hkc hr
      | shut x =>
        have := (hB.bcInlineWait s).2 ⟨x, hp⟩
        exact hbcast (Or.inl (by simp [this, Bc.isWait]))
      | shutTidy x =>
        have := (hB.bcInlineTidy s).2 ⟨x, hp⟩
        exact hbcast (Or.inr (by simp [this, Bc.isTidy]))
    · simp only [relayActive, Bool.or_eq_true, beq_iff_eq] at hrel
      rcases hrel with h | h
      · exact hbcast (Or.inl (by simp [h, Bc.isWait]))
      · exact hbcast (Or.inr (by simp [h, Bc.isTidy]))

/-- C03 (never wedged): in every reachable state in which the top-level run has begun and is not over, and
    nothing urgent is pending, something is in flight: a run never sits waiting for nothing.
    (With the slot leak of defect D1 this was false: jobs queued for a slot, none running, no deadline.) -/
theorem never_wedged (c : Cfg) (hwf : c.wf = true) (evs : List EvB) (st : StB)
    (h : acceptB c StB.init evs = some st) (hb : st.pcB 0 ≠ .notBegun) (ho : st.pcB 0 ≠ .over)
    (hq : quietB c st = true) : InFlight c st := by
  have hA := invA_of_reachB c hwf evs st h
  have hB := invB_reach c hwf evs st h
  have hP := invP_reach c hwf evs st h
  have hQ := (quietB_iff c st).1 hq
  have w := CoreA.wf_of hwf
  exact inflight_below w hA hB hP hQ c.n 0 (by omega) w.npos w.sched0 (Or.inl (hB.runPh 0 hb ho))


end AJ.Proofs.ProgB
