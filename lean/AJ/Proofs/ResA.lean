/-
  Layer A: the result / exception recorded for a job is the one of the event that finished it (C14 "result() is
  the object its body returned, raised_exception() the exception object it raised, None otherwise").
-/
import AJ.Proofs.HistA
namespace AJ.Proofs.ResA
open AJ.Run AJ.Proofs.HistA

/-! ### which event gives which result to which job -/

/-- the result the event `e` leaves in the task of `j`, if it finishes it (by returning or raising) -/
def produces (c : Cfg) (j : Nat) : EvA → Option Res
  | .bodyEnd k ok => if k = j then some (if ok then .retOwn else .exc (.byJob j)) else none
  | .finish k (some r) => if k = j then some r else none
  | .grant k => if k = j ∧ c.isSched j = true ∧ (c.children j).isEmpty = true then some (.retBool true) else none
  | .runBegin => if j = 0 ∧ (c.children 0).isEmpty = true then some (.retBool true) else none
  | _ => none

/-- one step: the phase of `j` is `.done r` afterwards iff it was before, or the event produced just that -/
theorem step_done (c : Cfg) (st st' : StA) (e : EvA) (h : stepA c st e = some st') (j : Nat) (r : Res) :
    st'.ph j = .done r ↔ (st.ph j = .done r ∨ produces c j e = some r) := by
  cases e <;> simp only [stepA] at h <;> (repeat' split at h) <;> cases h <;>
    (try unfold beginRun) <;> (repeat' split) <;> simp only [release, startJobs, setAt, produces] <;> grind

/-- what the guards say about the configuration: bodies belong to atomic jobs, runs to schedulers -/
theorem accept_static (c : Cfg) (evs : List EvA) : ∀ (st st' : StA), acceptA c st evs = some st' →
    (∀ j ok, EvA.bodyEnd j ok ∈ evs → c.isSched j = false) ∧
    (∀ s r, EvA.finish s r ∈ evs → c.isSched s = true) := by
  induction evs with
  | nil => intro st st' _; simp
  | cons e es ih =>
    intro st st' h
    simp only [acceptA] at h
    cases h1 : stepA c st e with
    | none => simp [h1] at h
    | some st1 =>
      rw [h1] at h
      have ⟨ih1, ih2⟩ := ih st1 st' h
      refine ⟨fun j ok hm => ?_, fun s r hm => ?_⟩
      · rcases List.mem_cons.1 hm with rfl | hm
        · simp only [stepA] at h1
          split at h1
          · next hg => exact hg.2.2.1
          · cases h1
        · exact ih1 j ok hm
      · rcases List.mem_cons.1 hm with rfl | hm
        · simp only [stepA] at h1
          split at h1
          · next hg => exact hg.2.1
          · cases h1
        · exact ih2 s r hm

/-- the history-indexed invariant: the result a task holds is the one some event of the history produced -/
theorem done_accept (c : Cfg) (evs : List EvA) :
    ∀ (pre : List EvA) (st0 st : StA),
      (∀ j r, st0.ph j = .done r ↔ ∃ e ∈ pre, produces c j e = some r) →
      acceptA c st0 evs = some st →
      ∀ j r, st.ph j = .done r ↔ ∃ e ∈ pre ++ evs, produces c j e = some r := by
  induction evs with
  | nil =>
    intro pre st0 st g h
    simp only [acceptA, Option.some.injEq] at h
    subst h; simpa using g
  | cons e es ih =>
    intro pre st0 st g h
    simp only [acceptA] at h
    cases h1 : stepA c st0 e with
    | none => simp [h1] at h
    | some st1 =>
      rw [h1] at h
      have := ih (pre ++ [e]) st1 st (fun j r => by
        rw [step_done c st0 st1 e h1 j r, g j r]
        simp only [List.mem_append, List.mem_singleton]
        constructor
        · rintro (⟨e', he', hp⟩ | hp)
          · exact ⟨e', Or.inl he', hp⟩
          · exact ⟨e, Or.inr rfl, hp⟩
        · rintro ⟨e', he' | rfl, hp⟩
          · exact Or.inl ⟨e', he', hp⟩
          · exact Or.inr hp) h
      simpa [List.append_assoc] using this

theorem done_reach (c : Cfg) (evs : List EvA) (st : StA) (h : acceptA c StA.init evs = some st) (j : Nat) (r : Res) :
    st.ph j = .done r ↔ ∃ e ∈ evs, produces c j e = some r := by
  simpa using done_accept c evs [] StA.init st (by simp [StA.init]) h j r

/-- an atomic job's task holds its own return object iff its body returned -/
theorem result_own_iff (c : Cfg) (evs : List EvA) (st : StA) (h : acceptA c StA.init evs = some st) (j : Nat)
    (hatom : c.isSched j = false) :
    st.ph j = .done .retOwn ↔ EvA.bodyEnd j true ∈ evs := by
  have hst := (accept_static c evs _ _ h).2
  rw [done_reach c evs st h]
  constructor
  · rintro ⟨e, he, hp⟩
    cases e with
    | bodyEnd k ok =>
      simp only [produces] at hp
      split at hp
      · next hk => subst hk; cases ok <;> simp at hp; exact he
      · cases hp
    | finish k r =>
      cases r with
      | none => simp [produces] at hp
      | some r =>
        simp only [produces] at hp
        split at hp
        · next hk => subst hk; rw [hst _ _ he] at hatom; cases hatom
        · cases hp
    | grant k => simp only [produces] at hp; split at hp <;> cases hp
    | runBegin => simp only [produces] at hp; split at hp <;> cases hp
    | _ => simp [produces] at hp
  · intro he
    exact ⟨_, he, by simp [produces]⟩

/-- … and the exception object its body raised iff it raised -/
theorem exception_own_iff (c : Cfg) (evs : List EvA) (st : StA) (h : acceptA c StA.init evs = some st) (j : Nat) :
    st.ph j = .done (.exc (.byJob j)) ∧ c.isSched j = false ↔ EvA.bodyEnd j false ∈ evs := by
  have ⟨hst1, hst2⟩ := accept_static c evs _ _ h
  rw [done_reach c evs st h]
  constructor
  · rintro ⟨⟨e, he, hp⟩, hatom⟩
    cases e with
    | bodyEnd k ok =>
      simp only [produces] at hp
      split at hp
      · next hk => subst hk; cases ok <;> simp at hp; exact he
      · cases hp
    | finish k r =>
      cases r with
      | none => simp [produces] at hp
      | some r =>
        simp only [produces] at hp
        split at hp
        · next hk => subst hk; rw [hst2 _ _ he] at hatom; cases hatom
        · cases hp
    | grant k => simp only [produces] at hp; split at hp <;> cases hp
    | runBegin => simp only [produces] at hp; split at hp <;> cases hp
    | _ => simp [produces] at hp
  · intro he
    exact ⟨⟨_, he, by simp [produces]⟩, hst1 _ _ he⟩

/-- a job that is not done carries neither result nor exception: its phase is not `.done _`
    (`raised_exception()` is None and `result()` raises) -/
theorem no_result_unless_done (c : Cfg) (evs : List EvA) (st : StA) (h : acceptA c StA.init evs = some st) (j : Nat)
    (hnf : finishedIn c evs j = false) : ∀ r, st.ph j ≠ .done r := by
  intro r hr
  have hd := (ghost_reach c evs st h).done j
  rw [hnf] at hd
  simp [isDone, hr, Ph.isDone] at hd

/-- the value a nested scheduler's task holds is the one its run ended with -/
theorem sched_result_iff (c : Cfg) (evs : List EvA) (st : StA) (h : acceptA c StA.init evs = some st) (s : Nat) (r : Res)
    (hs : c.isSched s = true) (hne : c.children s ≠ []) :
    st.ph s = .done r ↔ EvA.finish s (some r) ∈ evs := by
  have hst := (accept_static c evs _ _ h).1
  have hne' : (c.children s).isEmpty = false := by simpa using hne
  rw [done_reach c evs st h]
  constructor
  · rintro ⟨e, he, hp⟩
    cases e with
    | bodyEnd k ok =>
      simp only [produces] at hp
      split at hp
      · next hk => subst hk; rw [hst _ _ he] at hs; cases hs
      · cases hp
    | finish k r' =>
      cases r' with
      | none => simp [produces] at hp
      | some r' =>
        simp only [produces] at hp
        split at hp
        · next hk => subst hk; cases hp; exact he
        · cases hp
    | grant k =>
      simp only [produces] at hp
      split at hp
      · next hk => rw [hne'] at hk; exact absurd hk.2.2 (by simp)
      · cases hp
    | runBegin =>
      simp only [produces] at hp
      split at hp
      · next hk => obtain ⟨rfl, hk⟩ := hk; rw [hne'] at hk; cases hk
      · cases hp
    | _ => simp [produces] at hp
  · intro he
    exact ⟨_, he, by simp [produces]⟩

end AJ.Proofs.ResA
