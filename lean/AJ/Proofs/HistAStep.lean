/-
  Layer A, per-step facts relating one event to the change of state it causes
  (used by the history-level theorems of `AJ/Proofs/HistA.lean`).  No invariant, no well-formedness needed.
-/
import AJ.Model.Run
import AJ.Model.Hist
namespace AJ.Proofs.HistA
open AJ.Run

/-! ### `acceptA` and list append -/

theorem acceptA_append' (c : Cfg) (st : StA) (e1 e2 : List EvA) :
    acceptA c st (e1 ++ e2) = (acceptA c st e1).bind fun st1 => acceptA c st1 e2 := by
  induction e1 generalizing st with
  | nil => simp [acceptA]
  | cons e es ih =>
    simp only [List.cons_append, acceptA]
    cases stepA c st e with
    | none => simp
    | some st' => simp [ih]

theorem acceptA_snoc (c : Cfg) (st : StA) (evs : List EvA) (e : EvA) :
    acceptA c st (evs ++ [e]) = (acceptA c st evs).bind fun st1 => stepA c st1 e := by
  rw [acceptA_append']
  congr 1
  funext st1
  simp only [acceptA]
  cases stepA c st1 e <;> rfl

theorem acceptA_snoc_some {c : Cfg} {st st' : StA} {evs : List EvA} {e : EvA}
    (h : acceptA c st (evs ++ [e]) = some st') :
    ∃ st0, acceptA c st evs = some st0 ∧ stepA c st0 e = some st' := by
  rw [acceptA_snoc] at h
  cases h0 : acceptA c st evs with
  | none => simp [h0] at h
  | some st0 => exact ⟨st0, rfl, by simpa [h0] using h⟩

/-! ### the auxiliary state transformers -/

theorem startJobs_ph (st : StA) (S : List Nat) (k : Nat) :
    (startJobs st S).ph k = if k ∈ S ∧ st.ph k = .idle then .queued else st.ph k := rfl

theorem startJobs_isDone (st : StA) (S : List Nat) (k : Nat) :
    ((startJobs st S).ph k).isDone = (st.ph k).isDone := by
  rw [startJobs_ph]
  split
  · next h => simp [h.2, Ph.isDone]
  · rfl

@[simp] theorem startJobs_rflag (st : StA) (S : List Nat) : (startJobs st S).rflag = st.rflag := rfl
@[simp] theorem startJobs_pc (st : StA) (S : List Nat) : (startJobs st S).pc = st.pc := rfl
@[simp] theorem release_ph (c : Cfg) (st : StA) (j : Nat) : (release c st j).ph = st.ph := rfl
@[simp] theorem release_rflag (c : Cfg) (st : StA) (j : Nat) : (release c st j).rflag = st.rflag := rfl
@[simp] theorem release_pc (c : Cfg) (st : StA) (j : Nat) : (release c st j).pc = st.pc := rfl

@[simp] theorem beginRun_rflag (c : Cfg) (st : StA) (s : Nat) : (beginRun c st s).rflag = st.rflag := by
  unfold beginRun; split <;> rfl

theorem beginRun_isDone (c : Cfg) (st : StA) (s k : Nat) :
    ((beginRun c st s).ph k).isDone = ((st.ph k).isDone || (k == s && (c.children s).isEmpty)) := by
  unfold beginRun
  split
  · next h =>
    simp only [setAt, h, Bool.and_true]
    by_cases hk : k = s <;> simp [hk, Ph.isDone]
  · next h =>
    rw [startJobs_isDone]
    simp [h]

theorem beginRun_pc (c : Cfg) (st : StA) (s k : Nat) :
    (beginRun c st s).pc k = if k = s then (if (c.children s).isEmpty then .over else .loop) else st.pc k := by
  unfold beginRun
  split
  · simp [setAt]
  · simp [setAt]

/-- the task does not exist yet or still waits for a slot: the body has not begun -/
def early (p : Ph) : Bool :=
  match p with
  | .idle => true
  | .queued => true
  | _ => false

theorem startJobs_early (st : StA) (S : List Nat) (k : Nat) :
    early ((startJobs st S).ph k) = early (st.ph k) := by
  rw [startJobs_ph]
  split
  · next h => simp [h.2, early]
  · rfl

theorem beginRun_early (c : Cfg) (st : StA) (s k : Nat) :
    early ((beginRun c st s).ph k) = (early (st.ph k) && !(k == s && (c.children s).isEmpty)) := by
  unfold beginRun
  split
  · next h =>
    simp only [setAt, h, Bool.and_true]
    by_cases hk : k = s <;> simp [hk, early]
  · next h =>
    rw [startJobs_early]
    simp [h]

theorem mem_children {c : Cfg} {s k : Nat} (h : k ∈ c.children s) : k ≠ 0 ∧ k < c.n ∧ c.parent k = s := by
  simp only [Cfg.children, List.mem_filter, List.mem_range, Bool.and_eq_true, bne_iff_ne, beq_iff_eq] at h
  exact ⟨h.2.1, h.1, h.2.2⟩

theorem ite_release_ph (c : Cfg) (b : Prop) [Decidable b] (x : StA) (j : Nat) :
    (if b then release c x j else x).ph = x.ph := by split <;> rfl
theorem ite_release_pc (c : Cfg) (b : Prop) [Decidable b] (x : StA) (j : Nat) :
    (if b then release c x j else x).pc = x.pc := by split <;> rfl

theorem beginRun_pc_self (c : Cfg) (st : StA) (s : Nat) : (beginRun c st s).pc s ≠ .notBegun := by
  rw [beginRun_pc]; simp only [if_true]; split <;> simp

/-- a job other than `s` that leaves `idle` when the run of `s` begins is an entry job of `s` -/
theorem beginRun_leave_idle (c : Cfg) (st : StA) (s k : Nat) (hi : st.ph k = .idle)
    (hn : (beginRun c st s).ph k ≠ .idle) (hk : k ≠ s) : c.parent k = s ∧ c.req k = [] := by
  unfold beginRun at hn
  split at hn
  · simp [setAt, hk, hi] at hn
  · rw [startJobs_ph] at hn
    split at hn
    · next h =>
      have h1 := h.1
      simp only [entrySet, List.mem_filter, List.isEmpty_iff] at h1
      exact ⟨(mem_children h1.1).2.2, h1.2⟩
    · exact absurd hi hn

/-! ### one step -/

theorem beq_false_of_ne {a b : Nat} (h : ¬ a = b) : (a == b) = false := by simp [h]

/-- G1, step: the events that turn `ph j` into `.done _` are exactly those for which `finishes c j` holds -/
theorem step_isDone (c : Cfg) (st st' : StA) (e : EvA) (h : stepA c st e = some st') (j : Nat) :
    isDone st' j = (isDone st j || finishes c j e) := by
  unfold isDone
  cases e with
  | runBegin =>
    simp only [stepA] at h
    split at h
    · next hg =>
      cases h
      simp only [beginRun_isDone, finishes, setAt]
      by_cases hj : j = 0 <;> simp [hj, hg.1, Ph.isDone]
    · cases h
  | grant k =>
    simp only [stepA] at h
    split at h
    · next hg =>
      obtain ⟨_, _, hq, _, _⟩ := hg
      split at h <;> cases h
      · next hs =>
        by_cases hj : j = k
        · subst hj
          split <;> simp only [beginRun_isDone, finishes, setAt, release_ph] <;> simp [hq, hs, Ph.isDone]
        · have hj' : ¬ k = j := fun h => hj h.symm
          split <;> simp only [beginRun_isDone, finishes, setAt, release_ph] <;>
            simp [hj, beq_false_of_ne hj, beq_false_of_ne hj']
      · next hs =>
        by_cases hj : j = k
        · subst hj
          simp [finishes, setAt, hq, hs, Ph.isDone]
        · have hj' : ¬ k = j := fun h => hj h.symm
          simp [finishes, setAt, hj, beq_false_of_ne hj']
    · cases h
  | bodyEnd k ok =>
    simp only [stepA] at h
    split at h
    · next hg =>
      cases h
      by_cases hj : j = k
      · subst hj
        simp [finishes, setAt, Ph.isDone]
      · have hj' : ¬ k = j := fun h => hj h.symm
        simp [finishes, setAt, hj, beq_false_of_ne hj']
    · cases h
  | cancelAck k =>
    simp only [stepA] at h
    split at h
    · next hg =>
      obtain ⟨_, _, _, hq⟩ := hg
      cases h
      by_cases hj : j = k
      · subst hj
        rcases hq with hq | ⟨hq, _⟩ <;> simp [finishes, setAt, hq, Ph.isDone]
      · split <;> simp [finishes, setAt, hj]
    · cases h
  | waitReturn s =>
    simp only [stepA] at h
    split at h
    · cases h; simp [finishes]
    · cases h
  | react s lv K =>
    simp only [stepA] at h
    split at h
    · cases h
    · split at h
      · split at h <;> cases h
        · simp [finishes]
        · simp [finishes, startJobs_isDone]
      · cases h
  | leave s K =>
    simp only [stepA] at h
    split at h
    · cases h; simp [finishes]
    · cases h
  | finish s r =>
    simp only [stepA] at h
    split at h
    · next hg =>
      obtain ⟨_, _, _, hq⟩ := hg
      cases h
      by_cases hj : j = s
      · subst hj
        cases r <;> split <;> simp [finishes, setAt, hq, Ph.isDone]
      · have hj' : ¬ s = j := fun h => hj h.symm
        cases r <;> split <;> simp [finishes, setAt, hj, beq_false_of_ne hj']
    · cases h
  | tick d =>
    simp only [stepA] at h
    split at h
    · cases h; simp [finishes]
    · cases h
  | extCancel =>
    simp only [stepA] at h
    split at h
    · cases h; simp [finishes]
    · cases h

/-- G2, step: `_running` is set exactly by the events that begin the body -/
theorem step_rflag (c : Cfg) (st st' : StA) (e : EvA) (h : stepA c st e = some st') (j : Nat) :
    st'.rflag j = (st.rflag j || begins j e) := by
  cases e with
  | runBegin =>
    simp only [stepA] at h
    split at h
    · cases h
      by_cases hj : j = 0 <;> simp [begins, setAt, hj]
    · cases h
  | grant k =>
    simp only [stepA] at h
    split at h
    · split at h <;> cases h
      · by_cases hj : j = k
        · subst hj; split <;> simp [begins, setAt]
        · have hj' : ¬ k = j := fun h => hj h.symm
          split <;> simp [begins, setAt, hj, beq_false_of_ne hj']
      · by_cases hj : j = k
        · subst hj; simp [begins, setAt]
        · have hj' : ¬ k = j := fun h => hj h.symm
          simp [begins, setAt, hj, beq_false_of_ne hj']
    · cases h
  | bodyEnd k ok =>
    simp only [stepA] at h
    split at h
    · cases h; simp [begins]
    · cases h
  | cancelAck k =>
    simp only [stepA] at h
    split at h
    · cases h; split <;> simp [begins]
    · cases h
  | waitReturn s =>
    simp only [stepA] at h
    split at h
    · cases h; simp [begins]
    · cases h
  | react s lv K =>
    simp only [stepA] at h
    split at h
    · cases h
    · split at h
      · split at h <;> cases h <;> simp [begins]
      · cases h
  | leave s K =>
    simp only [stepA] at h
    split at h
    · cases h; simp [begins]
    · cases h
  | finish s r =>
    simp only [stepA] at h
    split at h
    · cases h; split <;> simp [begins]
    · cases h
  | tick d =>
    simp only [stepA] at h
    split at h
    · cases h; simp [begins]
    · cases h
  | extCancel =>
    simp only [stepA] at h
    split at h
    · cases h; simp [begins]
    · cases h

/-- G3, step: the run of `s` leaves `notBegun` only by an event that begins `s` -/
theorem step_pc (c : Cfg) (st st' : StA) (e : EvA) (h : stepA c st e = some st') (s : Nat)
    (hs : st'.pc s ≠ .notBegun) : st.pc s ≠ .notBegun ∨ begins s e = true := by
  cases e with
  | runBegin =>
    simp only [stepA] at h
    split at h
    · cases h
      by_cases hj : s = 0
      · simp [begins, hj]
      · left; simpa [beginRun_pc, hj] using hs
    · cases h
  | grant k =>
    simp only [stepA] at h
    split at h
    · by_cases hj : s = k
      · simp [begins, hj]
      · left
        split at h <;> cases h
        · revert hs; split <;> simp [beginRun_pc, hj]
        · simpa using hs
    · cases h
  | bodyEnd k ok =>
    simp only [stepA] at h
    split at h
    · cases h; left; simpa using hs
    · cases h
  | cancelAck k =>
    simp only [stepA] at h
    split at h
    · cases h; left; revert hs; split <;> simp
    · cases h
  | waitReturn s' =>
    simp only [stepA] at h
    split at h
    · cases h; left; simpa using hs
    · cases h
  | react s' lv K =>
    simp only [stepA] at h
    split at h
    · cases h
    · split at h
      · next hg =>
        left
        split at h <;> cases h
        · by_cases hj : s = s'
          · subst hj; simp [hg.2.2.1]
          · simpa [setAt, hj] using hs
        · simpa using hs
      · cases h
  | leave s' K =>
    simp only [stepA] at h
    split at h
    · next hg =>
      cases h; left
      by_cases hj : s = s'
      · subst hj; simp [hg.2.2.1]
      · simpa [setAt, hj] using hs
    · cases h
  | finish s' r =>
    simp only [stepA] at h
    split at h
    · next hg =>
      cases h; left
      by_cases hj : s = s'
      · subst hj; simp [hg.2.2.1]
      · revert hs; split <;> simp [setAt, hj]
    · cases h
  | tick d =>
    simp only [stepA] at h
    split at h
    · cases h; left; simpa using hs
    · cases h
  | extCancel =>
    simp only [stepA] at h
    split at h
    · cases h; left; simpa using hs
    · cases h

/-- G4, step (1): the body of `j` begins only from `idle` (top-level) or `queued` -/
theorem step_begins_early (c : Cfg) (st st' : StA) (e : EvA) (h : stepA c st e = some st') (j : Nat)
    (hb : begins j e = true) : early (st.ph j) = true := by
  cases e with
  | runBegin =>
    simp only [stepA] at h
    split at h
    · next hg =>
      have : j = 0 := by simpa [begins] using hb
      subst this; simp [hg.1, early]
    · cases h
  | grant k =>
    simp only [stepA] at h
    split at h
    · next hg =>
      have : k = j := by simpa [begins] using hb
      subst this; simp [hg.2.2.1, early]
    · cases h
  | _ => simp [begins] at hb

/-- G4, step (2): once the body of `j` began, its task is never `idle` or `queued` again -/
theorem step_early (c : Cfg) (st st' : StA) (e : EvA) (h : stepA c st e = some st') (j : Nat)
    (he : early (st'.ph j) = true) : early (st.ph j) = true ∧ begins j e = false := by
  cases e with
  | runBegin =>
    simp only [stepA] at h
    split at h
    · cases h
      simp only [beginRun_early, setAt] at he
      by_cases hj : j = 0
      · simp [hj, early] at he
      · simpa [begins, hj] using he
    · cases h
  | grant k =>
    simp only [stepA] at h
    split at h
    · by_cases hj : j = k
      · subst hj
        split at h <;> cases h
        · revert he; split <;> simp only [beginRun_early, release_ph, setAt] <;> simp [early]
        · simp [setAt, early] at he
      · have hj' : ¬ k = j := fun h => hj h.symm
        split at h <;> cases h
        · revert he; split <;> simp [beginRun_early, setAt, hj, begins, beq_false_of_ne hj'] <;> (intros; assumption)
        · simpa [setAt, hj, begins, beq_false_of_ne hj'] using he
    · cases h
  | bodyEnd k ok =>
    simp only [stepA] at h
    split at h
    · cases h
      by_cases hj : j = k
      · subst hj; simp [setAt, early] at he
      · simpa [setAt, hj, begins] using he
    · cases h
  | cancelAck k =>
    simp only [stepA] at h
    split at h
    · cases h
      by_cases hj : j = k
      · subst hj; revert he; split <;> simp [setAt, early]
      · revert he; split <;> simp [setAt, hj, begins]
    · cases h
  | waitReturn s' =>
    simp only [stepA] at h
    split at h
    · cases h; simpa [begins] using he
    · cases h
  | react s' lv K =>
    simp only [stepA] at h
    split at h
    · cases h
    · split at h
      · split at h <;> cases h
        · simpa [begins] using he
        · simpa [begins, startJobs_early] using he
      · cases h
  | leave s' K =>
    simp only [stepA] at h
    split at h
    · cases h; simpa [begins] using he
    · cases h
  | finish s' r =>
    simp only [stepA] at h
    split at h
    · cases h
      by_cases hj : j = s'
      · subst hj; revert he; cases r <;> split <;> simp [setAt, early]
      · revert he; split <;> simp [setAt, hj, begins]
    · cases h
  | tick d =>
    simp only [stepA] at h
    split at h
    · cases h; simpa [begins] using he
    · cases h
  | extCancel =>
    simp only [stepA] at h
    split at h
    · cases h; simpa [begins] using he
    · cases h

/-- a run that began stays begun -/
theorem step_pc_mono (c : Cfg) (st st' : StA) (e : EvA) (h : stepA c st e = some st') (s : Nat)
    (hs : st.pc s ≠ .notBegun) : st'.pc s ≠ .notBegun := by
  cases e with
  | runBegin =>
    simp only [stepA] at h
    split at h
    · cases h
      rw [beginRun_pc]; split
      · split <;> simp
      · exact hs
    · cases h
  | grant k =>
    simp only [stepA] at h
    split at h
    · split at h <;> cases h
      · rw [ite_release_pc, beginRun_pc]; split
        · split <;> simp
        · exact hs
      · exact hs
    · cases h
  | bodyEnd k ok =>
    simp only [stepA] at h
    split at h
    · cases h; exact hs
    · cases h
  | cancelAck k =>
    simp only [stepA] at h
    split at h
    · cases h; split <;> exact hs
    · cases h
  | waitReturn s' =>
    simp only [stepA] at h
    split at h
    · cases h; exact hs
    · cases h
  | react s' lv K =>
    simp only [stepA] at h
    split at h
    · cases h
    · split at h
      · split at h <;> cases h
        · simp only [setAt]; split
          · simp
          · exact hs
        · exact hs
      · cases h
  | leave s' K =>
    simp only [stepA] at h
    split at h
    · cases h
      simp only [setAt]; split
      · simp
      · exact hs
    · cases h
  | finish s' r =>
    simp only [stepA] at h
    split at h
    · cases h
      have : setAt st.pc s' PcA.over s ≠ .notBegun := by
        simp only [setAt]; split
        · simp
        · exact hs
      split <;> exact this
    · cases h
  | tick d =>
    simp only [stepA] at h
    split at h
    · cases h; exact hs
    · cases h
  | extCancel =>
    simp only [stepA] at h
    split at h
    · cases h; exact hs
    · cases h

/-- C01, step: a job (other than the top) leaves `idle` only as a job of a run that has begun, with all its
    requirements finished -/
theorem step_leave_idle (c : Cfg) (st st' : StA) (e : EvA) (h : stepA c st e = some st') (k : Nat)
    (hk : k ≠ 0) (hi : st.ph k = .idle) (hn : st'.ph k ≠ .idle) :
    st'.pc (c.parent k) ≠ .notBegun ∧ ∀ r ∈ c.req k, isDone st' r = true := by
  cases e with
  | runBegin =>
    simp only [stepA] at h
    split at h
    · cases h
      have := beginRun_leave_idle c _ 0 k (by simpa [setAt, hk] using hi) hn hk
      rw [this.1, this.2]
      exact ⟨beginRun_pc_self _ _ _, by simp⟩
    · cases h
  | grant j =>
    simp only [stepA] at h
    split at h
    · next hg =>
      have hkj : k ≠ j := by
        intro hkj; subst hkj; rw [hi] at hg; simp at hg
      split at h <;> cases h
      · rw [ite_release_ph] at hn
        rw [ite_release_pc]
        have := beginRun_leave_idle c _ j k (by simpa [setAt, hkj] using hi) hn hkj
        rw [this.1, this.2]
        exact ⟨beginRun_pc_self _ _ _, by simp⟩
      · simp [setAt, hkj, hi] at hn
    · cases h
  | bodyEnd j ok =>
    simp only [stepA] at h
    split at h
    · next hg =>
      have hkj : k ≠ j := by
        intro hkj; subst hkj; rw [hi] at hg; simp at hg
      cases h
      simp [setAt, hkj, hi] at hn
    · cases h
  | cancelAck j =>
    simp only [stepA] at h
    split at h
    · next hg =>
      have hkj : k ≠ j := by
        intro hkj; subst hkj; rw [hi] at hg; simp at hg
      cases h
      revert hn; split <;> simp [setAt, hkj, hi]
    · cases h
  | waitReturn s' =>
    simp only [stepA] at h
    split at h
    · cases h; exact absurd hi hn
    · cases h
  | react s' lv K =>
    simp only [stepA] at h
    split at h
    · cases h
    · next D hD =>
      split at h
      · next hg =>
        split at h <;> cases h
        · exact absurd hi hn
        · rw [startJobs_ph] at hn
          split at hn
          · next hm =>
            have h1 := hm.1
            simp only [startCands, List.mem_filter, Bool.and_eq_true, List.all_eq_true] at h1
            rw [(mem_children h1.1).2.2]
            refine ⟨by simp [hg.2.2.1], ?_⟩
            intro r hr
            simp only [isDone, startJobs_isDone]
            exact h1.2.2 r hr
          · exact absurd hi hn
      · cases h
  | leave s' K =>
    simp only [stepA] at h
    split at h
    · cases h; exact absurd hi hn
    · cases h
  | finish s' r =>
    simp only [stepA] at h
    split at h
    · next hg =>
      have hkj : k ≠ s' := by
        intro hkj; subst hkj; rw [hi] at hg; simp at hg
      cases h
      revert hn; split <;> simp [setAt, hkj, hi]
    · cases h
  | tick d =>
    simp only [stepA] at h
    split at h
    · cases h; exact absurd hi hn
    · cases h
  | extCancel =>
    simp only [stepA] at h
    split at h
    · cases h; exact absurd hi hn
    · cases h

end AJ.Proofs.HistA
