/-
  C10 (d), "every job runs at the same times as in the flattened graph" — the link between histories and the
  start-time equations of `Proofs/FlatEq.lean`.

  `timingOf c evs` reads off an accepted history `evs` the instant at which each job began (its body, or — for a
  scheduler — its run) and the instant at which it ended; `run_sat`: in a complete history of a configuration without
  window, timeout or forever job, in which no body raises and the shutdown handlers take no time, these instants
  satisfy the start-time equations `Timing.Sat` for the durations `durOf c evs` of the bodies (`E j - B j`); every
  job did begin and end (`run_all_begin_end`) and `B j ≤ E j` (`run_begin_le_end`).
  Core Lean only.
-/
import AJ.Proofs.FlatEq
import AJ.Proofs.FlatBAux
namespace AJ.Proofs.FlatB
open AJ.Run AJ.Flat AJ.Full AJ.Proofs.CoreA AJ.Proofs.CoreB AJ.Proofs.ProgB AJ.Proofs.ExitB AJ.Proofs.BoundB AJ.Proofs.FlatEq
set_option linter.unusedVariables false
set_option linter.unusedSimpArgs false
set_option linter.unusedSectionVars false

/-! ### the instants read off a history: `firstNow`, `beganP`, `finished`, `endedP`, `timingOf`, `durOf` are in
  `Model/Flat.lean` (the driver executes them) -/

/-! ### `firstNow`: generic facts -/

theorem firstNow_nil (c : Cfg) (P : StB → Bool) (st : StB) :
    firstNow c P st [] = if P st then some st.a.now else none := by
  simp only [firstNow]

theorem firstNow_cons (c : Cfg) (P : StB → Bool) (st : StB) (e : EvB) (es : List EvB) :
    firstNow c P st (e :: es) =
      if P st then some st.a.now else
      match stepB c st e with
      | some st' => firstNow c P st' es
      | none => none := by
  -- (the `match` of this statement and that of the definition, now in another file, are two matchers)
  simp only [firstNow]; rfl

theorem firstNow_pos (c : Cfg) (P : StB → Bool) (st : StB) (evs : List EvB) (h : P st = true) :
    firstNow c P st evs = some st.a.now := by
  cases evs <;> simp [firstNow, h]

theorem firstNow_neg (c : Cfg) (P : StB → Bool) (st st' : StB) (e : EvB) (es : List EvB) (h : P st = false)
    (hs : stepB c st e = some st') : firstNow c P st (e :: es) = firstNow c P st' es := by
  simp [firstNow, h, hs]

/-- a value of `firstNow`: `P` holds now, or the history goes on -/
theorem firstNow_some (c : Cfg) (P : StB → Bool) (st : StB) (evs : List EvB) (t : Nat)
    (h : firstNow c P st evs = some t) :
    (P st = true ∧ t = st.a.now) ∨
    (P st = false ∧ ∃ e es st', evs = e :: es ∧ stepB c st e = some st' ∧ firstNow c P st' es = some t) := by
  cases hP : P st with
  | true => rw [firstNow_pos c P st evs hP] at h; cases h; exact Or.inl ⟨rfl, rfl⟩
  | false =>
    right
    refine ⟨rfl, ?_⟩
    cases evs with
    | nil => simp [firstNow, hP] at h
    | cons e es =>
      cases hs : stepB c st e with
      | none => simp [firstNow, hP, hs] at h
      | some st' => rw [firstNow_neg c P st st' e es hP hs] at h; exact ⟨e, es, st', rfl, hs, h⟩

/-- the clock never goes back -/
theorem firstNow_ge (c : Cfg) (P : StB → Bool) (evs : List EvB) :
    ∀ (st : StB) (t : Nat), firstNow c P st evs = some t → st.a.now ≤ t := by
  induction evs with
  | nil =>
    intro st t h
    rcases firstNow_some c P st [] t h with ⟨_, rfl⟩ | ⟨_, e, es, st', he, _⟩
    · exact Nat.le_refl _
    · cases he
  | cons e es ih =>
    intro st t h
    rcases firstNow_some c P st _ t h with ⟨_, rfl⟩ | ⟨_, e', es', st', he, hs, h'⟩
    · exact Nat.le_refl _
    · cases he
      have := ih st' t h'
      have := (step_facts c st st' e hs).2.2.2
      omega

/-- what holds at the end of the history held for the first time somewhere -/
theorem firstNow_exists (c : Cfg) (P : StB → Bool) (evs : List EvB) :
    ∀ (st fin : StB), acceptB c st evs = some fin → P fin = true → ∃ t, firstNow c P st evs = some t := by
  induction evs with
  | nil =>
    intro st fin h hP
    simp only [acceptB] at h; cases h
    exact ⟨_, firstNow_pos c P st [] hP⟩
  | cons e es ih =>
    intro st fin h hP
    cases hPs : P st with
    | true => exact ⟨_, firstNow_pos c P st _ hPs⟩
    | false =>
      simp only [acceptB] at h
      split at h
      · rename_i st' hs
        rw [firstNow_neg c P st st' e es hPs hs]
        exact ih st' fin h hP
      · cases h

/-- `x` is a state the run of `evs` from `st0` goes through, `rest` being what remains of the history there -/
def Visits (c : Cfg) (st0 : StB) (evs : List EvB) (x : StB) (rest : List EvB) : Prop :=
  ∃ pre, evs = pre ++ rest ∧ acceptB c st0 pre = some x

theorem visits_refl (c : Cfg) (st : StB) (evs : List EvB) : Visits c st evs st evs := ⟨[], rfl, rfl⟩

theorem visits_step {c : Cfg} {st st' : StB} {e : EvB} {es : List EvB} {x : StB} {rest : List EvB}
    (hs : stepB c st e = some st') (h : Visits c st' es x rest) : Visits c st (e :: es) x rest := by
  obtain ⟨pre, h1, h2⟩ := h
  exact ⟨e :: pre, by rw [h1]; rfl, by simp only [acceptB, hs]; exact h2⟩

/-- (≥) if `Q` implies `P` in every state of the run, `P` holds first no later than `Q` -/
theorem firstNow_le_of_imp (c : Cfg) (P Q : StB → Bool) (evs : List EvB) :
    ∀ (st : StB) (tq : Nat), (∀ x rest, Visits c st evs x rest → Q x = true → P x = true) →
      firstNow c Q st evs = some tq → ∃ tp, firstNow c P st evs = some tp ∧ tp ≤ tq := by
  induction evs with
  | nil =>
    intro st tq himp hq
    rcases firstNow_some c Q st [] tq hq with ⟨hQ, rfl⟩ | ⟨_, e, es, st', he, _⟩
    · exact ⟨_, firstNow_pos c P st [] (himp st [] (visits_refl c st []) hQ), Nat.le_refl _⟩
    · cases he
  | cons e es ih =>
    intro st tq himp hq
    cases hP : P st with
    | true => exact ⟨_, firstNow_pos c P st _ hP, firstNow_ge c Q _ st tq hq⟩
    | false =>
      rcases firstNow_some c Q st _ tq hq with ⟨hQ, _⟩ | ⟨_, e', es', st', he, hs, h'⟩
      · rw [himp st _ (visits_refl c st _) hQ] at hP; cases hP
      · cases he
        rw [firstNow_neg c P st st' e es hP hs]
        exact ih st' tq (fun x rest hv => himp x rest (visits_step hs hv)) h'

theorem isTick_true {e : EvB} (h : isTick e = true) : ∃ d, e = .tick d := by
  cases e <;> simp [isTick] at h
  exact ⟨_, rfl⟩

/-- while `P` holds and `Q` does not, and `P` implies `Q` wherever the clock advances, the clock stands still -/
theorem firstNow_stuck (c : Cfg) (P Q : StB → Bool)
    (hstab : ∀ x e x', stepB c x e = some x' → P x = true → P x' = true) (evs : List EvB) :
    ∀ (st : StB) (tq : Nat), P st = true →
      (∀ x d rest, Visits c st evs x (.tick d :: rest) → P x = true → Q x = true) →
      firstNow c Q st evs = some tq → tq = st.a.now := by
  induction evs with
  | nil =>
    intro st tq hP htick hq
    rcases firstNow_some c Q st [] tq hq with ⟨_, rfl⟩ | ⟨_, e, es, st', he, _⟩
    · rfl
    · cases he
  | cons e es ih =>
    intro st tq hP htick hq
    rcases firstNow_some c Q st _ tq hq with ⟨_, rfl⟩ | ⟨hQ, e', es', st', he, hs, h'⟩
    · rfl
    · cases he
      cases ht : isTick e with
      | true =>
        obtain ⟨d, rfl⟩ := isTick_true ht
        rw [htick st d es (visits_refl c st _) hP] at hQ; cases hQ
      | false =>
        have h1 := ih st' tq (hstab st e st' hs hP) (fun x d rest hv => htick x d rest (visits_step hs hv)) h'
        rw [h1]
        exact LatC.now_step c st st' e hs ht

/-- (≤) if the stable `P` implies `Q` in every state of the run in which the clock advances, `Q` holds first no
    later than `P` -/
theorem firstNow_le_of_tick (c : Cfg) (P Q : StB → Bool)
    (hstab : ∀ x e x', stepB c x e = some x' → P x = true → P x' = true) (evs : List EvB) :
    ∀ (st : StB) (tp tq : Nat),
      (∀ x d rest, Visits c st evs x (.tick d :: rest) → P x = true → Q x = true) →
      firstNow c P st evs = some tp → firstNow c Q st evs = some tq → tq ≤ tp := by
  induction evs with
  | nil =>
    intro st tp tq htick hp hq
    rcases firstNow_some c Q st [] tq hq with ⟨_, rfl⟩ | ⟨_, e, es, st', he, _⟩
    · exact firstNow_ge c P _ st tp hp
    · cases he
  | cons e es ih =>
    intro st tp tq htick hp hq
    rcases firstNow_some c Q st _ tq hq with ⟨_, rfl⟩ | ⟨hQ, e', es', st', he, hs, hq'⟩
    · exact firstNow_ge c P _ st tp hp
    · cases he
      rcases firstNow_some c P st _ tp hp with ⟨hP, rfl⟩ | ⟨hP, e', es', st'', he, hs', hp'⟩
      · exact Nat.le_of_eq (firstNow_stuck c P Q hstab _ st tq hP htick hq)
      · cases he
        rw [hs] at hs'; cases hs'
        exact ih st' tp tq (fun x d rest hv => htick x d rest (visits_step hs hv)) hp' hq'

/-- once the stable `P1` holds, `P1 ∧ P2` holds first when `P2` does -/
theorem firstNow_and_left (c : Cfg) (P1 P2 : StB → Bool)
    (hstab : ∀ x e x', stepB c x e = some x' → P1 x = true → P1 x' = true) (evs : List EvB) :
    ∀ (st : StB), P1 st = true → firstNow c (fun x => P1 x && P2 x) st evs = firstNow c P2 st evs := by
  induction evs with
  | nil => intro st h1; simp [firstNow, h1]
  | cons e es ih =>
    intro st h1
    rw [firstNow_cons, firstNow_cons]
    simp only [h1, Bool.true_and]
    split
    · rfl
    · cases hs : stepB c st e with
      | none => rfl
      | some st' => exact ih st' (hstab st e st' hs h1)

theorem firstNow_congr (c : Cfg) (P Q : StB → Bool) (h : ∀ x, P x = Q x) (st : StB) (evs : List EvB) :
    firstNow c P st evs = firstNow c Q st evs := by
  have : P = Q := funext h
  rw [this]

/-- the conjunction of two stable conditions holds first when the later of the two does -/
theorem firstNow_and (c : Cfg) (P1 P2 : StB → Bool)
    (hstab1 : ∀ x e x', stepB c x e = some x' → P1 x = true → P1 x' = true)
    (hstab2 : ∀ x e x', stepB c x e = some x' → P2 x = true → P2 x' = true) (evs : List EvB) :
    ∀ (st : StB) (t1 t2 : Nat), firstNow c P1 st evs = some t1 → firstNow c P2 st evs = some t2 →
      firstNow c (fun x => P1 x && P2 x) st evs = some (max t1 t2) := by
  induction evs with
  | nil =>
    intro st t1 t2 h1 h2
    rcases firstNow_some c P1 st [] t1 h1 with ⟨hP1, rfl⟩ | ⟨_, e, es, st', he, _⟩
    · rcases firstNow_some c P2 st [] t2 h2 with ⟨hP2, rfl⟩ | ⟨_, e, es, st', he, _⟩
      · simp [firstNow, hP1, hP2]
      · cases he
    · cases he
  | cons e es ih =>
    intro st t1 t2 h1 h2
    rcases firstNow_some c P1 st _ t1 h1 with ⟨hP1, rfl⟩ | ⟨hP1, e', es', st', he, hs, h1'⟩
    · rw [firstNow_and_left c P1 P2 hstab1 _ st hP1, h2]
      have := firstNow_ge c P2 _ st t2 h2
      rw [Nat.max_eq_right this]
    · cases he
      rcases firstNow_some c P2 st _ t2 h2 with ⟨hP2, rfl⟩ | ⟨hP2, e', es', st'', he, hs', h2'⟩
      · have hc : firstNow c (fun x => P1 x && P2 x) st (e :: es) = firstNow c (fun x => P2 x && P1 x) st (e :: es) :=
          firstNow_congr c _ _ (fun x => Bool.and_comm _ _) st _
        rw [hc, firstNow_and_left c P2 P1 hstab2 _ st hP2, h1]
        have := firstNow_ge c P1 _ st t1 h1
        rw [Nat.max_eq_left this]
      · cases he
        rw [hs] at hs'; cases hs'
        rw [firstNow_neg c _ st st' e es (by simp [hP1]) hs]
        exact ih st' t1 t2 h1' h2'

theorem foldl_max (l : List Nat) : ∀ b : Nat, l.foldl max b = max b (l.foldl max 0) := by
  induction l with
  | nil => intro b; simp
  | cons a l ih =>
    intro b
    simp only [List.foldl_cons]
    rw [ih (max b a), ih (max 0 a)]
    omega

theorem sup_nil : sup [] = 0 := rfl

theorem sup_cons (a : Nat) (l : List Nat) : sup (a :: l) = max a (sup l) := by
  unfold sup
  simp only [List.foldl_cons]
  rw [foldl_max]
  omega

/-- a finite conjunction of stable conditions, each of which holds at some point, holds first when the last of them
    does -/
theorem firstNow_all (c : Cfg) (F : Nat → StB → Bool)
    (hstab : ∀ r x e x', stepB c x e = some x' → F r x = true → F r x' = true)
    (st : StB) (evs : List EvB) (l : List Nat) :
    (∀ r ∈ l, ∃ t, firstNow c (F r) st evs = some t) →
      firstNow c (fun x => l.all (fun r => F r x)) st evs =
        some (max st.a.now (sup (l.map fun r => (firstNow c (F r) st evs).getD 0))) := by
  induction l with
  | nil =>
    intro _
    rw [firstNow_pos c _ st evs (by simp)]
    simp [sup_nil]
  | cons a l ih =>
    intro hex
    obtain ⟨ta, hta⟩ := hex a List.mem_cons_self
    have h2 := ih (fun r hr => hex r (List.mem_cons_of_mem _ hr))
    have hstabl : ∀ x e x', stepB c x e = some x' → (l.all fun r => F r x) = true → (l.all fun r => F r x') = true := by
      intro x e x' hs hall
      rw [List.all_eq_true] at hall ⊢
      exact fun r hr => hstab r x e x' hs (hall r hr)
    have h3 := firstNow_and c (F a) (fun x => l.all fun r => F r x) (hstab a) hstabl evs st _ _ hta h2
    have hc : firstNow c (fun x => (a :: l).all fun r => F r x) st evs =
        firstNow c (fun x => F a x && l.all fun r => F r x) st evs :=
      firstNow_congr c _ _ (fun x => by simp [List.all_cons]) st evs
    rw [hc, h3, List.map_cons, sup_cons, hta]
    simp only [Option.getD_some]
    congr 1
    omega

/-! ### the conditions are stable -/

theorem beganP_stable (c : Cfg) (j : Nat) (x : StB) (e : EvB) (x' : StB) (h : stepB c x e = some x')
    (hb : beganP j x = true) : beganP j x' = true := by
  unfold beganP at *
  rcases stepB_refines c x x' e h with heq | ⟨ea, hea⟩
  · rw [heq]; exact hb
  · exact (step_monotone c _ _ ea hea j).2.2.1 hb

theorem finished_iff {p : Ph} : finished p = true ↔ p.isDone = true ∨ p = .cancelled := by
  cases p <;> simp [finished, Ph.isDone]

theorem endedP_stable (c : Cfg) (j : Nat) (x : StB) (e : EvB) (x' : StB) (h : stepB c x e = some x')
    (hb : endedP j x = true) : endedP j x' = true := by
  unfold endedP at *
  rw [(step_facts c x x' e h).1 j (finished_iff.1 hb)]; exact hb

/-! ### what holds in the states of a history in which nothing fails -/

/-- a state reached by a history of a plain configuration in which no body raises -/
structure Good (c : Cfg) (st : StB) : Prop where
  reach : ∃ pre, acceptB c StB.init pre = some st
  A : InvA c st.a
  B : InvB c st
  P : InvP c st
  E : ExitInv c st
  clean : Clean c st

theorem ended_iff_done {c : Cfg} {st : StB} (hC : Clean c st) (j : Nat) :
    endedP j st = true ↔ (st.a.ph j).isDone = true := by
  unfold endedP
  rw [finished_iff]
  constructor
  · rintro (h | h)
    · exact h
    · exact absurd h (hC.noCan j)
  · exact Or.inl

section facts
variable {c : Cfg} (hwf : c.wf = true) {st : StB} (hG : Good c st)
include hwf hG

/-- the body has begun: the task is executing or done -/
theorem beganP_iff (j : Nat) : beganP j st = true ↔ st.a.ph j = .running ∨ (st.a.ph j).isDone = true := by
  have hA := hG.A
  unfold beganP
  constructor
  · intro hb
    have h1 := hA.rflagOff j
    have h2 := hG.clean.noCan j
    cases hph : st.a.ph j <;> simp_all [Ph.isDone]
  · exact hA.rflagOn j

/-- a scheduler whose run has begun is in its main loop, or has left it with all its jobs done -/
theorem sched_cases (s : Nat) (hs : c.isSched s = true) (hb : beganP s st = true) :
    st.pcB s = .loop ∨ (st.pcB s).exitOf = some .success ∨ st.pcB s = .over := by
  have hP := hG.P
  rcases (beganP_iff hwf hG s).1 hb with h | h
  · have := hP.runPc s hs h
    cases hpc : st.pcB s with
    | notBegun => exact absurd hpc this.1
    | over => exact absurd hpc this.2
    | loop => exact Or.inl rfl
    | tidy x => have := hG.clean.okExit s x (by simp [hpc, PcB.exitOf]); subst this; simp [PcB.exitOf]
    | shut x => have := hG.clean.okExit s x (by simp [hpc, PcB.exitOf]); subst this; simp [PcB.exitOf]
    | shutTidy x => have := hG.clean.okExit s x (by simp [hpc, PcB.exitOf]); subst this; simp [PcB.exitOf]
  · exact Or.inr (Or.inr (hG.clean.doneOver s hs h))

/-- for a scheduler "begun" is: its `co_run` is no longer `notBegun` -/
theorem beganP_sched (s : Nat) (hs : c.isSched s = true) : beganP s st = true ↔ st.pcB s ≠ .notBegun := by
  have hA := hG.A
  have hB := hG.B
  constructor
  · intro hb
    rcases sched_cases hwf hG s hs hb with h | h | h <;> intro hn <;> simp [hn, PcB.exitOf] at h
  · intro hn
    rw [beganP_iff hwf hG]
    have h1 := hA.notBegun s hs
    have h2 := (hB.pcNotBegun s).2
    have h3 := hG.clean.noCan s
    cases hph : st.a.ph s <;> simp_all [Ph.isDone]

/-- a scheduler that is over is a finished job (as `NestB.over_is_finished`, the top-level scheduler included) -/
theorem over_finished (s : Nat) (hs : c.isSched s = true) (ho : st.pcB s = .over) : endedP s st = true := by
  have hA := hG.A
  have hB := hG.B
  have hP := hG.P
  have hpa : st.a.pc s = .over := (hB.pcOver s).1 ho
  unfold endedP
  cases hph : st.a.ph s with
  | done r => rfl
  | cancelled => rfl
  | idle => have := hA.notBegun s hs (Or.inl hph); rw [hpa] at this; cases this
  | queued => have := hA.notBegun s hs (Or.inr hph); rw [hpa] at this; cases this
  | running => exact absurd ho (hP.runPc s hs hph).2

/-- for a scheduler "ended" is: its `co_run` is over -/
theorem endedP_sched (s : Nat) (hs : c.isSched s = true) : endedP s st = true ↔ st.pcB s = .over :=
  ⟨fun h => hG.clean.doneOver s hs ((ended_iff_done hG.clean s).1 h), over_finished hwf hG s hs⟩

/-- what has ended had begun -/
theorem ended_began (j : Nat) (h : endedP j st = true) : beganP j st = true :=
  (beganP_iff hwf hG j).2 (Or.inr ((ended_iff_done hG.clean j).1 h))

/-- the jobs of a run that has left its main loop are all done -/
theorem left_children_done (hplain : Plain c) (s : Nat)
    (h : (st.pcB s).exitOf = some .success ∨ st.pcB s = .over) :
    ∀ k ∈ c.children s, (st.a.ph k).isDone = true := by
  have hE := hG.E
  intro k hk
  rcases h with h | h
  · exact ((hE.successMeans s h).1 k hk (hplain k (CoreB.mem_children.1 hk).1).2.2).1
  · exact hG.clean.overDone s h k hk

/-- (≥, begin) a job begins only after its scheduler began and its requirements ended -/
theorem began_imp (j : Nat) (hj0 : 0 < j) (hjn : j < c.n) (hb : beganP j st = true) :
    beganP (c.parent j) st = true ∧ ∀ r ∈ c.req j, endedP r st = true := by
  have hA := hG.A
  have hB := hG.B
  have w := CoreA.wf_of hwf
  have hni : st.a.ph j ≠ .idle := by
    rcases (beganP_iff hwf hG j).1 hb with h | h <;> intro hi <;> simp [hi, Ph.isDone] at h
  constructor
  · rw [beganP_sched hwf hG _ (w.parentSched j hj0 hjn)]
    intro hn
    exact hA.parentBegun hj0 hjn hni ((hB.pcNotBegun _).1 hn)
  · intro r hr
    exact (ended_iff_done hG.clean r).2 (hA.reqsDone j hj0 hjn hni r hr)

/-- (≥, end) a scheduler ends only after it began and its jobs ended -/
theorem ended_imp (hplain : Plain c) (s : Nat) (hs : c.isSched s = true) (he : endedP s st = true) :
    beganP s st = true ∧ ∀ k ∈ c.children s, endedP k st = true := by
  refine ⟨ended_began hwf hG s he, ?_⟩
  intro k hk
  exact (ended_iff_done hG.clean k).2
    (left_children_done hwf hG hplain s (Or.inr ((endedP_sched hwf hG s hs).1 he)) k hk)

/-- (≤, begin) where the clock may advance, a job whose scheduler has begun and whose requirements have ended has
    begun -/
theorem quiet_began (hplain : Plain c) (hq : quietB c st = true) (k : Nat) (hk0 : 0 < k) (hkn : k < c.n)
    (hb : beganP (c.parent k) st = true) (hr : ∀ r ∈ c.req k, endedP r st = true) : beganP k st = true := by
  have hA := hG.A
  have hB := hG.B
  have w := CoreA.wf_of hwf
  have hsn := w.parentLtN hk0 hkn
  have hs := w.parentSched k hk0 hkn
  have hk : k ∈ c.children (c.parent k) := CoreA.mem_children.2 ⟨hkn, by omega, rfl⟩
  rw [beganP_iff hwf hG]
  rcases sched_cases hwf hG _ hs hb with hl | hx | hx
  · have hQs := (quietB_iff c st).1 hq _ hsn
    have hQk := (quietB_iff c st).1 hq k hkn
    have hds : doneSet c st.a (c.parent k) = [] := by
      cases hD : doneSet c st.a (c.parent k) with
      | nil => rfl
      | cons a l => exact absurd ⟨hs, hl, Or.inl (by simp [hD])⟩ hQs.q3
    have hrx : st.a.rx (c.parent k) = none := by
      cases hD : st.a.rx (c.parent k) with
      | none => rfl
      | some D => exact absurd ⟨hs, hl, Or.inr (by simp [hD])⟩ hQs.q3
    have h3 := hG.clean.noCan k
    cases hph : st.a.ph k with
    | running => exact Or.inl rfl
    | done r => exact Or.inr rfl
    | cancelled => exact absurd hph h3
    | idle =>
      exfalso
      obtain ⟨r, hrm, hnr⟩ := hA.eager _ ((hB.pcLoop _).1 hl) k hk hph
      have hdn := (ended_iff_done hG.clean r).1 (hr r hrm)
      have hrc := w.req_child hk hrm
      cases hdl : st.a.deliv r with
      | true => exact hnr ⟨hdn, hdl, by simp [hrx]⟩
      | false =>
        have : r ∈ doneSet c st.a (c.parent k) := CoreA.mem_doneSet.2 ⟨hrc, Or.inl hdn, hdl⟩
        rw [hds] at this; cases this
    | queued =>
      exfalso
      refine hQk.q1 ⟨hk0, hph, Or.inr ?_⟩
      simp [slotFree, (hplain _ hsn).1]
  · exact Or.inr (left_children_done hwf hG hplain _ (Or.inl hx) k hk)
  · exact Or.inr (left_children_done hwf hG hplain _ (Or.inr hx) k hk)

/-- (≤, end) where the clock may advance and no shutdown handler is pending, a scheduler that has begun and whose
    jobs have ended has ended -/
theorem quiet_ended (hq : quietB c st = true) (s : Nat) (hsn : s < c.n) (hs : c.isSched s = true)
    (hb : beganP s st = true) (hk : ∀ k ∈ c.children s, endedP k st = true)
    (hh : ∀ k, k < c.n → st.hph k ≠ .hactive) : endedP s st = true := by
  apply over_finished hwf hG s hs
  obtain ⟨pre, hacc⟩ := hG.reach
  refine NestB.no_end_latency c hwf pre st hacc hq s hsn hs ((beganP_sched hwf hG s hs).1 hb) ?_ ?_
  · intro k hkm
    have := hk k hkm
    unfold endedP at this
    cases hph : st.a.ph k <;> simp [hph, finished, NestB.Ph.finished] at this ⊢
  · intro k hkm
    exact hh k (CoreB.mem_children.1 hkm).1

end facts

/-! ### the key lemma -/

/-- Let `Q`, `P0` and the `F r` (`r ∈ l`) be conditions that all hold at the end of an accepted history, `P0` and
    the `F r` being stable.  If in every state of the run `Q` implies `P0` and every `F r`, and in every state of the
    run in which the clock advances `P0` and all the `F r` together imply `Q`, then `Q` holds for the first time at the
    instant the last of `P0`, `F r` (`r ∈ l`) does. -/
theorem firstNow_eq_max (c : Cfg) (evs : List EvB) (fin : StB) (hacc : acceptB c StB.init evs = some fin)
    (P0 : StB → Bool) (F : Nat → StB → Bool) (l : List Nat) (Q : StB → Bool)
    (stab0 : ∀ x e x', stepB c x e = some x' → P0 x = true → P0 x' = true)
    (stabF : ∀ r x e x', stepB c x e = some x' → F r x = true → F r x' = true)
    (hfin0 : P0 fin = true) (hfinF : ∀ r ∈ l, F r fin = true) (hfinQ : Q fin = true)
    (himp : ∀ x rest, Visits c StB.init evs x rest → Q x = true → P0 x = true ∧ ∀ r ∈ l, F r x = true)
    (htick : ∀ x d rest, Visits c StB.init evs x (.tick d :: rest) → P0 x = true → (∀ r ∈ l, F r x = true) →
      Q x = true) :
    (firstNow c Q StB.init evs).getD 0 =
      max ((firstNow c P0 StB.init evs).getD 0) (sup (l.map fun r => (firstNow c (F r) StB.init evs).getD 0)) := by
  obtain ⟨t0, h0⟩ := firstNow_exists c P0 evs _ _ hacc hfin0
  obtain ⟨tq, hq⟩ := firstNow_exists c Q evs _ _ hacc hfinQ
  have hall := firstNow_all c F stabF StB.init evs l
    (fun r hr => firstNow_exists c (F r) evs _ _ hacc (hfinF r hr))
  have stabl : ∀ x e x', stepB c x e = some x' → (l.all fun r => F r x) = true → (l.all fun r => F r x') = true := by
    intro x e x' hs ha
    rw [List.all_eq_true] at ha ⊢
    exact fun r hr => stabF r x e x' hs (ha r hr)
  have hP := firstNow_and c P0 (fun x => l.all fun r => F r x) stab0 stabl evs StB.init _ _ h0 hall
  have stabP : ∀ x e x', stepB c x e = some x' → (P0 x && l.all fun r => F r x) = true →
      (P0 x' && l.all fun r => F r x') = true := by
    intro x e x' hs ha
    rw [Bool.and_eq_true] at ha ⊢
    exact ⟨stab0 x e x' hs ha.1, stabl x e x' hs ha.2⟩
  obtain ⟨tp, hp, hle⟩ := firstNow_le_of_imp c (fun x => P0 x && l.all fun r => F r x) Q evs StB.init tq
    (by
      intro x rest hv hQ
      obtain ⟨h1, h2⟩ := himp x rest hv hQ
      simp only [Bool.and_eq_true, List.all_eq_true]
      exact ⟨h1, h2⟩) hq
  have hge := firstNow_le_of_tick c (fun x => P0 x && l.all fun r => F r x) Q stabP evs StB.init tp tq
    (by
      intro x d rest hv hP
      simp only [Bool.and_eq_true, List.all_eq_true] at hP
      exact htick x d rest hv hP.1 hP.2) hp hq
  rw [hP] at hp
  cases hp
  rw [hq, h0]
  have hnow : StB.init.a.now = 0 := rfl
  rw [hnow] at hle hge
  simp only [Option.getD_some]
  omega

/-! ### the states of the history -/

theorem good_of_visits (c : Cfg) (hwf : c.wf = true) (hplain : Plain c) (evs : List EvB)
    (hok : ∀ j ok, EvB.bodyEnd j ok ∈ evs → ok = true) (hnf : ∀ s, EvB.orchFail s ∉ evs) (hnx : EvB.extCancel ∉ evs) (x : StB) (rest : List EvB)
    (hv : Visits c StB.init evs x rest) : Good c x := by
  obtain ⟨pre, he, hacc⟩ := hv
  exact ⟨⟨pre, hacc⟩, invA_of_reachB c hwf pre x hacc, invB_reach c hwf pre x hacc, invP_reach c hwf pre x hacc,
    exitInv_reach c hwf pre x hacc,
    clean_reach c hwf hplain pre x (fun j ok hm => hok j ok (by rw [he]; exact List.mem_append_left _ hm))
      (fun s hm => hnf s (by rw [he]; exact List.mem_append_left _ hm))
      (fun hm => hnx (by rw [he]; exact List.mem_append_left _ hm)) hacc⟩

/-- the clock advances in quiet states only -/
theorem quiet_of_visits (c : Cfg) (evs : List EvB) (fin : StB) (hacc : acceptB c StB.init evs = some fin)
    (x : StB) (d : Nat) (rest : List EvB) (hv : Visits c StB.init evs x (.tick d :: rest)) : quietB c x = true := by
  obtain ⟨pre, he, hx⟩ := hv
  rw [he, FinB.acceptB_append, hx] at hacc
  simp only [Option.bind, acceptB] at hacc
  split at hacc
  · rename_i x' hs
    simp only [stepB] at hs
    split at hs
    · rename_i hg; exact hg.1
    · cases hs
  · cases hacc

/-- in a complete run in which nothing fails every job has ended -/
theorem all_ended (c : Cfg) (hwf : c.wf = true) (hplain : Plain c) (st : StB) (hG : Good c st)
    (hover : st.pcB 0 = .over) : ∀ j, j < c.n → endedP j st = true := by
  have w := CoreA.wf_of hwf
  intro j
  induction j using Nat.strongRecOn with
  | _ j ih =>
    intro hjn
    by_cases hj0 : j = 0
    · subst hj0; exact over_finished hwf hG 0 w.sched0 hover
    · have hp := w.parentLt j (by omega) hjn
      have := ih (c.parent j) hp (by omega)
      exact (ended_imp hwf hG hplain _ (w.parentSched j (by omega) hjn) this).2 j
        (CoreA.mem_children.2 ⟨hjn, hj0, rfl⟩)

/-! ### the theorem -/

section main
variable (c : Cfg) (hwf : c.wf = true) (evs : List EvB) (st : StB)
  (h : acceptB c StB.init evs = some st)
  (hover : st.pcB 0 = .over)
  (hplain : ∀ j, j < c.n → c.window j = 0 ∧ c.timeout j = none ∧ c.forever j = false)
  (hok : ∀ j ok, EvB.bodyEnd j ok ∈ evs → ok = true)
  (hnf : ∀ s, EvB.orchFail s ∉ evs) (hnx : EvB.extCancel ∉ evs)
include hwf h hover hplain hok hnf hnx

theorem final_good : Good c st :=
  good_of_visits c hwf hplain evs hok hnf hnx st [] ⟨evs, by simp, h⟩

/-- every job did begin and end: the first state of the run in which it has begun (ended) exists — the default `0`
    of `timingOf` is never used -/
theorem run_all_begin_end (j : Nat) (hj : j < c.n) :
    (∃ t, firstNow c (beganP j) StB.init evs = some t) ∧ (∃ t, firstNow c (endedP j) StB.init evs = some t) := by
  have hG := final_good c hwf evs st h hover hplain hok hnf hnx
  have he := all_ended c hwf hplain st hG hover j hj
  exact ⟨firstNow_exists c _ evs _ _ h (ended_began hwf hG j he), firstNow_exists c _ evs _ _ h he⟩

/-- a job ends after it began -/
theorem run_begin_le_end (j : Nat) (hj : j < c.n) : (timingOf c evs).B j ≤ (timingOf c evs).E j := by
  obtain ⟨_, te, hte⟩ := run_all_begin_end c hwf evs st h hover hplain hok hnf hnx j hj
  obtain ⟨tb, htb, hle⟩ := firstNow_le_of_imp c (beganP j) (endedP j) evs StB.init te
    (fun x rest hv hq => ended_began hwf (good_of_visits c hwf hplain evs hok hnf hnx x rest hv) j hq) hte
  show (firstNow c (beganP j) StB.init evs).getD 0 ≤ (firstNow c (endedP j) StB.init evs).getD 0
  rw [htb, hte]; exact hle

end main

/-- C10 (d): the instants at which the jobs begin and end in a complete history in which nothing fails (no body
    raises: `hok`; no orchestration fails: `hnf`; the top-level task is not cancelled from outside: `hnx`), of a
    configuration without window, timeout or forever job, with shutdown handlers that take no time, satisfy the
    start-time equations -/
theorem run_sat (c : Cfg) (hwf : c.wf = true) (evs : List EvB) (st : StB)
    (h : acceptB c StB.init evs = some st)
    (hover : st.pcB 0 = .over)
    (hplain : ∀ j, j < c.n → c.window j = 0 ∧ c.timeout j = none ∧ c.forever j = false)
    (hok : ∀ j ok, EvB.bodyEnd j ok ∈ evs → ok = true)
    (hnf : ∀ s, EvB.orchFail s ∉ evs) (hnx : EvB.extCancel ∉ evs)
    (hzero : ∀ a d b sta, evs = a ++ EvB.tick d :: b → acceptB c StB.init a = some sta →
               ∀ k, k < c.n → sta.hph k ≠ .hactive)
    : (timingOf c evs).Sat c (durOf c evs) := by
  have w := CoreA.wf_of hwf
  have hG := final_good c hwf evs st h hover hplain hok hnf hnx
  have hend := all_ended c hwf hplain st hG hover
  have hbeg : ∀ j, j < c.n → beganP j st = true := fun j hj => ended_began hwf hG j (hend j hj)
  have hgood := good_of_visits c hwf hplain evs hok hnf hnx
  have hquiet := quiet_of_visits c evs st h
  refine ⟨?_, ?_, ?_⟩
  · -- a job begins when its scheduler has begun and the last of its requirements has ended
    intro j hj0 hjn
    have hreq : ∀ r ∈ c.req j, r < c.n := fun r hr => by have := w.reqLt j hj0 hjn r hr; omega
    exact firstNow_eq_max c evs st h (beganP (c.parent j)) (fun r => endedP r) (c.req j) (beganP j)
      (beganP_stable c _) (fun r => endedP_stable c r)
      (hbeg _ (w.parentLtN hj0 hjn)) (fun r hr => hend r (hreq r hr)) (hbeg j hjn)
      (fun x rest hv hq => began_imp hwf (hgood x rest hv) j hj0 hjn hq)
      (fun x d rest hv h0 hF => quiet_began hwf (hgood x _ hv) hplain (hquiet x d rest hv) j hj0 hjn h0 hF)
  · -- the body of an atomic job lasts `dur j`
    intro j hj0 hjn _
    have := run_begin_le_end c hwf evs st h hover hplain hok hnf hnx j hjn
    unfold durOf
    omega
  · -- a scheduler ends when it has begun and the last of its jobs has ended
    intro s hsn hs
    have hch : ∀ k ∈ c.children s, k < c.n := fun k hk => (CoreA.mem_children.1 hk).1
    exact firstNow_eq_max c evs st h (beganP s) (fun k => endedP k) (c.children s) (endedP s)
      (beganP_stable c _) (fun k => endedP_stable c k)
      (hbeg s hsn) (fun k hk => hend k (hch k hk)) (hend s hsn)
      (fun x rest hv hq => ended_imp hwf (hgood x rest hv) hplain s hs hq)
      (fun x d rest hv h0 hF => by
        obtain ⟨pre, he, hx⟩ := hv
        exact quiet_ended hwf (hgood x _ ⟨pre, he, hx⟩) (hquiet x d rest ⟨pre, he, hx⟩) s hsn hs h0 hF
          (hzero pre d rest x he hx))

/-! ### what `beganP` and `endedP` read

  `B j` is the clock when `grant j` (`runBegin` for the top-level scheduler) is accepted; `E j` is the clock when the
  event that ends the body of `j`, or its nested run, is accepted (`LatC.jobEnds`: `bodyEnd j`; for a scheduler the
  return of its shutdown, or `grant j` / `runBegin` when it has no job); and in the states of a history in which
  nothing fails, for a scheduler, "begun" and "ended" are `pcB ≠ .notBegun` and `pcB = .over`. -/

theorem began_at (c : Cfg) (x x' : StB) (e : EvB) (h : stepB c x e = some x') (j : Nat)
    (h0 : beganP j x = false) (h1 : beganP j x' = true) : e = .grant j ∨ (j = 0 ∧ e = .runBegin) :=
  rflag_back c x x' e h j h0 h1

theorem ended_at (c : Cfg) (x x' : StB) (e : EvB) (h : stepB c x e = some x') (j : Nat)
    (h0 : endedP j x = false) (h1 : endedP j x' = true) (hnc : x'.a.ph j ≠ .cancelled) :
    LatC.jobEnds c x j e = true := by
  cases hw : LatC.jobEnds c x j e with
  | true => rfl
  | false =>
    have hd : (x'.a.ph j).isDone = true := by
      rcases finished_iff.1 h1 with hh | hh
      · exact hh
      · exact absurd hh hnc
    have := LatC.done_back c x x' e h j hw hd
    unfold endedP at h0
    rw [finished_iff.2 (Or.inl this)] at h0; cases h0

theorem reads_meaning (c : Cfg) (hwf : c.wf = true) (evs : List EvB)
    (hplain : ∀ j, j < c.n → c.window j = 0 ∧ c.timeout j = none ∧ c.forever j = false)
    (hok : ∀ j ok, EvB.bodyEnd j ok ∈ evs → ok = true) (hnf : ∀ s, EvB.orchFail s ∉ evs) (hnx : EvB.extCancel ∉ evs)
    (x : StB) (rest : List EvB) (hv : Visits c StB.init evs x rest) :
    (∀ j, (beganP j x = true ↔ x.a.ph j = .running ∨ (x.a.ph j).isDone = true) ∧
          (endedP j x = true ↔ (x.a.ph j).isDone = true)) ∧
    (∀ s, c.isSched s = true → (beganP s x = true ↔ x.pcB s ≠ .notBegun) ∧ (endedP s x = true ↔ x.pcB s = .over)) := by
  have hG := good_of_visits c hwf hplain evs hok hnf hnx x rest hv
  exact ⟨fun j => ⟨beganP_iff hwf hG j, ended_iff_done hG.clean j⟩,
    fun s hs => ⟨beganP_sched hwf hG s hs, endedP_sched hwf hG s hs⟩⟩

/-- nothing fails in such a history: in every state of the run no cancellation is pending, no task has ended
    cancelled or with an exception, and every run that has left its main loop did so for reason `success` -/
theorem nothing_fails (c : Cfg) (hwf : c.wf = true) (evs : List EvB)
    (hplain : ∀ j, j < c.n → c.window j = 0 ∧ c.timeout j = none ∧ c.forever j = false)
    (hok : ∀ j ok, EvB.bodyEnd j ok ∈ evs → ok = true) (hnf : ∀ s, EvB.orchFail s ∉ evs) (hnx : EvB.extCancel ∉ evs)
    (x : StB) (rest : List EvB) (hv : Visits c StB.init evs x rest) :
    (∀ k, x.a.creq k = false) ∧ (∀ k, x.a.ph k ≠ .cancelled) ∧ (∀ k ex, x.a.ph k ≠ .done (.exc ex)) ∧
    (∀ s y, (x.pcB s).exitOf = some y → y = .success) :=
  have hC := (good_of_visits c hwf hplain evs hok hnf hnx x rest hv).clean
  ⟨hC.noCreq, hC.noCan, hC.noExc, hC.okExit⟩

/-! ### decidable forms of the hypotheses on the history (`okCheck`, `nfCheck`, `zeroCheck`: `Model/Flat.lean`) -/

theorem okCheck_spec (evs : List EvB) (h : okCheck evs = true) : ∀ j ok, EvB.bodyEnd j ok ∈ evs → ok = true := by
  intro j ok hm
  exact List.all_eq_true.1 h _ hm

theorem nfCheck_spec (evs : List EvB) (h : nfCheck evs = true) : ∀ s, EvB.orchFail s ∉ evs := by
  intro s hm
  have := List.all_eq_true.1 h _ hm
  cases this

theorem nfCheck_spec_ext (evs : List EvB) (h : nfCheck evs = true) : EvB.extCancel ∉ evs := by
  intro hm
  have := List.all_eq_true.1 h _ hm
  cases this

theorem zeroCheck_spec (c : Cfg) (evs : List EvB) :
    ∀ st, zeroCheck c st evs = true →
      ∀ a d b sta, evs = a ++ EvB.tick d :: b → acceptB c st a = some sta → ∀ k, k < c.n → sta.hph k ≠ .hactive := by
  induction evs with
  | nil => intro st _ a d b sta he; cases a <;> cases he
  | cons e es ih =>
    intro st hz a d b sta he hacc k hk
    simp only [zeroCheck, Bool.and_eq_true] at hz
    cases a with
    | nil =>
      simp only [List.nil_append, List.cons.injEq] at he
      simp only [acceptB, Option.some.injEq] at hacc
      subst hacc
      rw [he.1] at hz
      have := List.all_eq_true.1 hz.1 k (List.mem_range.2 hk)
      simpa using this
    | cons e' a' =>
      simp only [List.cons_append, List.cons.injEq] at he
      obtain ⟨rfl, he⟩ := he
      simp only [acceptB] at hacc
      split at hacc
      · rename_i st1 hs
        rw [hs] at hz
        exact ih st1 hz.2 a' d b sta he hacc k hk
      · cases hacc

/-! ### the hypotheses can be met

  Top-level scheduler `0`; atomic job `1`; nested scheduler `2`, which requires `1`, with atomic jobs `3` and `4`
  (`4` requires `3`); atomic job `5`, which requires `2`.  The bodies of `1`, `3`, `4`, `5` last 2, 3, 1, 4. -/

def exCfg : Cfg :=
  { n := 6, parent := fun j => if j = 3 ∨ j = 4 then 2 else 0, isSched := fun j => j == 0 || j == 2,
    req := fun j => if j = 2 then [1] else if j = 4 then [3] else if j = 5 then [2] else [],
    critical := fun _ => false, forever := fun _ => false, window := fun _ => 0, timeout := fun _ => none,
    sdTimeout := fun _ => none, topPure := true }

def exEvs : List EvB :=
  [.runBegin, .grant 1, .tick 2, .bodyEnd 1 true, .waitReturn 0, .react 0,
   .grant 2, .grant 3, .tick 3, .bodyEnd 3 true, .waitReturn 2, .react 2,
   .grant 4, .tick 1, .bodyEnd 4 true, .waitReturn 2, .react 2,
   .tidyReturn 2 0, .hEnd 3, .hEnd 4, .sdWaitReturn 2 0, .waitReturn 0, .react 0,
   .grant 5, .tick 4, .bodyEnd 5 true, .waitReturn 0, .react 0,
   .tidyReturn 0 0, .hEnd 1, .hStep 2, .hEnd 5, .sdWaitReturn 0 0]

/-- the history is accepted and complete -/
example : exCfg.wf = true ∧
    (acceptB exCfg StB.init exEvs).map (fun st => decide (st.pcB 0 = .over)) = some true := by
  decide

/-- it satisfies `hplain`, `hok`, `hnf`, `hnx` and `hzero` -/
example : (∀ j, j < exCfg.n → exCfg.window j = 0 ∧ exCfg.timeout j = none ∧ exCfg.forever j = false) ∧
    okCheck exEvs = true ∧ nfCheck exEvs = true ∧ zeroCheck exCfg StB.init exEvs = true := by
  decide

/-- the instants read off the history are the expected ones -/
example : (List.range 6).map (timingOf exCfg exEvs).B = [0, 0, 2, 2, 5, 6] ∧
    (List.range 6).map (timingOf exCfg exEvs).E = [10, 2, 6, 5, 6, 10] ∧
    (List.range 6).map (durOf exCfg exEvs) = [10, 2, 4, 3, 1, 4] := by
  decide

/-- … and `run_sat` applies -/
example : (timingOf exCfg exEvs).Sat exCfg (durOf exCfg exEvs) := by
  have h1 : (acceptB exCfg StB.init exEvs).map (fun st => decide (st.pcB 0 = .over)) = some true := by decide
  cases hacc : acceptB exCfg StB.init exEvs with
  | none => rw [hacc] at h1; cases h1
  | some st =>
    rw [hacc] at h1
    exact run_sat exCfg (by decide) exEvs st hacc (by simpa using h1) (by decide)
      (okCheck_spec exEvs (by decide)) (nfCheck_spec exEvs (by decide)) (nfCheck_spec_ext exEvs (by decide)) (zeroCheck_spec exCfg exEvs StB.init (by decide))

/-- `hzero` is needed: the same history with a shutdown handler of the nested scheduler `2` that takes one unit of
    time satisfies all the other hypotheses, and `2` ends (at 7) after the last of its jobs did (at 6) -/
def exSlow : List EvB :=
  [.runBegin, .grant 1, .tick 2, .bodyEnd 1 true, .waitReturn 0, .react 0,
   .grant 2, .grant 3, .tick 3, .bodyEnd 3 true, .waitReturn 2, .react 2,
   .grant 4, .tick 1, .bodyEnd 4 true, .waitReturn 2, .react 2,
   .tidyReturn 2 0, .tick 1, .hEnd 3, .hEnd 4, .sdWaitReturn 2 0, .waitReturn 0, .react 0,
   .grant 5, .tick 4, .bodyEnd 5 true, .waitReturn 0, .react 0,
   .tidyReturn 0 0, .hEnd 1, .hStep 2, .hEnd 5, .sdWaitReturn 0 0]

example : (acceptB exCfg StB.init exSlow).map (fun st => decide (st.pcB 0 = .over)) = some true ∧
    okCheck exSlow = true ∧ zeroCheck exCfg StB.init exSlow = false ∧
    (timingOf exCfg exSlow).E 2 = 7 ∧
    max ((timingOf exCfg exSlow).B 2) (sup ((exCfg.children 2).map (timingOf exCfg exSlow).E)) = 6 := by
  decide

end AJ.Proofs.FlatB
