/-
  C10 (d), "a nested scheduler adds no latency": time may pass (`tick`) only in quiet states, and in a quiet state
  * no job whose requirements have all finished is still waiting to be started (C12: `eager_at_quiescence`), in
    particular the entry jobs of a nested scheduler that has begun, and the jobs that require a nested scheduler that is
    over;
  * (this file) a nested scheduler all of whose jobs have finished, and whose jobs' shutdown handlers are not
    pending, is over.
  So a job inside a nested scheduler begins at the instant the last of its own requirements and of the requirements
  of its enclosing schedulers finished, and a job that requires a nested scheduler begins at the instant the last job
  of that scheduler (and its shutdown handlers) finished: the same instants as in the flattened graph.
-/
import AJ.Proofs.FinB
namespace AJ.Proofs.NestB
open AJ.Run AJ.Full AJ.Proofs.CoreA AJ.Proofs.CoreB AJ.Proofs.ProgB AJ.Proofs.FinB
set_option linter.unusedVariables false

/-- the body (or nested run) of the job is over: it returned, raised or was cancelled -/
def Ph.finished : Ph → Bool
  | .done _ => true
  | .cancelled => true
  | _ => false

/-- C10 (d): no latency at the end of a nested run: in a reachable state in which time may pass, a scheduler whose run
    has begun, whose jobs have all finished, and none of whose jobs has a shutdown handler pending, is over -/
theorem no_end_latency (c : Cfg) (hwf : c.wf = true) (evs : List EvB) (st : StB)
    (h : acceptB c StB.init evs = some st) (hq : quietB c st = true)
    (s : Nat) (hs : s < c.n) (hsch : c.isSched s = true) (hb : st.pcB s ≠ .notBegun)
    (hfin : ∀ k, k ∈ c.children s → Ph.finished (st.a.ph k) = true)
    (hh : ∀ k, k ∈ c.children s → st.hph k ≠ .hactive) :
    st.pcB s = .over := by
  have hB := invB_reach c hwf evs st h
  have hP := invP_reach c hwf evs st h
  have hQ := (quietB_iff c st).1 hq s hs
  have hnoH : activeHandlers c st s = [] := by
    simp only [activeHandlers, List.filter_eq_nil_iff, beq_iff_eq]
    exact fun k hk => hh k hk
  cases hpc : st.pcB s with
  | notBegun => exact absurd hpc hb
  | over => rfl
  | loop =>
    exfalso
    -- quiet: nothing to hand over, no reaction pending
    have hds : doneSet c st.a s = [] := by
      cases hD : doneSet c st.a s with
      | nil => rfl
      | cons a l => exact absurd ⟨hsch, hpc, Or.inl (by simp [hD])⟩ hQ.q3
    have hrx : st.a.rx s = none := by
      cases hD : st.a.rx s with
      | none => rfl
      | some D => exact absurd ⟨hsch, hpc, Or.inr (by simp [hD])⟩ hQ.q3
    -- so every job of `s`, being finished, was handed over
    have hdel : ∀ k ∈ c.children s, st.a.deliv k = true := by
      intro k hk
      cases hd : st.a.deliv k with
      | true => rfl
      | false =>
        have hf := hfin k hk
        have hfin' : (st.a.ph k).isDone = true ∨ st.a.ph k = .cancelled := by
          cases hph : st.a.ph k <;> simp [hph, Ph.finished, Ph.isDone] at hf ⊢
        have : k ∈ doneSet c st.a s := CoreA.mem_doneSet.2 ⟨hk, hfin', hd⟩
        rw [hds] at this; cases this
    -- and the count of reported regular jobs is complete: the last reaction would have left the loop
    rcases hP.notStuck s hpc hrx with h1 | ⟨k, hk, hd⟩
    · apply h1
      rw [hB.count s hpc]
      unfold nbFinite
      congr 1
      apply List.filter_congr
      intro k hk
      simp [rxD, hrx, hdel k hk]
    · rw [hdel k hk] at hd; cases hd
  | tidy x =>
    exfalso
    refine hQ.q4 ⟨hsch, by simp [hpc, PcB.isTidy], ?_⟩
    simp only [liveChildren, List.filter_eq_nil_iff]
    intro k hk
    have hf := hfin k hk
    cases hph : st.a.ph k <;> simp [hph, Ph.finished, Ph.live] at hf ⊢
  | shut x =>
    exfalso
    have hbc : st.bc s = .bwait .inline := (hB.bcInlineWait s).2 ⟨x, hpc⟩
    exact hQ.q7 ⟨hsch, Or.inl (by simp [hbc, Bc.isWait]), hnoH⟩
  | shutTidy x =>
    exfalso
    have hbc : st.bc s = .btidy .inline := (hB.bcInlineTidy s).2 ⟨x, hpc⟩
    exact hQ.q7 ⟨hsch, Or.inr (by simp [hbc, Bc.isTidy]), hnoH⟩

/-- C10 (d): ... and then, seen from its parent, it is a finished job: its phase is `done` or `cancelled` -/
theorem over_is_finished (c : Cfg) (hwf : c.wf = true) (evs : List EvB) (st : StB)
    (h : acceptB c StB.init evs = some st) (s : Nat) (hs : s < c.n) (hs0 : s ≠ 0) (hsch : c.isSched s = true)
    (ho : st.pcB s = .over) :
    Ph.finished (st.a.ph s) = true := by
  have hA := invA_of_reachB c hwf evs st h
  have hB := invB_reach c hwf evs st h
  have hP := invP_reach c hwf evs st h
  have hpa : st.a.pc s = .over := (hB.pcOver s).1 ho
  cases hph : st.a.ph s with
  | done r => rfl
  | cancelled => rfl
  | idle => have := hA.notBegun s hsch (Or.inl hph); rw [hpa] at this; cases this
  | queued => have := hA.notBegun s hsch (Or.inr hph); rw [hpa] at this; cases this
  | running => exact absurd ho (hP.runPc s hsch hph).2

/-- C10 (d): no latency at the beginning of a nested run: in a reachable state in which time may pass, a nested
    scheduler without window whose run has begun and is in its main loop has no entry job (a job without
    requirement) still waiting to be started -/
theorem no_begin_latency (c : Cfg) (hwf : c.wf = true) (evs : List EvB) (st : StB)
    (h : acceptB c StB.init evs = some st) (hq : quietB c st = true)
    (s : Nat) (hs : s < c.n) (hsch : c.isSched s = true) (hl : st.pcB s = .loop) (hw : c.window s = 0)
    (k : Nat) (hk : k ∈ c.children s) (hreq : c.req k = []) :
    st.a.ph k ≠ .idle ∧ st.a.ph k ≠ .queued := by
  have hA := invA_of_reachB c hwf evs st h
  have hB := invB_reach c hwf evs st h
  have hkc := CoreA.mem_children.1 hk
  have hQ := (quietB_iff c st).1 hq k hkc.1
  constructor
  · intro hi
    obtain ⟨r, hr, _⟩ := hA.eager s ((hB.pcLoop s).1 hl) k hk hi
    rw [hreq] at hr; cases hr
  · intro hqd
    refine hQ.q1 ⟨Nat.pos_of_ne_zero hkc.2.1, hqd, Or.inr ?_⟩
    rw [hkc.2.2]
    simp [slotFree, hw]

/-! ### the hypotheses can be met

  Top-level scheduler `0` with a nested scheduler `1` (one job, `2`) and an atomic job `3`.  The nested run goes to
  its end (job `2` returns, the run leaves its loop, shuts `2` down inline, ends), the top-level run reacts to it; job
  `3` is still executing: the state is quiet, the run of `1` has begun, its only job has finished and its shutdown
  handler is done — and `1` is indeed over, its task finished.  Three events earlier (`exLate`: before the inline
  shutdown of `1` has returned) all the hypotheses of `no_end_latency` but quietness hold and `1` is not over. -/

def exCfg : Cfg :=
  { n := 4, parent := fun j => if j = 2 then 1 else 0, isSched := fun j => j = 0 || j = 1, req := fun _ => [],
    critical := fun _ => false, forever := fun _ => false, window := fun _ => 0, timeout := fun _ => none,
    sdTimeout := fun _ => none, topPure := true }

def exBegin : List EvB := [.runBegin, .grant 1, .grant 3, .grant 2]

def exLate : List EvB := exBegin ++ [.bodyEnd 2 true, .waitReturn 1, .react 1, .tidyReturn 1 0, .hEnd 2]

def exEvs : List EvB := exLate ++ [.sdWaitReturn 1 0, .waitReturn 0, .react 0]

/-- `no_end_latency` is not vacuous -/
example : exCfg.wf = true ∧ exCfg.isSched 1 = true ∧ exCfg.children 1 = [2] ∧
    (acceptB exCfg StB.init exEvs).map (fun st =>
      (quietB exCfg st, decide (st.pcB 1 ≠ .notBegun),
       (exCfg.children 1).all (fun k => Ph.finished (st.a.ph k)),
       (exCfg.children 1).all (fun k => decide (st.hph k ≠ .hactive)),
       decide (st.pcB 1 = .over), Ph.finished (st.a.ph 1)))
      = some (true, true, true, true, true, true) ∧
    (acceptB exCfg StB.init exEvs).map (fun st => (st.a.ph 3, st.pcB 0)) = some (.running, .loop) := by
  decide

/-- quietness is needed: the same hypotheses without it, the run of `1` still inside its shutdown -/
example : (acceptB exCfg StB.init exLate).map (fun st =>
      (quietB exCfg st, decide (st.pcB 1 ≠ .notBegun),
       (exCfg.children 1).all (fun k => Ph.finished (st.a.ph k)),
       (exCfg.children 1).all (fun k => decide (st.hph k ≠ .hactive)), st.pcB 1))
      = some (false, true, true, true, .shut .success) := by
  decide

/-- `no_begin_latency` is not vacuous: a quiet state with the nested run in its main loop, its entry job executing -/
example : (acceptB exCfg StB.init exBegin).map (fun st =>
      (quietB exCfg st, st.pcB 1, exCfg.window 1, exCfg.req 2, st.a.ph 2))
      = some (true, .loop, 0, [], .running) := by
  decide

end AJ.Proofs.NestB
