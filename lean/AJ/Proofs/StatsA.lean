/-
  `stats()` adds up: in every reachable state the three classes of `_stats()` partition the jobs of the scheduler
  (a consequence of C14's "is_done implies is_running": a done job is counted once, as done).  Both for the strict
  layer-A model and for the lax one that the C14 tie replays.  No existing file modified.
-/
import AJ.Model.Stats
import AJ.Proofs.CoreA
import AJ.Proofs.LaxA
namespace AJ.Proofs.StatsA
open AJ.Run AJ.Proofs.CoreA
set_option linter.unusedVariables false

/-- counting: if `p` implies `q` on the list, then `p`, `q ∧ ¬p`, `¬q` partition it -/
theorem filter_partition (js : List Nat) (p q : Nat → Bool) (h : ∀ j ∈ js, p j = true → q j = true) :
    (js.filter p).length + ((js.filter q).filter (fun j => !p j)).length + (js.filter (fun j => !q j)).length
      = js.length := by
  induction js with
  | nil => rfl
  | cons a t ih =>
    have ih' := ih (fun j hj => h j (List.mem_cons_of_mem _ hj))
    have ha := h a (List.mem_cons_self ..)
    simp only [List.filter_cons]
    cases hp : p a <;> cases hq : q a <;> simp_all <;> omega

/-- `D + R + I = N` in every state reached by the strict layer-A model -/
theorem stats_add_up (c : Cfg) (hwf : c.wf = true) (evs : List EvA) (st : StA)
    (h : acceptA c StA.init evs = some st) (s : Nat) :
    (statsOf c st s).1 + (statsOf c st s).2.1 + (statsOf c st s).2.2.1 = (statsOf c st s).2.2.2 := by
  unfold statsOf
  exact filter_partition _ _ _ (fun j _ hd => (predicates_chain c hwf evs st h j).1 hd)

/-- … and in every state reached by the lax model (`stepAL`), the one the C14 tie replays -/
theorem stats_add_up_lax (c : Cfg) (hwf : c.wf = true) (evs : List EvA) (st : StA)
    (h : acceptAL c StA.init evs = some st) (s : Nat) :
    (statsOf c st s).1 + (statsOf c st s).2.1 + (statsOf c st s).2.2.1 = (statsOf c st s).2.2.2 := by
  unfold statsOf
  exact filter_partition _ _ _ (fun j _ hd => (AJ.Proofs.LaxA.predicates_chain c hwf evs st h j).1 hd)

/-- counting: a pointwise stronger predicate keeps at least as many elements -/
theorem filter_length_mono (js : List Nat) (p q : Nat → Bool) (h : ∀ j ∈ js, p j = true → q j = true) :
    (js.filter p).length ≤ (js.filter q).length := by
  induction js with
  | nil => simp
  | cons a t ih =>
    have ih' := ih (fun j hj => h j (List.mem_cons_of_mem _ hj))
    have ha := h a (List.mem_cons_self ..)
    simp only [List.filter_cons]
    cases hp : p a <;> cases hq : q a <;> simp_all <;> omega

/-- during a run the numbers of `stats()` only move one way: `D` never decreases and `I` never increases, step by
    step (no predicate reverts: `step_monotone`) -/
theorem stats_monotone (c : Cfg) (st st' : StA) (e : EvA) (h : stepA c st e = some st') (s : Nat) :
    (statsOf c st s).1 ≤ (statsOf c st' s).1 ∧ (statsOf c st' s).2.2.1 ≤ (statsOf c st s).2.2.1 := by
  unfold statsOf
  refine ⟨filter_length_mono _ _ _ (fun j _ hd => (step_monotone c st st' e h j).2.2.2 hd),
    filter_length_mono _ _ _ (fun j _ hd => ?_)⟩
  have hm := (step_monotone c st st' e h j).2.2.1
  cases hr : isRunning st j
  · rfl
  · have := hm hr; simp [this] at hd

/-- the total is the number of jobs of the scheduler, whatever happened -/
theorem stats_total (c : Cfg) (st : StA) (s : Nat) : (statsOf c st s).2.2.2 = (c.children s).length := rfl

/-- before anything has started: `0D + 0R + NI = N` -/
theorem stats_init (c : Cfg) (s : Nat) : statsOf c StA.init s = (0, 0, (c.children s).length, (c.children s).length) := by
  simp [statsOf, StA.init, isDone, isRunning, Ph.isDone]

end AJ.Proofs.StatsA
