/-
  Layer B: how a run leaves its main loop and what it then reports (C02 success clause, C04, C05, C08, C09,
  C10 a–c).
-/
import AJ.Proofs.CoreB
namespace AJ.Proofs.ExitB
open AJ.Run AJ.Full AJ.Proofs.CoreA AJ.Proofs.CoreB
set_option linter.unusedVariables false
set_option linter.unusedSimpArgs false

/-! ### auxiliary: what a step of layer A can do to a phase, a report, the clock -/

/-- a phase changes only from `idle`, `queued`, or `running` (atomic job, or scheduler that is exiting) -/
theorem stepA_ph_change (c : Cfg) (st st' : StA) (e : EvA) (h : stepA c st e = some st') (j : Nat) :
    st'.ph j = st.ph j ∨ st.ph j = .idle ∨ st.ph j = .queued ∨
      (st.ph j = .running ∧ (c.isSched j = false ∨ st.pc j = .exiting)) := by
  cases e <;> simp only [stepA] at h <;> (repeat' split at h) <;> cases h <;>
    (try unfold beginRun) <;> (repeat' split) <;> simp only [release, startJobs, setAt] <;> grind

/-- where a job can be started from -/
theorem stepA_start (c : Cfg) (st st' : StA) (e : EvA) (h : stepA c st e = some st') (k : Nat)
    (hi : st.ph k = .idle) :
    st'.ph k = .idle ∨ k = 0 ∨ st.pc (c.parent k) = .loop ∨ st.pc (c.parent k) = .notBegun ∨
      (c.isSched (c.parent k) = true ∧ st.ph (c.parent k) = .queued) := by
  cases e <;> simp only [stepA] at h <;> (repeat' split at h) <;> cases h <;>
    (try unfold beginRun) <;> (repeat' split) <;>
    simp only [release, startJobs, setAt, entrySet, startCands, Cfg.children, List.mem_filter, List.mem_range,
      Bool.and_eq_true, bne_iff_ne, beq_iff_eq] <;> grind

theorem stepA_deliv (c : Cfg) (st st' : StA) (e : EvA) (h : stepA c st e = some st') (k : Nat) :
    (st.deliv k = true → st'.deliv k = true) ∧
    (st'.deliv k = true → st.deliv k = true ∨ (k ∈ c.children (c.parent k) ∧ st.pc (c.parent k) = .loop)) := by
  cases e <;> simp only [stepA] at h <;> (repeat' split at h) <;> cases h <;>
    (try unfold beginRun) <;> (repeat' split) <;>
    simp only [release, startJobs, setAt, doneSet, Cfg.children, List.mem_filter, List.mem_range,
      Bool.and_eq_true, bne_iff_ne, beq_iff_eq, Bool.or_eq_true, decide_eq_true_eq] <;> grind

theorem stepA_now (c : Cfg) (st st' : StA) (e : EvA) (h : stepA c st e = some st') : st.now ≤ st'.now := by
  cases e <;> simp only [stepA] at h <;> (repeat' split at h) <;> cases h <;>
    (try unfold beginRun) <;> (repeat' split) <;> simp only [release, startJobs, setAt] <;> omega

theorem stepA_newDone (c : Cfg) (st st' : StA) (e : EvA) (h : stepA c st e = some st') (j : Nat) (r : Res)
    (hd : st'.ph j = .done r) :
    st.ph j = .done r ∨ (c.isSched j = false ∧ (r = .retOwn ∨ r = .exc (.byJob j))) ∨
    ((c.children j).isEmpty = true ∧ r = .retBool true) ∨
    (st.pc j = .exiting ∧ st.ph j = .running ∧ st'.pc j = .over) := by
  cases e <;> simp only [stepA] at h <;> (repeat' split at h) <;> cases h <;>
    (try unfold beginRun at hd) <;> (repeat' split at hd) <;> simp only [release, startJobs, setAt] at hd ⊢ <;> grind

/-! ### auxiliary: `beginB`, `finishRun`, and the step in which a run leaves its loop -/

theorem beginB_pcB (c : Cfg) (st : StB) (s : Nat) (a' : StA) :
    (beginB c st s a').pcB = setAt st.pcB s (if (c.children s).isEmpty then .over else .loop) := by
  unfold beginB; split <;> simp_all
@[simp] theorem beginB_failT (c : Cfg) (st : StB) (s : Nat) (a' : StA) : (beginB c st s a').failT = st.failT := by
  unfold beginB; split <;> rfl
@[simp] theorem beginB_failC (c : Cfg) (st : StB) (s : Nat) (a' : StA) : (beginB c st s a').failC = st.failC := by
  unfold beginB; split <;> rfl
@[simp] theorem beginB_tbegin (c : Cfg) (st : StB) (s : Nat) (a' : StA) :
    (beginB c st s a').tbegin = setAt st.tbegin s st.a.now := by
  unfold beginB; split <;> rfl

/-- what `finishRun` does -/
theorem finishRun_spec {c : Cfg} {st st' : StB} {s : Nat} {x : Exit} {pick : Nat}
    (h : finishRun c st s x pick = some st') :
    ∃ r, verdict c st s x pick = some r ∧
      (s < c.n ∧ c.isSched s = true ∧ st.a.pc s = .exiting ∧ st.a.ph s = .running) ∧
      st'.a.ph = setAt st.a.ph s (finPh r) ∧ st'.a.creq = setAt st.a.creq s false ∧ st'.a.deliv = st.a.deliv ∧
      st'.a.pc = setAt st.a.pc s .over ∧ st'.a.rx = st.a.rx ∧ st'.a.now = st.a.now ∧
      st'.pcB = setAt st.pcB s .over ∧ st'.failT = st.failT ∧
      st'.failC = st.failC ∧ st'.tbegin = st.tbegin := by
  unfold finishRun at h
  split at h
  · cases h
  · rename_i r hv
    split at h
    · cases h
    · rename_i a' ha
      cases h
      exact ⟨r, hv, (stepA_finish ha).1, (stepA_finish ha).2.1, (stepA_finish ha).2.2.1, (stepA_finish ha).2.2.2.1,
        (stepA_finish ha).2.2.2.2.1, (stepA_finish ha).2.2.2.2.2.1, (stepA_finish ha).2.2.2.2.2.2, rfl, rfl, rfl, rfl⟩

/-- the reason recorded when a run leaves its loop -/
def ExitReason (c : Cfg) (st : StB) (e : EvB) (s : Nat) : Exit → Prop
  | .critical => e = .react s ∧ ∃ D, st.a.rx s = some D ∧ critIn c st.a D = true
  | .success => e = .react s ∧ ∃ D, st.a.rx s = some D ∧ critIn c st.a D = false ∧
      st.nbDone s + (D.filter fun d => !c.forever d).length = nbFinite c s
  | .timeout => ∃ dl, st.deadline s = some dl ∧ dl ≤ st.a.now ∧
      ((e = .timeoutFire s ∧ doneSet c st.a s = []) ∨
       (e = .react s ∧ ∃ D, st.a.rx s = some D ∧ critIn c st.a D = false ∧
          st.nbDone s + (D.filter fun d => !c.forever d).length ≠ nbFinite c s))
  | .cancelled => e = .cancelArrive s
  | .crashed => e = .orchFail s ∧ ∃ D, st.a.rx s = some D

theorem expired_some {dl : Option Nat} {now : Nat} (h : expired dl now = true) : ∃ d, dl = some d ∧ d ≤ now := by
  unfold expired at h
  split at h
  · rename_i d; exact ⟨d, rfl, by simpa using h⟩
  · cases h

theorem loop_exit (c : Cfg) (st st' : StB) (e : EvB) (s : Nat)
    (hB : InvB c st) (h : stepB c st e = some st') (hloop : st.pcB s = .loop) (hleft : st'.pcB s ≠ .loop) :
    ∃ x, st'.pcB s = .tidy x ∧ st'.a.ph = st.a.ph ∧
      st'.a.creq = (fun k => st.a.creq k || decide (k ∈ liveChildren c st.a s)) ∧
      st'.a.deliv = st.a.deliv ∧ st'.a.now = st.a.now ∧ st'.tbegin = st.tbegin ∧
      st'.failT = setAt st.failT s (x == .timeout) ∧ st'.failC = setAt st.failC s (x == .critical) ∧
      ExitReason c st e s x := by
  have hrun := hB.runPh s (by simp [hloop]) (by simp [hloop])
  have hfT : st.failT s = false := by
    have := (hB.diagClear s (by simp [hloop])).2
    cases hf : st.failT s
    · rfl
    · simp [hf, hloop, PcB.exitOf] at this
  have hfT' : ∀ x : Exit, setAt st.failT s (st.failT s || x == .timeout) = setAt st.failT s (x == .timeout) := by
    intro x; rw [hfT]; simp
  have hfC : st.failC s = false := by
    have := (hB.diagClear s (by simp [hloop])).1
    cases hf : st.failC s
    · rfl
    · simp [hf, hloop, PcB.exitOf] at this
  have hfC' : ∀ x : Exit, setAt st.failC s (st.failC s || x == .critical) = setAt st.failC s (x == .critical) := by
    intro x; rw [hfC]; simp
  cases e with
  | runBegin =>
    simp only [stepB] at h
    split at h
    · cases h
    · rename_i a' ha
      cases h
      have := (stepA_runBegin ha).1
      have := hB.pcNotBegun 0
      simp only [beginB_pcB, setAt] at hleft
      grind
  | grant j =>
    simp only [stepB] at h
    split at h
    · cases h
    · rename_i a' ha
      have := (stepA_grant ha).1
      split at h <;> cases h
      · simp only [beginB_pcB, setAt] at hleft
        grind
      · exact absurd hloop hleft
  | bodyEnd j ok =>
    simp only [stepB] at h
    split at h <;> cases h
    exact absurd hloop hleft
  | cancelAck j =>
    simp only [stepB] at h
    split at h <;> cases h
    exact absurd hloop hleft
  | waitReturn s' =>
    simp only [stepB] at h
    (repeat' split at h) <;> cases h
    exact absurd hloop hleft
  | tick d =>
    simp only [stepB] at h
    (repeat' split at h) <;> cases h
    exact absurd hloop hleft
  | extCancel =>
    simp only [stepB] at h
    split at h <;> cases h
    exact absurd hloop hleft
  | hStep j =>
    simp only [stepB] at h
    (repeat' split at h) <;> cases h <;> exact absurd hloop hleft
  | hEnd j =>
    simp only [stepB] at h
    (repeat' split at h) <;> cases h <;> exact absurd hloop hleft
  | hCancelAck j =>
    simp only [stepB] at h
    (repeat' split at h) <;> cases h <;> exact absurd hloop hleft
  | hCancelArrive j =>
    simp only [stepB] at h
    (repeat' split at h) <;> cases h <;> exact absurd hloop hleft
  | cancelArrive s' =>
    simp only [stepB] at h
    split at h
    · split at h
      · rename_i hl
        split at h
        · cases h
        · rename_i a' ha
          cases h
          obtain ⟨_, hph, hcreq, hdeliv, hpc, hrx, hnow⟩ := stepA_leave ha
          by_cases he : s = s'
          · subst he
            exact ⟨.cancelled, by simp [exitLoop, setAt], hph, hcreq, hdeliv, hnow, rfl, hfT' _, hfC' _, rfl⟩
          · simp only [exitLoop, setAt, if_neg he] at hleft
            exact absurd hloop hleft
      all_goals (first | (cases h; done) | (cases h; simp only [setAt] at hleft; grind))
    · cases h
  | react s' =>
    simp only [stepB] at h
    split at h
    · rename_i D hl hD
      split at h
      · cases h
      · split at h
        · rename_i hcrit
          split at h
          · cases h
          · rename_i a' ha
            cases h
            obtain ⟨_, _, hph, hcreq, hdeliv, hpc, hrx, hnow⟩ := stepA_react_leave ha
            by_cases he : s = s'
            · subst he
              exact ⟨.critical, by simp [exitLoop, setAt], hph, hcreq, hdeliv, hnow, rfl, hfT' _, hfC' _, rfl, D, hD, hcrit⟩
            · simp only [exitLoop, setAt, if_neg he] at hleft
              exact absurd hloop hleft
        · rename_i hcrit
          split at h
          · rename_i hnb
            split at h
            · cases h
            · rename_i a' ha
              cases h
              obtain ⟨_, _, hph, hcreq, hdeliv, hpc, hrx, hnow⟩ := stepA_react_leave ha
              by_cases he : s = s'
              · subst he
                exact ⟨.success, by simp [exitLoop, setAt], hph, hcreq, hdeliv, hnow, rfl, hfT' _, hfC' _, rfl, D, hD,
                  by simpa using hcrit, hnb⟩
              · simp only [exitLoop, setAt, if_neg he] at hleft
                exact absurd hloop hleft
          · rename_i hnb
            split at h
            · rename_i hexp
              split at h
              · cases h
              · rename_i a' ha
                cases h
                obtain ⟨_, _, hph, hcreq, hdeliv, hpc, hrx, hnow⟩ := stepA_react_leave ha
                by_cases he : s = s'
                · subst he
                  obtain ⟨dl, hdl, hle⟩ := expired_some hexp
                  exact ⟨.timeout, by simp [exitLoop, setAt], hph, hcreq, hdeliv, hnow, rfl, hfT' _, hfC' _, dl, hdl, hle,
                    Or.inr ⟨rfl, D, hD, by simpa using hcrit, hnb⟩⟩
                · simp only [exitLoop, setAt, if_neg he] at hleft
                  exact absurd hloop hleft
            · split at h
              · cases h
              · cases h
                exact absurd hloop hleft
    · cases h
  | orchFail s' =>
    simp only [stepB] at h
    split at h
    · rename_i D hl hD
      split at h
      · cases h
      · split at h
        · cases h
        · rename_i a' ha
          cases h
          obtain ⟨_, _, hph, hcreq, hdeliv, hpc, hrx, hnow⟩ := stepA_react_leave ha
          by_cases he : s = s'
          · subst he
            exact ⟨.crashed, by simp [exitLoop, setAt], hph, hcreq, hdeliv, hnow, rfl, hfT' _, hfC' _, rfl, D, hD⟩
          · simp only [exitLoop, setAt, if_neg he] at hleft
            exact absurd hloop hleft
    · cases h
  | timeoutFire s' =>
    simp only [stepB] at h
    split at h
    · rename_i hg
      obtain ⟨hl, hcp, hrxn, hDn, hexp⟩ := hg
      split at h
      · cases h
      · rename_i a' ha
        cases h
        obtain ⟨_, hph, hcreq, hdeliv, hpc, hrx, hnow⟩ := stepA_leave ha
        by_cases he : s = s'
        · subst he
          obtain ⟨dl, hdl, hle⟩ := expired_some hexp
          exact ⟨.timeout, by simp [exitLoop, setAt], hph, hcreq, hdeliv, hnow, rfl, hfT' _, hfC' _, dl, hdl, hle,
            Or.inl ⟨rfl, hDn⟩⟩
        · simp only [exitLoop, setAt, if_neg he] at hleft
          exact absurd hloop hleft
    · cases h
  | tidyReturn s' pick =>
    simp only [stepB] at h
    split at h
    · rename_i x hx
      split at h
      · split at h
        · obtain ⟨r, _, _, _, _, _, _, _, _, hp, _⟩ := finishRun_spec h
          simp only [hp, setAt] at hleft
          grind
        · cases h
          simp only [broadcast, setAt] at hleft
          grind
      · cases h
    · cases h
  | sdWaitReturn s' pick =>
    simp only [stepB] at h
    (repeat' split at h)
    all_goals first
      | (cases h; done)
      | (cases h; exact absurd hloop hleft)
      | (obtain ⟨r, _, _, _, _, _, _, _, _, hp, _⟩ := finishRun_spec h
         simp only [hp, setAt] at hleft
         grind)
  | sdTimeoutFire s' =>
    simp only [stepB] at h
    split at h
    · cases h
      split at hleft
      · simp only [setAt] at hleft; grind
      · exact absurd hloop hleft
    · cases h
  | sdTidyReturn s' pick =>
    simp only [stepB] at h
    (repeat' split at h)
    all_goals first
      | (cases h; done)
      | (cases h; exact absurd hloop hleft)
      | (obtain ⟨r, _, _, _, _, _, _, _, _, hp, _⟩ := finishRun_spec h
         simp only [hp, setAt] at hleft
         grind)

/-! ### per-step theorems -/

/-- C05 / C08 / C09: whenever a run leaves its main loop — whatever the reason — in that very step `cancel()` is
    called on every unfinished job of it, no job changes phase (nothing is started), and the run is tidying up -/
theorem exit_cancels_all (c : Cfg) (st st' : StB) (e : EvB) (s : Nat)
    (hB : InvB c st) (h : stepB c st e = some st') (hloop : st.pcB s = .loop) (hleft : st'.pcB s ≠ .loop) :
    (∃ x, st'.pcB s = .tidy x) ∧
    (∀ k ∈ c.children s, (st.a.ph k).live = true → st'.a.creq k = true) ∧
    (∀ k, st'.a.ph k = st.a.ph k) := by
  obtain ⟨x, hx, hph, hcreq, _⟩ := loop_exit c st st' e s hB h hloop hleft
  refine ⟨⟨x, hx⟩, ?_, fun k => by rw [hph]⟩
  intro k hk hl
  rw [hcreq]
  simp [mem_liveChildren, hk, hl]

/-- … and the reason recorded is the one that occurred: a critical job of the reacted `done` set raised; or none
    did and the count of reported non-forever jobs reached their number; or the deadline was reached — with nothing
    to report (`timeoutFire`), or noticed in a reaction to completions that neither failed critically nor
    completed the regular jobs; or the enclosing scheduler cancelled the run; or the orchestration itself failed
    where a reaction was due -/
theorem exit_reason (c : Cfg) (st st' : StB) (e : EvB) (s : Nat) (x : Exit)
    (hB : InvB c st) (h : stepB c st e = some st') (hloop : st.pcB s = .loop) (hx : st'.pcB s = .tidy x) :
    match x with
    | .critical => e = .react s ∧ ∃ D, st.a.rx s = some D ∧ critIn c st.a D = true
    | .success => e = .react s ∧ ∃ D, st.a.rx s = some D ∧ critIn c st.a D = false ∧
        st.nbDone s + (D.filter fun d => !c.forever d).length = nbFinite c s
    | .timeout => ∃ dl, st.deadline s = some dl ∧ dl ≤ st.a.now ∧
        ((e = .timeoutFire s ∧ doneSet c st.a s = []) ∨
         (e = .react s ∧ ∃ D, st.a.rx s = some D ∧ critIn c st.a D = false ∧
            st.nbDone s + (D.filter fun d => !c.forever d).length ≠ nbFinite c s))
    | .cancelled => e = .cancelArrive s
    | .crashed => e = .orchFail s ∧ ∃ D, st.a.rx s = some D := by
  obtain ⟨x', hx', _, _, _, _, _, _, _, hr⟩ := loop_exit c st st' e s hB h hloop (by simp [hx])
  rw [hx] at hx'
  cases hx'
  cases x <;> exact hr

/-- C05: a critical job in the reacted `done` set that raised always makes the run abort -/
theorem critical_aborts (c : Cfg) (st st' : StB) (s : Nat) (D : List Nat)
    (h : stepB c st (.react s) = some st') (hrx : st.a.rx s = some D) (hcrit : critIn c st.a D = true) :
    st'.pcB s = .tidy .critical := by
  simp only [stepB] at h
  split at h
  · rename_i D' hl hD
    rw [hrx] at hD; cases hD
    split at h
    · cases h
    · split at h <;> cases h
      simp [exitLoop, setAt]
  · cases h

/-- C09: otherwise, the report of the last non-forever job makes the run end (successfully) -/
theorem last_regular_ends (c : Cfg) (st st' : StB) (s : Nat) (D : List Nat)
    (h : stepB c st (.react s) = some st') (hrx : st.a.rx s = some D) (hcrit : critIn c st.a D = false)
    (hcnt : st.nbDone s + (D.filter fun d => !c.forever d).length = nbFinite c s) :
    st'.pcB s = .tidy .success := by
  simp only [stepB] at h
  split at h
  · rename_i D' hl hD
    rw [hrx] at hD; cases hD
    split at h
    · cases h
    · rw [if_neg (by simp [hcrit])] at h
      simp only [hcnt, if_true] at h
      split at h <;> cases h
      simp [exitLoop, setAt]
  · cases h

/-- C08: otherwise again, a reaction at an instant where the deadline is reached makes the run abort on timeout
    (nothing is started), and `failed_time_out()` holds from that very step on -/
theorem expired_reaction_aborts (c : Cfg) (st st' : StB) (s : Nat) (D : List Nat)
    (h : stepB c st (.react s) = some st') (hrx : st.a.rx s = some D) (hcrit : critIn c st.a D = false)
    (hcnt : st.nbDone s + (D.filter fun d => !c.forever d).length ≠ nbFinite c s)
    (hexp : expired (st.deadline s) st.a.now = true) :
    st'.pcB s = .tidy .timeout ∧ st'.failT s = true ∧ (∀ k, st'.a.ph k = st.a.ph k) := by
  simp only [stepB] at h
  split at h
  · rename_i D' hl hD
    rw [hrx] at hD; cases hD
    split at h
    · cases h
    · simp only [hcrit, hcnt, hexp, Bool.false_eq_true, ↓reduceIte] at h
      split at h
      · cases h
      · rename_i a' ha
        cases h
        obtain ⟨_, _, hph, _⟩ := stepA_react_leave ha
        exact ⟨by simp [exitLoop, setAt], by simp [exitLoop, setAt], fun k => by simp [exitLoop, hph]⟩
  · cases h

/-- … and a reaction that goes on (starts successors) happens strictly before the deadline -/
theorem react_goes_on_before_deadline (c : Cfg) (st st' : StB) (s : Nat)
    (h : stepB c st (.react s) = some st') (hgo : st'.pcB s = .loop) :
    expired (st.deadline s) st.a.now = false := by
  simp only [stepB] at h
  split at h
  · split at h
    · cases h
    · (repeat' split at h)
      all_goals first
        | (cases h; done)
        | (cases h; simp [exitLoop, setAt] at hgo; done)
        | (cases h; simpa using ‹¬ expired _ _ = true›)
  · cases h

/-- C08: when its deadline is reached and its main wait has nothing to report, `timeoutFire` is enabled -/
theorem expiry_enabled (c : Cfg) (st : StB) (s : Nat) (dl : Nat) (hA : InvA c st.a) (hB : InvB c st)
    (hwf : c.wf = true) (hloop : st.pcB s = .loop) (hdl : st.deadline s = some dl) (hnow : dl ≤ st.a.now)
    (hD : doneSet c st.a s = []) (hrx : st.a.rx s = none) (hc : cancelPending st s = false) :
    ∃ st', stepB c st (.timeoutFire s) = some st' := by
  have hr := hB.pcRange s (by simp [hloop])
  have hpl := (hB.pcLoop s).1 hloop
  have hexp : expired (st.deadline s) st.a.now = true := by simp [expired, hdl, hnow]
  have hk : ∀ k ∈ liveChildren c st.a s, k ∈ c.children s ∧ (st.a.ph k).live = true := fun k hk => mem_liveChildren.1 hk
  simp only [stepB, stepA]
  rw [if_pos ⟨hloop, hc, hrx, hD, hexp⟩, if_pos ⟨hr.1, hr.2, hpl, hk⟩]
  exact ⟨_, rfl⟩

/-- what a step does to the program counter, the diagnosis and the beginning instant of scheduler `s`:
    nothing; its run begins; it leaves its loop; it goes on exiting; it ends -/
theorem pcB_step (c : Cfg) (st st' : StB) (e : EvB) (s : Nat) (hB : InvB c st) (h : stepB c st e = some st') :
    (st'.pcB s = st.pcB s ∧ st'.failT s = st.failT s ∧ st'.failC s = st.failC s ∧ st'.tbegin s = st.tbegin s) ∨
    ((st.a.ph s = .queued ∨ st.pcB s = .notBegun) ∧
      st'.pcB s = (if (c.children s).isEmpty then .over else .loop) ∧
      st'.failT s = st.failT s ∧ st'.failC s = st.failC s ∧ st'.tbegin s = st.a.now ∧ st'.a.now = st.a.now) ∨
    (st.pcB s = .loop ∧ (∃ x, st'.pcB s = .tidy x) ∧
      (st'.failT s = true ↔ st'.pcB s = .tidy .timeout) ∧ (st'.failC s = true ↔ st'.pcB s = .tidy .critical) ∧
      st'.tbegin s = st.tbegin s) ∨
    (∃ x x', (st.pcB s).exitOf = some x ∧ (st'.pcB s).exitOf = some x' ∧ (x' = x ∨ x' = .cancelled) ∧
      st'.failT s = st.failT s ∧ st'.failC s = st.failC s ∧ st'.tbegin s = st.tbegin s) ∨
    (∃ x pick r, (st.pcB s).exitOf = some x ∧ verdict c st s x pick = some r ∧
      st'.a.ph = setAt st.a.ph s (finPh r) ∧ st'.a.deliv = st.a.deliv ∧ st'.a.now = st.a.now ∧
      st'.pcB s = .over ∧ st'.failT s = st.failT s ∧ st'.failC s = st.failC s ∧
      st'.tbegin s = st.tbegin s) := by
  have hfT : st.pcB s = .loop → st.failT s = false := by
    intro hl
    have := (hB.diagClear s (by simp [hl])).2
    cases hf : st.failT s
    · rfl
    · simp [hf, hl, PcB.exitOf] at this
  have hfC : st.pcB s = .loop → st.failC s = false := by
    intro hl
    have := (hB.diagClear s (by simp [hl])).1
    cases hf : st.failC s
    · rfl
    · simp [hf, hl, PcB.exitOf] at this
  cases e with
  | runBegin =>
    simp only [stepB] at h
    split at h
    · cases h
    · rename_i a' ha
      cases h
      have := (stepA_runBegin ha).1
      have := (stepA_runBegin ha).2.2.2.1
      have := hB.pcNotBegun 0
      simp only [beginB_pcB, beginB_failT, beginB_failC, beginB_tbegin, beginB_a, setAt]
      grind
  | grant j =>
    simp only [stepB] at h
    split at h
    · cases h
    · rename_i a' ha
      have := (stepA_grant ha).1
      have := (stepA_grant ha).2.2.2.1
      split at h <;> cases h
      · simp only [beginB_pcB, beginB_failT, beginB_failC, beginB_tbegin, beginB_a, setAt]
        grind
      · exact Or.inl ⟨rfl, rfl, rfl, rfl⟩
  | bodyEnd j ok =>
    simp only [stepB] at h
    split at h <;> cases h
    exact Or.inl ⟨rfl, rfl, rfl, rfl⟩
  | cancelAck j =>
    simp only [stepB] at h
    split at h <;> cases h
    exact Or.inl ⟨rfl, rfl, rfl, rfl⟩
  | waitReturn s' =>
    simp only [stepB] at h
    (repeat' split at h) <;> cases h
    exact Or.inl ⟨rfl, rfl, rfl, rfl⟩
  | tick d =>
    simp only [stepB] at h
    (repeat' split at h) <;> cases h
    exact Or.inl ⟨rfl, rfl, rfl, rfl⟩
  | extCancel =>
    simp only [stepB] at h
    split at h <;> cases h
    exact Or.inl ⟨rfl, rfl, rfl, rfl⟩
  | hStep j =>
    simp only [stepB] at h
    (repeat' split at h) <;> cases h <;> exact Or.inl ⟨rfl, rfl, rfl, rfl⟩
  | hEnd j =>
    simp only [stepB] at h
    (repeat' split at h) <;> cases h <;> exact Or.inl ⟨rfl, rfl, rfl, rfl⟩
  | hCancelAck j =>
    simp only [stepB] at h
    (repeat' split at h) <;> cases h <;> exact Or.inl ⟨rfl, rfl, rfl, rfl⟩
  | hCancelArrive j =>
    simp only [stepB] at h
    (repeat' split at h) <;> cases h <;> exact Or.inl ⟨rfl, rfl, rfl, rfl⟩
  | cancelArrive s' =>
    simp only [stepB] at h
    by_cases he : s = s'
    · subst he
      split at h
      · split at h
        · split at h <;> cases h
          exact Or.inr (Or.inr (Or.inl ⟨‹_›, ⟨.cancelled, by simp [exitLoop, setAt]⟩,
            by simp [exitLoop, setAt, hfT ‹_›], by simp [exitLoop, setAt, hfC ‹_›], rfl⟩))
        all_goals first
          | (cases h; done)
          | (cases h
             rename_i x hx
             exact Or.inr (Or.inr (Or.inr (Or.inl ⟨x, .cancelled, by simp [hx, PcB.exitOf], by simp [setAt, PcB.exitOf],
               Or.inr rfl, rfl, rfl, rfl⟩))))
      · cases h
    · (repeat' split at h)
      all_goals first
        | (cases h; done)
        | (cases h; exact Or.inl (by simp [exitLoop, setAt, he]))
  | react s' =>
    simp only [stepB] at h
    by_cases he : s = s'
    · subst he
      split at h
      · rename_i D hl hD
        split at h
        · cases h
        · split at h
          · split at h <;> cases h
            exact Or.inr (Or.inr (Or.inl ⟨hl, ⟨.critical, by simp [exitLoop, setAt]⟩,
              by simp [exitLoop, setAt, hfT hl], by simp [exitLoop, setAt], rfl⟩))
          · split at h
            · split at h <;> cases h
              exact Or.inr (Or.inr (Or.inl ⟨hl, ⟨.success, by simp [exitLoop, setAt]⟩,
                by simp [exitLoop, setAt, hfT hl], by simp [exitLoop, setAt, hfC hl], rfl⟩))
            · split at h
              · split at h <;> cases h
                exact Or.inr (Or.inr (Or.inl ⟨hl, ⟨.timeout, by simp [exitLoop, setAt]⟩,
                  by simp [exitLoop, setAt], by simp [exitLoop, setAt, hfC hl], rfl⟩))
              · split at h <;> cases h
                exact Or.inl ⟨rfl, rfl, rfl, rfl⟩
      · cases h
    · (repeat' split at h)
      all_goals first
        | (cases h; done)
        | (cases h; exact Or.inl (by simp [exitLoop, setAt, he]))
  | orchFail s' =>
    simp only [stepB] at h
    by_cases he : s = s'
    · subst he
      split at h
      · rename_i D hl hD
        split at h
        · cases h
        · split at h <;> cases h
          exact Or.inr (Or.inr (Or.inl ⟨hl, ⟨.crashed, by simp [exitLoop, setAt]⟩,
            by simp [exitLoop, setAt, hfT hl], by simp [exitLoop, setAt, hfC hl], rfl⟩))
      · cases h
    · (repeat' split at h)
      all_goals first
        | (cases h; done)
        | (cases h; exact Or.inl (by simp [exitLoop, setAt, he]))
  | timeoutFire s' =>
    simp only [stepB] at h
    by_cases he : s = s'
    · subst he
      (repeat' split at h)
      all_goals first
        | (cases h; done)
        | (cases h; exact Or.inr (Or.inr (Or.inl ⟨(‹_ ∧ _›).1, ⟨.timeout, by simp [exitLoop, setAt]⟩,
            by simp [exitLoop, setAt], by simp [exitLoop, setAt, hfC (‹_ ∧ _›).1], rfl⟩)))
    · (repeat' split at h)
      all_goals first
        | (cases h; done)
        | (cases h; exact Or.inl (by simp [exitLoop, setAt, he]))
  | tidyReturn s' pick =>
    simp only [stepB] at h
    by_cases he : s = s'
    · subst he
      split at h
      · rename_i x hx
        split at h
        · split at h
          · obtain ⟨r, hv, _, hph, _, hdl, _, _, hnow, hp, hfT, hfC, htb⟩ := finishRun_spec h
            refine Or.inr (Or.inr (Or.inr (Or.inr ⟨x, pick, r, by simp [hx, PcB.exitOf], hv, hph, hdl, hnow, ?_, ?_, ?_, ?_⟩)))
            · simp [hp, setAt]
            · simp [hfT]
            · simp [hfC]
            · simp [htb]
          · cases h
            exact Or.inr (Or.inr (Or.inr (Or.inl ⟨x, x, by simp [hx, PcB.exitOf], by simp [setAt, PcB.exitOf],
               Or.inl rfl, rfl, rfl, rfl⟩)))
        · cases h
      · cases h
    · (repeat' split at h)
      all_goals first
        | (cases h; done)
        | (cases h; exact Or.inl (by simp [broadcast, setAt, he]))
        | (obtain ⟨r, hv, _, hph, _, hdl, _, _, hnow, hp, hfT, hfC, htb⟩ := finishRun_spec h
           exact Or.inl (by simp [hp, hfT, hfC, htb, setAt, he]))
  | sdWaitReturn s' pick =>
    simp only [stepB] at h
    by_cases he : s = s'
    · subst he
      split at h
      · split at h
        · split at h
          · rename_i x hx
            obtain ⟨r, hv, _, hph, _, hdl, _, _, hnow, hp, hfT, hfC, htb⟩ := finishRun_spec h
            refine Or.inr (Or.inr (Or.inr (Or.inr ⟨x, pick, r, by simp [hx, PcB.exitOf], hv, hph, hdl, hnow, ?_, ?_, ?_, ?_⟩)))
            · simp [hp, setAt]
            · simp [hfT]
            · simp [hfC]
            · simp [htb]
          · cases h
        · cases h
          exact Or.inl ⟨rfl, rfl, rfl, rfl⟩
        · cases h
      · cases h
    · (repeat' split at h)
      all_goals first
        | (cases h; done)
        | (cases h; exact Or.inl ⟨rfl, rfl, rfl, rfl⟩)
        | (obtain ⟨r, hv, _, hph, _, hdl, _, _, hnow, hp, hfT, hfC, htb⟩ := finishRun_spec h
           exact Or.inl (by simp [hp, hfT, hfC, htb, setAt, he]))
  | sdTimeoutFire s' =>
    simp only [stepB] at h
    split at h
    · cases h
      split
      · rename_i x hw hx
        by_cases he : s = s'
        · subst he
          exact Or.inr (Or.inr (Or.inr (Or.inl ⟨x, x, by simp [hx, PcB.exitOf], by simp [setAt, PcB.exitOf],
               Or.inl rfl, rfl, rfl, rfl⟩)))
        · exact Or.inl (by simp [setAt, he])
      · exact Or.inl ⟨rfl, rfl, rfl, rfl⟩
    · cases h
  | sdTidyReturn s' pick =>
    simp only [stepB] at h
    by_cases he : s = s'
    · subst he
      split at h
      · split at h
        · split at h
          · rename_i x hx
            obtain ⟨r, hv, _, hph, _, hdl, _, _, hnow, hp, hfT, hfC, htb⟩ := finishRun_spec h
            refine Or.inr (Or.inr (Or.inr (Or.inr ⟨x, pick, r, by simp [hx, PcB.exitOf], hv, hph, hdl, hnow, ?_, ?_, ?_, ?_⟩)))
            · simp [hp, setAt]
            · simp [hfT]
            · simp [hfC]
            · simp [htb]
          · cases h
        · cases h
          exact Or.inl ⟨rfl, rfl, rfl, rfl⟩
        · cases h
      · cases h
    · (repeat' split at h)
      all_goals first
        | (cases h; done)
        | (cases h; exact Or.inl ⟨rfl, rfl, rfl, rfl⟩)
        | (obtain ⟨r, hv, _, hph, _, hdl, _, _, hnow, hp, hfT, hfC, htb⟩ := finishRun_spec h
           exact Or.inl (by simp [hp, hfT, hfC, htb, setAt, he]))

/-! ### why `loop_left_for_good` and `diag_stable` need `InvA`

  As first stated these two theorems assumed `InvB c st` only.  `InvB` alone does not relate the *phase* of the task
  of a scheduler whose run is over to its program counter (that is `InvA.notBegun`): the state `cexSt` below
  satisfies `InvB`, the nested scheduler `1` is `over` there while its task is (again) `queued`, and `grant 1` makes
  its run begin a second time — `pcB 1` goes from `over` back to `loop`.  The state is not reachable (`InvA` excludes
  it), hence the hypothesis `InvA c st.a` added to both statements, as in `no_start_outside_loop`. -/

def cexCfg : Cfg :=
  { n := 3, parent := fun j => if j = 2 then 1 else 0, isSched := fun j => j = 0 || j = 1, req := fun _ => [],
    critical := fun _ => false, forever := fun _ => false, window := fun _ => 0, timeout := fun _ => none,
    sdTimeout := fun _ => none, topPure := true }

/-- an (unreachable) state in which the nested scheduler `1` is both "over" (`pcB`, `pc`) and queued (`ph`) -/
def cexSt : StB :=
  { StB.init with
    a := { StA.init with
           ph := fun j => if j = 0 then .running else if j = 1 then .queued else if j = 2 then .done .retOwn else .idle
           pc := fun j => if j = 0 then .loop else if j = 1 then .over else .notBegun }
    pcB := fun j => if j = 0 then .loop else if j = 1 then .over else .notBegun
    didSd := fun j => j = 1
    bc := fun j => if j = 1 then .bover else .bnone
    hph := fun j => if j = 2 then .hdone else .hnone
    hcalls := fun j => if j = 2 then 1 else 0 }

theorem cex_children (s k : Nat) : k ∈ cexCfg.children s ↔ (s = 0 ∧ k = 1) ∨ (s = 1 ∧ k = 2) := by
  rw [CoreB.mem_children]
  simp only [cexCfg]
  constructor
  · intro ⟨h1, h2, h3⟩
    split at h3 <;> omega
  · rintro (⟨rfl, rfl⟩ | ⟨rfl, rfl⟩) <;> simp

theorem cex_invB : InvB cexCfg cexSt := by
  constructor
  all_goals intros
  all_goals try simp only [cex_children] at *
  all_goals simp only [cexSt, cexCfg, StB.init, StA.init, rxD, relayActive] at *
  all_goals first
    | grind [PcB.exiting, PcB.exitOf, Bc.isWait, Bc.isTidy, Ph.live, Ph.isDone]
    | (symm; rw [List.length_eq_zero_iff, List.filter_eq_nil_iff]; simp)

theorem cex_step : cexCfg.wf = true ∧ cexSt.pcB 1 = .over ∧
    (stepB cexCfg cexSt (.grant 1)).map (fun st => st.pcB 1) = some .loop := by
  decide

/-- `loop_left_for_good` without `InvA` is false -/
theorem loop_left_for_good_needs_invA :
    ¬ ∀ (c : Cfg) (st st' : StB) (e : EvB) (s : Nat), InvB c st → stepB c st e = some st' →
        st.pcB s ≠ .loop → st.pcB s ≠ .notBegun → st'.pcB s ≠ .loop ∧ st'.pcB s ≠ .notBegun := by
  intro H
  have h3 := cex_step.2.2
  cases hst : stepB cexCfg cexSt (.grant 1) with
  | none => rw [hst] at h3; cases h3
  | some st' =>
    rw [hst] at h3
    simp only [Option.map_some, Option.some.injEq] at h3
    exact (H cexCfg cexSt st' (.grant 1) 1 cex_invB hst (by decide) (by decide)).1 h3

/-- `diag_stable` without `InvA` is false -/
theorem diag_stable_needs_invA :
    ¬ ∀ (c : Cfg) (st st' : StB) (e : EvB) (s : Nat), InvB c st → stepB c st e = some st' → st.pcB s = .over →
        st'.pcB s = .over ∧ st'.failT s = st.failT s ∧ st'.failC s = st.failC s ∧ st'.a.ph s = st.a.ph s := by
  intro H
  have h3 := cex_step.2.2
  cases hst : stepB cexCfg cexSt (.grant 1) with
  | none => rw [hst] at h3; cases h3
  | some st' =>
    rw [hst] at h3
    simp only [Option.map_some, Option.some.injEq] at h3
    have := (H cexCfg cexSt st' (.grant 1) 1 cex_invB hst (by decide)).1
    rw [h3] at this; cases this

/-- … and never goes back to it (`InvA` is needed: see above) -/
theorem loop_left_for_good (c : Cfg) (st st' : StB) (e : EvB) (s : Nat) (hA : InvA c st.a)
    (hB : InvB c st) (h : stepB c st e = some st') (hs : st.pcB s ≠ .loop) (hs2 : st.pcB s ≠ .notBegun) :
    st'.pcB s ≠ .loop ∧ st'.pcB s ≠ .notBegun := by
  have hr := hB.pcRange s hs2
  have hnb := hA.notBegun s hr.2
  have hpn := hB.pcNotBegun s
  rcases pcB_step c st st' e s hB h with ⟨h1, _⟩ | ⟨h1, _⟩ | ⟨h1, _⟩ | ⟨x, x', _, h1, _⟩ | ⟨x, pick, r, _, _, _, _, _, h1, _⟩
  · rw [h1]; exact ⟨hs, hs2⟩
  · grind
  · exact absurd h1 hs
  · cases hp : st'.pcB s <;> simp_all [PcB.exitOf]
  · simp [h1]

/-- C04: the diagnosis of a run that is over never changes (`InvA` is needed: see above) -/
theorem diag_stable (c : Cfg) (st st' : StB) (e : EvB) (s : Nat) (hA : InvA c st.a)
    (hB : InvB c st) (h : stepB c st e = some st') (hover : st.pcB s = .over) :
    st'.pcB s = .over ∧ st'.failT s = st.failT s ∧ st'.failC s = st.failC s ∧ st'.a.ph s = st.a.ph s := by
  have hr := hB.pcRange s (by simp [hover])
  have hnb := hA.notBegun s hr.2
  have hpn := hB.pcNotBegun s
  have hpo := (hB.pcOver s).1 hover
  have hph : st'.a.ph s = st.a.ph s := by
    rcases stepB_refines c st st' e h with heq | ⟨ea, hea⟩
    · rw [heq]
    · have := stepA_ph_change c st.a st'.a ea hea s
      grind
  rcases pcB_step c st st' e s hB h with ⟨h1, h2, h3, _⟩ | ⟨h1, _⟩ | ⟨h1, _⟩ | ⟨x, x', h1, _⟩ | ⟨x, pick, r, h1, _⟩
  · exact ⟨by rw [h1, hover], h2, h3, hph⟩
  · grind
  · simp [hover] at h1
  · simp [hover, PcB.exitOf] at h1
  · simp [hover, PcB.exitOf] at h1

/-- C04: the step in which a run with jobs ends reports exactly the reason for which it left its loop:
    value / exception (the very exception object of one of its critical jobs, its own `TimeoutError`, or — whatever
    `critical` says, also for a `PureScheduler` at the top — the exception of its own orchestration when that failed);
    `failed_time_out()` and `failed_critical()` were recorded when the loop was left and are not touched here:
    `failed_time_out()` holds after exit `timeout`, does not after `success` / `critical`, and after `cancelled` it
    tells whether the run had timed out before the cancellation reached its clean-up; likewise `failed_critical()`
    holds after exit `critical`, does not after `success` / `timeout`, and after `cancelled` it tells whether the run
    had aborted on a critical failure before the cancellation reached its clean-up -/
theorem verdict_of_exit (c : Cfg) (st st' : StB) (e : EvB) (s : Nat)
    (hB : InvB c st) (h : stepB c st e = some st')
    (hnot : st.pcB s ≠ .over) (hover : st'.pcB s = .over) (hne : c.children s ≠ []) :
    ∃ x, (st.pcB s).exitOf = some x ∧
      st'.failT s = st.failT s ∧ (x = .timeout → st'.failT s = true) ∧
      (st'.failT s = true → x = .timeout ∨ x = .cancelled) ∧
      st'.failC s = st.failC s ∧ (x = .critical → st'.failC s = true) ∧
      (st'.failC s = true → x = .critical ∨ x = .cancelled) ∧
      (match x with
       | .success => st'.a.ph s = .done (.retBool true)
       | .cancelled => st'.a.ph s = .cancelled
       | .crashed => st'.a.ph s = .done (.exc (.orch s))
       | .timeout => st'.a.ph s =
           if nestable c s && c.critical s then .done (.exc (.tmo s)) else .done (.retBool false)
       | .critical =>
           if nestable c s && c.critical s then
             ∃ k ∈ c.children s, c.critical k = true ∧ ∃ ex, st.a.ph k = .done (.exc ex) ∧ st'.a.ph s = .done (.exc ex)
           else st'.a.ph s = .done (.retBool false)) := by
  rcases pcB_step c st st' e s hB h with ⟨h1, _⟩ | ⟨_, h1, _⟩ | ⟨_, ⟨x, h1⟩, _⟩ | ⟨x, x', _, h1, _⟩ |
    ⟨x, pick, r, hx, hv, hph, _, _, _, hfT, hfC, _⟩
  · rw [h1] at hover; exact absurd hover hnot
  · rw [h1, if_neg (by simpa using hne)] at hover; cases hover
  · rw [h1] at hover; cases hover
  · simp [hover, PcB.exitOf] at h1
  · refine ⟨x, hx, hfT, ?_, ?_, hfC, ?_, ?_, ?_⟩
    · intro hxt
      subst hxt
      rw [hfT]; exact hB.failTSet s hx
    · intro hf
      rw [hfT] at hf
      have := (hB.diagClear s hnot).2 hf
      rw [hx] at this
      simpa using this
    · intro hxc
      subst hxc
      rw [hfC]; exact hB.failCSet s hx
    · intro hf
      rw [hfC] at hf
      have := (hB.diagClear s hnot).1 hf
      rw [hx] at this
      simpa using this
    have hs : st'.a.ph s = finPh r := by rw [hph]; simp [setAt]
    rw [hs]
    cases x <;> simp only [verdict] at hv ⊢
    · cases hv; rfl
    · split at hv
      · rename_i hc
        rw [if_pos hc]
        split at hv
        · rename_i hp
          split at hv
          · rename_i ex hex
            cases hv
            exact ⟨pick, hp.1, hp.2, ex, hex, rfl⟩
          · cases hv
        · cases hv
      · rename_i hc
        rw [if_neg hc]
        cases hv; rfl
    · split at hv <;> cases hv <;> simp_all [finPh]
    · cases hv; rfl
    · cases hv; rfl


/-- C05 / C08 / C09: a run that has left its main loop never starts a job again … -/
theorem no_start_outside_loop (c : Cfg) (hwf : c.wf = true) (st st' : StB) (e : EvB) (s : Nat)
    (hA : InvA c st.a) (hB : InvB c st) (h : stepB c st e = some st')
    (hs : st.pcB s ≠ .loop) (hs2 : st.pcB s ≠ .notBegun) :
    ∀ k ∈ c.children s, st.a.ph k = .idle → st'.a.ph k = .idle := by
  intro k hk hi
  obtain ⟨hkn, hk0, hkp⟩ := CoreB.mem_children.1 hk
  have hr := hB.pcRange s hs2
  have hnb := hA.notBegun s hr.2
  have hpn := hB.pcNotBegun s
  have hpl := hB.pcLoop s
  rcases stepB_refines c st st' e h with heq | ⟨ea, hea⟩
  · rw [heq]; exact hi
  · have := stepA_start c st.a st'.a ea hea k hi
    rw [hkp] at this
    grind

/-! ### what the recorded reason means, in every reachable state -/

/-- what any step preserves: finished phases, reports, the clock -/
theorem step_facts (c : Cfg) (st st' : StB) (e : EvB) (h : stepB c st e = some st') :
    (∀ k, ((st.a.ph k).isDone = true ∨ st.a.ph k = .cancelled) → st'.a.ph k = st.a.ph k) ∧
    (∀ k, st.a.deliv k = true → st'.a.deliv k = true) ∧
    (∀ k, st'.a.deliv k = true → st.a.deliv k = true ∨ (k ∈ c.children (c.parent k) ∧ st.a.pc (c.parent k) = .loop)) ∧
    st.a.now ≤ st'.a.now := by
  rcases stepB_refines c st st' e h with heq | ⟨ea, hea⟩
  · rw [heq]; exact ⟨fun _ _ => rfl, fun _ h => h, fun _ h => Or.inl h, Nat.le_refl _⟩
  · refine ⟨?_, fun k => (stepA_deliv c _ _ ea hea k).1, fun k => (stepA_deliv c _ _ ea hea k).2, stepA_now c _ _ ea hea⟩
    intro k hk
    have := stepA_ph_change c _ _ ea hea k
    grind [Ph.isDone]

/-- where a `done` phase comes from -/
theorem newDone (c : Cfg) (st st' : StB) (e : EvB) (hB : InvB c st) (hB' : InvB c st') (h : stepB c st e = some st')
    (j : Nat) (r : Res) (hd : st'.a.ph j = .done r) :
    st.a.ph j = .done r ∨ (c.isSched j = false ∧ (r = .retOwn ∨ r = .exc (.byJob j))) ∨
    ((c.children j).isEmpty = true ∧ r = .retBool true) ∨
    (∃ x pick, (st.pcB j).exitOf = some x ∧ verdict c st j x pick = some (some r)) := by
  rcases stepB_refines c st st' e h with heq | ⟨ea, hea⟩
  · rw [heq] at hd; exact Or.inl hd
  · rcases stepA_newDone c _ _ ea hea j r hd with h1 | h1 | h1 | ⟨h1, h2, h3⟩
    · exact Or.inl h1
    · exact Or.inr (Or.inl h1)
    · exact Or.inr (Or.inr (Or.inl h1))
    · refine Or.inr (Or.inr (Or.inr ?_))
      have ho' := (hB'.pcOver j).2 h3
      have hn1 := hB.pcNotBegun j
      have hn2 := hB.pcLoop j
      have hn3 := hB.pcOver j
      rcases pcB_step c st st' e j hB h with ⟨q1, _⟩ | ⟨q0, q1, _⟩ | ⟨q1, _⟩ | ⟨x, x', _, q1, _⟩ |
          ⟨x, pick, r', hx, hv, hph, _⟩
      · grind
      · grind
      · grind
      · simp [ho', PcB.exitOf] at q1
      · refine ⟨x, pick, hx, ?_⟩
        rw [hph] at hd
        simp only [setAt, if_true] at hd
        cases r' <;> simp [finPh] at hd
        rw [hv, hd]

/-- success: every non-forever job has finished and was reported, no reported critical job raised -/
def SuccOb (c : Cfg) (a : StA) (s : Nat) : Prop :=
  (∀ k ∈ c.children s, c.forever k = false → (a.ph k).isDone = true ∧ a.deliv k = true) ∧
  (∀ k ∈ c.children s, c.critical k = true → a.deliv k = true → ∀ ex, a.ph k ≠ .done (.exc ex))

def TrueOb (c : Cfg) (a : StA) (s : Nat) : Prop :=
  (∀ k ∈ c.children s, c.forever k = false → (a.ph k).isDone = true) ∧
  (∀ k ∈ c.children s, c.critical k = true → a.deliv k = true → ∀ ex, a.ph k ≠ .done (.exc ex))

def CritOb (c : Cfg) (a : StA) (s : Nat) : Prop :=
  ∃ k ∈ c.children s, c.critical k = true ∧ ∃ ex, a.ph k = .done (.exc ex)

def TmoOb (c : Cfg) (st : StB) (s : Nat) : Prop :=
  ∃ T, c.timeout s = some T ∧ st.tbegin s + T ≤ st.a.now

theorem succ_true {c : Cfg} {a : StA} {s : Nat} (h : SuccOb c a s) : TrueOb c a s :=
  ⟨fun k hk hf => (h.1 k hk hf).1, h.2⟩

theorem true_transfer (c : Cfg) (st st' : StB) (e : EvB) (hA : InvA c st.a) (hB : InvB c st)
    (h : stepB c st e = some st') (s : Nat) (hnl : st.pcB s ≠ .loop) (ho : TrueOb c st.a s) : TrueOb c st'.a s := by
  obtain ⟨f1, f2, f3, _⟩ := step_facts c st st' e h
  refine ⟨?_, ?_⟩
  · intro k hk hf
    have h1 := ho.1 k hk hf
    rw [f1 k (Or.inl h1)]; exact h1
  · intro k hk hc hd ex
    have hd0 : st.a.deliv k = true := by
      rcases f3 k hd with h1 | ⟨_, h1⟩
      · exact h1
      · rw [(CoreB.mem_children.1 hk).2.2] at h1
        exact absurd ((hB.pcLoop s).2 h1) hnl
    rw [f1 k (hA.delivFin k hd0)]
    exact ho.2 k hk hc hd0 ex

theorem succ_transfer (c : Cfg) (st st' : StB) (e : EvB) (hA : InvA c st.a) (hB : InvB c st)
    (h : stepB c st e = some st') (s : Nat) (hnl : st.pcB s ≠ .loop) (ho : SuccOb c st.a s) : SuccOb c st'.a s := by
  obtain ⟨f1, f2, f3, _⟩ := step_facts c st st' e h
  refine ⟨?_, (true_transfer c st st' e hA hB h s hnl (succ_true ho)).2⟩
  intro k hk hf
  have h1 := ho.1 k hk hf
  rw [f1 k (Or.inl h1.1)]; exact ⟨h1.1, f2 k h1.2⟩

theorem crit_transfer (c : Cfg) (st st' : StB) (e : EvB)
    (h : stepB c st e = some st') (s : Nat) (ho : CritOb c st.a s) : CritOb c st'.a s := by
  obtain ⟨f1, _⟩ := step_facts c st st' e h
  obtain ⟨k, hk, hc, ex, hex⟩ := ho
  exact ⟨k, hk, hc, ex, by rw [f1 k (Or.inl (by simp [hex, Ph.isDone])), hex]⟩

theorem tmo_transfer (c : Cfg) (st st' : StB) (e : EvB)
    (h : stepB c st e = some st') (s : Nat) (htb : st'.tbegin s = st.tbegin s) (ho : TmoOb c st s) : TmoOb c st' s := by
  obtain ⟨_, _, _, f4⟩ := step_facts c st st' e h
  obtain ⟨T, hT, hle⟩ := ho
  exact ⟨T, hT, by rw [htb]; omega⟩

theorem filter_length_eq_imp (l : List Nat) (p q : Nat → Bool) (hpq : ∀ k, p k = true → q k = true)
    (hlen : (l.filter p).length = (l.filter q).length) : ∀ k ∈ l, q k = true → p k = true := by
  induction l with
  | nil => intro k hk; cases hk
  | cons a l ih =>
    have h1 := List.length_filter_le p l
    have h2 : (l.filter p).length ≤ (l.filter q).length := by
      have : l.filter p = (l.filter q).filter p := by
        rw [List.filter_filter]; apply List.filter_congr; intro k _
        cases hp : p k <;> simp [hp]; exact hpq k hp
      rw [this]; exact List.length_filter_le _ _
    simp only [List.filter_cons] at hlen
    intro k hk hq
    cases hpa : p a <;> cases hqa : q a <;> simp [hpa, hqa] at hlen
    · rcases List.mem_cons.1 hk with rfl | hk'
      · simp [hq] at hqa
      · exact ih hlen k hk' hq
    · omega
    · have := hpq a hpa; simp [hqa] at this
    · rcases List.mem_cons.1 hk with rfl | hk'
      · exact hpa
      · exact ih hlen k hk' hq

/-- the counting argument: when the count of reported non-forever jobs reaches their number in a reaction
    without critical failure, the run has succeeded -/
theorem succ_at_exit (c : Cfg) (st : StB) (s : Nat) (D : List Nat) (hA : InvA c st.a) (hB : InvB c st)
    (hloop : st.pcB s = .loop) (hD : st.a.rx s = some D) (hcrit : critIn c st.a D = false)
    (hcnt : st.nbDone s + (D.filter fun d => !c.forever d).length = nbFinite c s) : SuccOb c st.a s := by
  have hc := hB.count s hloop
  obtain ⟨q, hq⟩ := hB.rxSub s D hD
  have hrl := (hA.rxLoop s D hD).2
  simp only [rxD, hD, Option.getD_some] at hc
  have hcr := count_react (c.children s) D c.forever st.a.deliv q hq hrl
  rw [← hc, hcnt] at hcr
  unfold nbFinite at hcr
  have hall := filter_length_eq_imp (c.children s) (fun k => !c.forever k && st.a.deliv k && !(([] : List Nat).contains k))
    (fun k => !c.forever k) (by intro k hk; simp at hk ⊢; exact hk.1) hcr.symm
  refine ⟨?_, ?_⟩
  · intro k hk hf
    have := hall k hk (by simp [hf])
    simp at this
    have hd := this.2
    refine ⟨?_, hd⟩
    rcases hA.delivFin k hd with h1 | h1
    · exact h1
    · exact absurd h1 (hB.loopClean s hloop k hk).2
  · intro k hk hcr hd ex hex
    rcases hB.noCrit s hloop k hk hcr ⟨ex, hex⟩ with h1 | h1
    · simp [hd] at h1
    · simp only [rxD, hD, Option.getD_some] at h1
      exact critIn_false hcrit k h1 hcr ex hex
/-- what holds, beyond `InvB`, about the reason for which a run left its loop -/
structure ExitInv (c : Cfg) (st : StB) : Prop where
  /-- success: every non-forever job has finished (returned or raised), and no critical job that raised had
      been reported -/
  successMeans : ∀ s, (st.pcB s).exitOf = some .success →
      (∀ k ∈ c.children s, c.forever k = false → (st.a.ph k).isDone = true ∧ st.a.deliv k = true) ∧
      (∀ k ∈ c.children s, c.critical k = true → st.a.deliv k = true → ∀ ex, st.a.ph k ≠ .done (.exc ex))
  /-- critical: a critical job raised -/
  criticalMeans : ∀ s, (st.pcB s).exitOf = some .critical →
      ∃ k ∈ c.children s, c.critical k = true ∧ ∃ ex, st.a.ph k = .done (.exc ex)
  /-- timeout: the scheduler has a timeout and it has elapsed since its run began -/
  timeoutMeans : ∀ s, (st.pcB s).exitOf = some .timeout →
      ∃ T, c.timeout s = some T ∧ st.tbegin s + T ≤ st.a.now
  /-- C02 / C04: a run that ended with `True` has all its non-forever jobs finished (each ran exactly once, by
      `at_most_once`), none of its reported critical jobs raised -/
  trueMeans : ∀ s, s < c.n → c.isSched s = true → st.a.ph s = .done (.retBool true) →
      (∀ k ∈ c.children s, c.forever k = false → (st.a.ph k).isDone = true) ∧
      (∀ k ∈ c.children s, c.critical k = true → st.a.deliv k = true → ∀ ex, st.a.ph k ≠ .done (.exc ex))
  /-- C04 / C08: `failed_time_out()` holds only if the timeout elapsed, `failed_critical()` only if a critical job raised -/
  failTMeans : ∀ s, st.failT s = true → ∃ T, c.timeout s = some T ∧ st.tbegin s + T ≤ st.a.now
  /-- … and in every state (not only once the run is over) it tells that the run left its main loop on expiry:
      it does not hold before the run has left its loop; while the run cleans up it holds iff the exit reason is
      `timeout`, or `cancelled` after a `timeout` (`InvB.diagClear`, `InvB.failTSet`; history form:
      `failT_iff_timesOut`); once the run is over, the run ended with the verdict of a timeout, or cancelled -/
  failTOver : ∀ s, st.pcB s = .over → st.failT s = true →
      st.a.ph s = .cancelled ∨
      st.a.ph s = (if nestable c s && c.critical s then .done (.exc (.tmo s)) else .done (.retBool false))
  failCMeans : ∀ s, st.failC s = true → ∃ k ∈ c.children s, c.critical k = true ∧ ∃ ex, st.a.ph k = .done (.exc ex)
  /-- … and, like `failed_time_out()`, in every state it tells that the run left its main loop by a critical failure:
      it does not hold before the run has left its loop; while the run cleans up it holds iff the exit reason is
      `critical`, or `cancelled` after a `critical` (`InvB.diagClear`, `InvB.failCSet`; history form:
      `failC_iff_critOut`); once the run is over, the run ended with the verdict of a critical failure (the exception
      of one of its critical jobs, or `False`), or cancelled -/
  failCOver : ∀ s, st.pcB s = .over → st.failC s = true →
      st.a.ph s = .cancelled ∨
      (if nestable c s && c.critical s then
         ∃ k ∈ c.children s, c.critical k = true ∧ ∃ ex, st.a.ph k = .done (.exc ex) ∧ st.a.ph s = .done (.exc ex)
       else st.a.ph s = .done (.retBool false))
  /-- C10: where an exception object comes from: an atomic job raises its own; a scheduler re-raises the object
      of one of its critical jobs, or its own `TimeoutError` (both: only if it is critical itself), or raises the
      exception of its own orchestration (critical or not) -/
  excOrigin : ∀ j ex, j < c.n → st.a.ph j = .done (.exc ex) →
      if c.isSched j then
        (ex = .tmo j ∧ c.critical j = true) ∨ ex = .orch j ∨
        (c.critical j = true ∧ ∃ k ∈ c.children j, c.critical k = true ∧ st.a.ph k = .done (.exc ex))
      else ex = .byJob j

theorem verdict_true {c : Cfg} {st : StB} {s : Nat} {x : Exit} {pick : Nat}
    (h : verdict c st s x pick = some (some (.retBool true))) : x = .success := by
  cases x <;> simp only [verdict] at h
  · rfl
  · split at h
    · split at h
      · split at h <;> cases h
      · cases h
    · cases h
  · split at h <;> cases h
  · cases h
  · cases h

theorem verdict_exc {c : Cfg} {st : StB} {s : Nat} {x : Exit} {pick : Nat} {ex : Exc}
    (h : verdict c st s x pick = some (some (.exc ex))) :
    (x = .crashed ∧ ex = .orch s) ∨
    (c.critical s = true ∧ ((x = .timeout ∧ ex = .tmo s) ∨
      (x = .critical ∧ pick ∈ c.children s ∧ c.critical pick = true ∧ st.a.ph pick = .done (.exc ex)))) := by
  cases x <;> simp only [verdict] at h
  · cases h
  · split at h
    · rename_i hc
      split at h
      · rename_i hp
        split at h
        · rename_i e he
          cases h
          exact Or.inr ⟨by simp at hc; exact hc.2, Or.inr ⟨rfl, hp.1, hp.2, he⟩⟩
        · cases h
      · cases h
    · cases h
  · split at h
    · rename_i hc
      cases h
      exact Or.inr ⟨by simp at hc; exact hc.2, Or.inl ⟨rfl, rfl⟩⟩
    · cases h
  · cases h
  · cases h; exact Or.inl ⟨rfl, rfl⟩

theorem exitInv_init (c : Cfg) : ExitInv c StB.init := by
  constructor <;> intros <;> simp_all [StB.init, StA.init, PcB.exitOf]

theorem exitInv_step (c : Cfg) (hwf : c.wf = true) (st st' : StB) (e : EvB)
    (hA : InvA c st.a) (hB : InvB c st) (hE : ExitInv c st) (h : stepB c st e = some st') : ExitInv c st' := by
  have hB' := invB_step c hwf st st' e hA hB h
  obtain ⟨f1, f2, f3, f4⟩ := step_facts c st st' e h
  -- the obligations of a scheduler that is (still) exiting
  have hexit : ∀ s x, (st'.pcB s).exitOf = some x → x ≠ .cancelled →
      ((st.pcB s).exitOf = some x ∧ st'.tbegin s = st.tbegin s) ∨
      (st.pcB s = .loop ∧ st'.pcB s = .tidy x) := by
    intro s x hx hxc
    rcases pcB_step c st st' e s hB h with ⟨q1, _, _, q2⟩ | ⟨_, q1, _⟩ | ⟨q0, ⟨y, q1⟩, _⟩ |
        ⟨y, y', q0, q1, q2, _, _, q3⟩ | ⟨y, pick, r, _, _, _, _, _, q1, _⟩
    · rw [q1] at hx; exact Or.inl ⟨hx, q2⟩
    · rw [q1] at hx; split at hx <;> simp [PcB.exitOf] at hx
    · rw [q1] at hx ⊢; simp only [PcB.exitOf, Option.some.injEq] at hx; subst hx; exact Or.inr ⟨q0, rfl⟩
    · rw [q1] at hx; cases hx
      rcases q2 with rfl | rfl
      · exact Or.inl ⟨q0, q3⟩
      · exact absurd rfl hxc
    · rw [q1] at hx; simp [PcB.exitOf] at hx
  have hnl : ∀ s x, (st.pcB s).exitOf = some x → st.pcB s ≠ .loop := by
    intro s x hx hl; rw [hl] at hx; simp [PcB.exitOf] at hx
  have hsucc : ∀ s, (st'.pcB s).exitOf = some .success → SuccOb c st'.a s := by
    intro s hx
    rcases hexit s _ hx (by simp) with ⟨h1, _⟩ | ⟨h1, h2⟩
    · exact succ_transfer c st st' e hA hB h s (hnl s _ h1) (hE.successMeans s h1)
    · obtain ⟨x, hx', hph, _, hdl, _, _, _, _, hr⟩ := loop_exit c st st' e s hB h h1 (by simp [h2])
      rw [h2] at hx'; cases hx'
      obtain ⟨_, D, hD, hcrit, hcnt⟩ := hr
      have := succ_at_exit c st s D hA hB h1 hD hcrit hcnt
      unfold SuccOb at this ⊢
      rw [hph, hdl]; exact this
  have hcrit : ∀ s, (st'.pcB s).exitOf = some .critical → CritOb c st'.a s := by
    intro s hx
    rcases hexit s _ hx (by simp) with ⟨h1, _⟩ | ⟨h1, h2⟩
    · exact crit_transfer c st st' e h s (hE.criticalMeans s h1)
    · obtain ⟨x, hx', hph, _, hdl, _, _, _, _, hr⟩ := loop_exit c st st' e s hB h h1 (by simp [h2])
      rw [h2] at hx'; cases hx'
      obtain ⟨_, D, hD, hcrit⟩ := hr
      simp only [critIn, List.any_eq_true, Bool.and_eq_true] at hcrit
      obtain ⟨d, hd, hc, hex⟩ := hcrit
      obtain ⟨q, hq⟩ := hB.rxSub s D hD
      have hdc : d ∈ c.children s := by rw [hq] at hd; exact (List.mem_filter.1 hd).1
      unfold CritOb
      rw [hph]
      refine ⟨d, hdc, hc, ?_⟩
      split at hex
      · rename_i ex hph; exact ⟨ex, hph⟩
      · cases hex
  have htmo : ∀ s, (st'.pcB s).exitOf = some .timeout → TmoOb c st' s := by
    intro s hx
    rcases hexit s _ hx (by simp) with ⟨h1, h2⟩ | ⟨h1, h2⟩
    · exact tmo_transfer c st st' e h s h2 (hE.timeoutMeans s h1)
    · obtain ⟨x, hx', _, _, _, hnow, htb, _, _, hr⟩ := loop_exit c st st' e s hB h h1 (by simp [h2])
      rw [h2] at hx'; cases hx'
      obtain ⟨dl, hdl, hle, _⟩ := hr
      have := hB.deadlineEq s h1
      rw [hdl] at this
      cases hT : c.timeout s with
      | none => simp [hT] at this
      | some T =>
        simp [hT] at this
        exact ⟨T, hT, by rw [htb, hnow]; omega⟩
  -- `failed_time_out()` is clear on a run that is about to begin
  have hbeg : ∀ s, (st.a.ph s = .queued ∨ st.pcB s = .notBegun) → ¬ st.failT s = true := by
    intro s q0 hf
    by_cases ho : st.pcB s = .over
    · have hr := hB.pcRange s (by simp [ho])
      have := hA.notBegun s hr.2
      have := hB.pcNotBegun s
      grind
    · have h1 := (hB.diagClear s ho).2 hf
      have h2 := hB.runPh s
      cases hp : st.pcB s <;> simp_all [PcB.exitOf]
  -- … and so is `failed_critical()`
  have hbegC : ∀ s, (st.a.ph s = .queued ∨ st.pcB s = .notBegun) → ¬ st.failC s = true := by
    intro s q0 hf
    by_cases ho : st.pcB s = .over
    · have hr := hB.pcRange s (by simp [ho])
      have := hA.notBegun s hr.2
      have := hB.pcNotBegun s
      grind
    · have h1 := (hB.diagClear s ho).1 hf
      have h2 := hB.runPh s
      cases hp : st.pcB s <;> simp_all [PcB.exitOf]
  exact
    { successMeans := hsucc
      criticalMeans := hcrit
      timeoutMeans := htmo
      trueMeans := by
        intro s hsn hss hd
        rcases newDone c st st' e hB hB' h s _ hd with h1 | h1 | h1 | ⟨x, pick, hx, hv⟩
        · have hnl' : st.pcB s ≠ .loop := by
            intro hl
            have := hB.runPh s (by simp [hl]) (by simp [hl])
            simp [h1] at this
          exact true_transfer c st st' e hA hB h s hnl' (hE.trueMeans s hsn hss h1)
        · simp [hss] at h1
        · have : c.children s = [] := by simpa using h1.1
          simp [this]
        · have := verdict_true hv
          subst this
          exact succ_true (succ_transfer c st st' e hA hB h s (hnl s _ hx) (hE.successMeans s hx))
      failTMeans := by
        intro s hf
        rcases pcB_step c st st' e s hB h with ⟨_, q1, _, q2⟩ | ⟨q0, _, q1, _⟩ | ⟨_, _, q1, _, q2⟩ |
            ⟨y, y', _, _, _, q1, _, q2⟩ | ⟨y, pick, r, hy, _, _, _, _, _, q1, _, q2⟩
        · rw [q1] at hf; exact tmo_transfer c st st' e h s q2 (hE.failTMeans s hf)
        · exact absurd (q1 ▸ hf) (hbeg s q0)
        · exact htmo s (by rw [q1.1 hf]; rfl)
        · rw [q1] at hf; exact tmo_transfer c st st' e h s q2 (hE.failTMeans s hf)
        · rw [q1] at hf; exact tmo_transfer c st st' e h s q2 (hE.failTMeans s hf)
      failTOver := by
        intro s ho hf
        rcases pcB_step c st st' e s hB h with ⟨q0, q1, _⟩ | ⟨q0, _, q1, _⟩ | ⟨_, ⟨y, q0⟩, _⟩ |
            ⟨y, y', _, q0, _⟩ | ⟨y, pick, r, hy, hv, hph, _, _, _, q1, _⟩
        · rw [q0] at ho; rw [q1] at hf
          have := hE.failTOver s ho hf
          have hd : (st.a.ph s).isDone = true ∨ st.a.ph s = .cancelled := by
            rcases this with h1 | h1
            · exact Or.inr h1
            · left; rw [h1]; split <;> rfl
          rw [f1 s hd]; exact this
        · exact absurd (q1 ▸ hf) (hbeg s q0)
        · rw [q0] at ho; cases ho
        · rw [ho] at q0; simp [PcB.exitOf] at q0
        · rw [q1] at hf
          have hno : st.pcB s ≠ .over := by intro ho'; rw [ho'] at hy; simp [PcB.exitOf] at hy
          have := (hB.diagClear s hno).2 hf
          rw [hy] at this
          have hs : st'.a.ph s = finPh r := by rw [hph]; simp [setAt]
          rw [hs]
          rcases this with h1 | h1
          · have : y = .timeout := by simpa using h1
            subst this
            simp only [verdict] at hv
            right
            split at hv <;> cases hv <;> simp_all [finPh]
          · have : y = .cancelled := by simpa using h1
            subst this
            simp only [verdict] at hv
            cases hv; left; rfl
      failCMeans := by
        intro s hf
        rcases pcB_step c st st' e s hB h with ⟨_, _, q1, _⟩ | ⟨_, _, _, q1, _⟩ | ⟨_, _, _, q1, _⟩ |
            ⟨y, y', _, _, _, _, q1, _⟩ | ⟨y, pick, r, hy, _, _, _, _, _, _, q1, _⟩
        · rw [q1] at hf; exact crit_transfer c st st' e h s (hE.failCMeans s hf)
        · rw [q1] at hf; exact crit_transfer c st st' e h s (hE.failCMeans s hf)
        · exact hcrit s (by rw [q1.1 hf]; rfl)
        · rw [q1] at hf; exact crit_transfer c st st' e h s (hE.failCMeans s hf)
        · rw [q1] at hf; exact crit_transfer c st st' e h s (hE.failCMeans s hf)
      failCOver := by
        intro s ho hf
        rcases pcB_step c st st' e s hB h with ⟨q0, _, q1, _⟩ | ⟨q0, _, _, q1, _⟩ | ⟨_, ⟨y, q0⟩, _⟩ |
            ⟨y, y', _, q0, _⟩ | ⟨y, pick, r, hy, hv, hph, _, _, _, _, q1, _⟩
        · rw [q0] at ho; rw [q1] at hf
          have := hE.failCOver s ho hf
          have hd : (st.a.ph s).isDone = true ∨ st.a.ph s = .cancelled := by
            rcases this with h1 | h1
            · exact Or.inr h1
            · left
              split at h1
              · obtain ⟨_, _, _, _, _, h2⟩ := h1; rw [h2]; rfl
              · rw [h1]; rfl
          rw [f1 s hd]
          rcases this with h1 | h1
          · exact Or.inl h1
          · right
            split at h1
            · rename_i hc
              rw [if_pos hc]
              obtain ⟨k, hk, hkc, ex, hke, h2⟩ := h1
              exact ⟨k, hk, hkc, ex, by rw [f1 k (Or.inl (by simp [hke, Ph.isDone])), hke], h2⟩
            · rename_i hc
              rw [if_neg hc]; exact h1
        · exact absurd (q1 ▸ hf) (hbegC s q0)
        · rw [q0] at ho; cases ho
        · rw [ho] at q0; simp [PcB.exitOf] at q0
        · rw [q1] at hf
          have hno : st.pcB s ≠ .over := by intro ho'; rw [ho'] at hy; simp [PcB.exitOf] at hy
          have := (hB.diagClear s hno).1 hf
          rw [hy] at this
          have hs : st'.a.ph s = finPh r := by rw [hph]; simp [setAt]
          rw [hs]
          rcases this with h1 | h1
          · have : y = .critical := by simpa using h1
            subst this
            simp only [verdict] at hv
            right
            split at hv
            · rename_i hc
              rw [if_pos hc]
              split at hv
              · rename_i hp
                split at hv
                · rename_i ex hex
                  cases hv
                  refine ⟨pick, hp.1, hp.2, ex, ?_, rfl⟩
                  rw [f1 pick (Or.inl (by simp [hex, Ph.isDone])), hex]
                · cases hv
              · cases hv
            · rename_i hc
              rw [if_neg hc]
              cases hv; rfl
          · have : y = .cancelled := by simpa using h1
            subst this
            simp only [verdict] at hv
            cases hv; left; rfl
      excOrigin := by
        intro j ex hjn hd
        rcases newDone c st st' e hB hB' h j _ hd with h1 | h1 | h1 | ⟨x, pick, hx, hv⟩
        · have := hE.excOrigin j ex hjn h1
          split at this
          · rename_i hs
            rw [if_pos hs]
            rcases this with h2 | h2 | ⟨h2, k, hk, hkc, hke⟩
            · exact Or.inl h2
            · exact Or.inr (Or.inl h2)
            · exact Or.inr (Or.inr ⟨h2, k, hk, hkc, by rw [f1 k (Or.inl (by simp [hke, Ph.isDone])), hke]⟩)
          · rename_i hs
            rw [if_neg hs]; exact this
        · rw [if_neg (by simp [h1.1])]
          rcases h1.2 with h2 | h2
          · cases h2
          · cases h2; rfl
        · simp at h1
        · have hs : c.isSched j = true := (hB.pcRange j (by intro hn; rw [hn] at hx; simp [PcB.exitOf] at hx)).2
          rw [if_pos hs]
          rcases verdict_exc hv with ⟨_, h2⟩ | ⟨hc, h2 | ⟨_, hp, hpc, hpe⟩⟩
          · exact Or.inr (Or.inl h2)
          · exact Or.inl ⟨h2.2, hc⟩
          · exact Or.inr (Or.inr ⟨hc, pick, hp, hpc, by rw [f1 pick (Or.inl (by simp [hpe, Ph.isDone])), hpe]⟩) }

theorem exitInv_accept (c : Cfg) (hwf : c.wf = true) (evs : List EvB) (st0 st : StB)
    (hA : InvA c st0.a) (hB : InvB c st0) (hE : ExitInv c st0) (h : acceptB c st0 evs = some st) : ExitInv c st := by
  induction evs generalizing st0 with
  | nil => simp only [acceptB] at h; cases h; exact hE
  | cons e es ih =>
    simp only [acceptB] at h
    split at h
    · rename_i st1 hs
      have hB1 := invB_step c hwf st0 st1 e hA hB hs
      have hE1 := exitInv_step c hwf st0 st1 e hA hB hE hs
      have hA1 : InvA c st1.a := by
        rcases stepB_refines c st0 st1 e hs with heq | ⟨ea, hea⟩
        · rw [heq]; exact hA
        · exact invA_step c hwf st0.a st1.a ea hA hea
      exact ih st1 hA1 hB1 hE1 h
    · cases h

theorem exitInv_reach (c : Cfg) (hwf : c.wf = true) (evs : List EvB) (st : StB)
    (h : acceptB c StB.init evs = some st) : ExitInv c st :=
  exitInv_accept c hwf evs StB.init st (invA_init c) (invB_init c) (exitInv_init c) h

/-! ### `failed_time_out()` and the history -/

/-- one step: `failed_time_out()` of `s` holds afterwards iff it held before, or the step takes the run of `s`
    out of its main loop on expiry -/
theorem failT_step (c : Cfg) (hwf : c.wf = true) (st st' : StB) (e : EvB) (s : Nat)
    (hA : InvA c st.a) (hB : InvB c st) (h : stepB c st e = some st') :
    st'.failT s = true ↔ st.failT s = true ∨ st'.pcB s = .tidy .timeout := by
  have hB' := invB_step c hwf st st' e hA hB h
  constructor
  · intro hf
    rcases pcB_step c st st' e s hB h with ⟨_, q1, _⟩ | ⟨_, _, q1, _⟩ | ⟨_, _, q1, _⟩ |
        ⟨y, y', _, _, _, q1, _⟩ | ⟨y, pick, r, _, _, _, _, _, _, q1, _⟩
    · exact Or.inl (q1 ▸ hf)
    · exact Or.inl (q1 ▸ hf)
    · exact Or.inr (q1.1 hf)
    · exact Or.inl (q1 ▸ hf)
    · exact Or.inl (q1 ▸ hf)
  · rintro (hf | hx)
    · rcases pcB_step c st st' e s hB h with ⟨_, q1, _⟩ | ⟨_, _, q1, _⟩ | ⟨q0, _, q1, _⟩ |
          ⟨y, y', _, _, _, q1, _⟩ | ⟨y, pick, r, _, _, _, _, _, _, q1, _⟩
      · rw [q1]; exact hf
      · rw [q1]; exact hf
      · have := (hB.diagClear s (by simp [q0])).2 hf
        simp [q0, PcB.exitOf] at this
      · rw [q1]; exact hf
      · rw [q1]; exact hf
    · exact hB'.failTSet s (by rw [hx]; rfl)

theorem failT_iff_timesOutFrom (c : Cfg) (hwf : c.wf = true) (s : Nat) (evs : List EvB) (st0 st : StB)
    (hA : InvA c st0.a) (hB : InvB c st0) (h : acceptB c st0 evs = some st) :
    st.failT s = true ↔ st0.failT s = true ∨ timesOutFrom c s st0 evs := by
  induction evs generalizing st0 with
  | nil =>
    simp only [acceptB] at h; cases h
    rw [timesOutFrom_nil]
    constructor
    · exact Or.inl
    · rintro (hf | hx)
      · exact hf
      · exact hB.failTSet s (by rw [hx]; rfl)
  | cons e es ih =>
    simp only [acceptB] at h
    split at h
    · rename_i st1 hs
      have hB1 := invB_step c hwf st0 st1 e hA hB hs
      have hA1 : InvA c st1.a := by
        rcases stepB_refines c st0 st1 e hs with heq | ⟨ea, hea⟩
        · rw [heq]; exact hA
        · exact invA_step c hwf st0.a st1.a ea hA hea
      rw [ih st1 hA1 hB1 h, failT_step c hwf st0 st1 e s hA hB hs, timesOutFrom_cons c s st0 st1 e es hs]
      constructor
      · rintro ((hf | hx) | ht)
        · exact Or.inl hf
        · exact Or.inr (Or.inr ⟨[], st1, List.nil_prefix, rfl, hx⟩)
        · exact Or.inr (Or.inr ht)
      · rintro (hf | hx | ht)
        · exact Or.inl (Or.inl hf)
        · exact Or.inl (Or.inl (hB.failTSet s (by rw [hx]; rfl)))
        · exact Or.inr ht
    · cases h

/-- C04 / C08: in every reachable state — while the run cleans up as well as once it is over, and whatever the
    clean-up ends with (a cancellation by the enclosing scheduler included) — `failed_time_out()` of `s` holds iff the
    run of `s` left its main loop on expiry -/
theorem failT_iff_timesOut (c : Cfg) (hwf : c.wf = true) (evs : List EvB) (st : StB)
    (h : acceptB c StB.init evs = some st) (s : Nat) :
    st.failT s = true ↔ timesOut c s evs := by
  rw [failT_iff_timesOutFrom c hwf s evs StB.init st (invA_init c) (invB_init c) h]
  simp [timesOut, StB.init]

/-! ### `failed_critical()` and the history -/

/-- one step: `failed_critical()` of `s` holds afterwards iff it held before, or the step takes the run of `s`
    out of its main loop by a critical failure -/
theorem failC_step (c : Cfg) (hwf : c.wf = true) (st st' : StB) (e : EvB) (s : Nat)
    (hA : InvA c st.a) (hB : InvB c st) (h : stepB c st e = some st') :
    st'.failC s = true ↔ st.failC s = true ∨ st'.pcB s = .tidy .critical := by
  have hB' := invB_step c hwf st st' e hA hB h
  constructor
  · intro hf
    rcases pcB_step c st st' e s hB h with ⟨_, _, q1, _⟩ | ⟨_, _, _, q1, _⟩ | ⟨_, _, _, q1, _⟩ |
        ⟨y, y', _, _, _, _, q1, _⟩ | ⟨y, pick, r, _, _, _, _, _, _, _, q1, _⟩
    · exact Or.inl (q1 ▸ hf)
    · exact Or.inl (q1 ▸ hf)
    · exact Or.inr (q1.1 hf)
    · exact Or.inl (q1 ▸ hf)
    · exact Or.inl (q1 ▸ hf)
  · rintro (hf | hx)
    · rcases pcB_step c st st' e s hB h with ⟨_, _, q1, _⟩ | ⟨_, _, _, q1, _⟩ | ⟨q0, _, _, q1, _⟩ |
          ⟨y, y', _, _, _, _, q1, _⟩ | ⟨y, pick, r, _, _, _, _, _, _, _, q1, _⟩
      · rw [q1]; exact hf
      · rw [q1]; exact hf
      · have := (hB.diagClear s (by simp [q0])).1 hf
        simp [q0, PcB.exitOf] at this
      · rw [q1]; exact hf
      · rw [q1]; exact hf
    · exact hB'.failCSet s (by rw [hx]; rfl)

theorem failC_iff_critOutFrom (c : Cfg) (hwf : c.wf = true) (s : Nat) (evs : List EvB) (st0 st : StB)
    (hA : InvA c st0.a) (hB : InvB c st0) (h : acceptB c st0 evs = some st) :
    st.failC s = true ↔ st0.failC s = true ∨ critOutFrom c s st0 evs := by
  induction evs generalizing st0 with
  | nil =>
    simp only [acceptB] at h; cases h
    rw [critOutFrom_nil]
    constructor
    · exact Or.inl
    · rintro (hf | hx)
      · exact hf
      · exact hB.failCSet s (by rw [hx]; rfl)
  | cons e es ih =>
    simp only [acceptB] at h
    split at h
    · rename_i st1 hs
      have hB1 := invB_step c hwf st0 st1 e hA hB hs
      have hA1 : InvA c st1.a := by
        rcases stepB_refines c st0 st1 e hs with heq | ⟨ea, hea⟩
        · rw [heq]; exact hA
        · exact invA_step c hwf st0.a st1.a ea hA hea
      rw [ih st1 hA1 hB1 h, failC_step c hwf st0 st1 e s hA hB hs, critOutFrom_cons c s st0 st1 e es hs]
      constructor
      · rintro ((hf | hx) | ht)
        · exact Or.inl hf
        · exact Or.inr (Or.inr ⟨[], st1, List.nil_prefix, rfl, hx⟩)
        · exact Or.inr (Or.inr ht)
      · rintro (hf | hx | ht)
        · exact Or.inl (Or.inl hf)
        · exact Or.inl (Or.inl (hB.failCSet s (by rw [hx]; rfl)))
        · exact Or.inr ht
    · cases h

/-- C04 / C05: in every reachable state — while the run cleans up as well as once it is over, and whatever the
    clean-up ends with (a cancellation by the enclosing scheduler included) — `failed_critical()` of `s` holds iff
    the run of `s` left its main loop by a critical failure -/
theorem failC_iff_critOut (c : Cfg) (hwf : c.wf = true) (evs : List EvB) (st : StB)
    (h : acceptB c StB.init evs = some st) (s : Nat) :
    st.failC s = true ↔ critOut c s evs := by
  rw [failC_iff_critOutFrom c hwf s evs StB.init st (invA_init c) (invB_init c) h]
  simp [critOut, StB.init]

/-! ### non-vacuity: the expiry noticed in a reaction

  Scheduler `0` with timeout 3, job `1` (3 time units), job `2` requiring job `1`: the completion of `1` is reported
  in the very instant of the deadline; the reaction takes the timeout exit, `failed_time_out()` holds at once, and
  job `2` is never queued.  A second configuration nests that scheduler (`1`, jobs `2` and `3`) in a scheduler with
  a critical job `4` that raises meanwhile: the nested run times out, is cancelled during its clean-up, ends
  cancelled — and still reports `failed_time_out()`. -/

def tmoCfg : Cfg :=
  { n := 3, parent := fun _ => 0, isSched := fun j => j = 0, req := fun j => if j = 2 then [1] else [],
    critical := fun _ => false, forever := fun _ => false, window := fun _ => 0,
    timeout := fun j => if j = 0 then some 3 else none, sdTimeout := fun _ => none, topPure := true }

def tmoEvs : List EvB := [.runBegin, .grant 1, .tick 3, .bodyEnd 1 true, .waitReturn 0, .react 0]

example : tmoCfg.wf = true ∧
    (acceptB tmoCfg StB.init tmoEvs).map (fun st => (st.pcB 0, st.failT 0, st.a.ph 2, st.a.now)) =
      some (.tidy .timeout, true, .idle, 3) ∧
    (acceptB tmoCfg StB.init (tmoEvs ++ [.tidyReturn 0 0, .hEnd 1, .hEnd 2, .sdWaitReturn 0 0])).map
      (fun st => (st.pcB 0, st.failT 0, st.failC 0, st.a.ph 0, st.a.ph 2)) =
      some (.over, true, false, .done (.retBool false), .idle) := by
  decide

example : timesOut tmoCfg 0 tmoEvs :=
  ⟨tmoEvs, _, List.prefix_refl _, rfl, by decide⟩

def tmoNestCfg : Cfg :=
  { n := 5, parent := fun j => if j = 2 ∨ j = 3 then 1 else 0, isSched := fun j => j = 0 ∨ j = 1,
    req := fun j => if j = 3 then [2] else [],
    critical := fun j => j = 4, forever := fun _ => false, window := fun _ => 0,
    timeout := fun j => if j = 1 then some 3 else none, sdTimeout := fun _ => none, topPure := true }

def tmoNestEvs : List EvB :=
  [.runBegin, .grant 1, .grant 4, .grant 2, .tick 3, .bodyEnd 2 true, .bodyEnd 4 false, .waitReturn 1, .react 1,
   .waitReturn 0, .react 0, .cancelArrive 1, .tidyReturn 1 0, .hEnd 2, .hEnd 3, .sdWaitReturn 1 0]

example : tmoNestCfg.wf = true ∧
    (acceptB tmoNestCfg StB.init (tmoNestEvs.take 9)).map (fun st => (st.pcB 1, st.failT 1)) =
      some (.tidy .timeout, true) ∧
    (acceptB tmoNestCfg StB.init (tmoNestEvs.take 12)).map (fun st => (st.pcB 1, st.failT 1)) =
      some (.tidy .cancelled, true) ∧
    (acceptB tmoNestCfg StB.init tmoNestEvs).map (fun st => (st.pcB 1, st.failT 1, st.failC 1, st.a.ph 1, st.a.ph 3)) =
      some (.over, true, false, .cancelled, .idle) := by
  decide

/-! ### non-vacuity: a critical failure, then a cancellation during the clean-up

  Scheduler `1` (critical job `2` that raises, long job `3` whose cancellation takes time: its `cancelAck` comes after
  a `tick`) is nested in scheduler `0`, whose timeout (1) expires while `1` is waiting in `_tidy_tasks` for job `3`:
  `1` left its loop by a critical failure (`failed_critical()` holds at once), is cancelled during that clean-up,
  ends cancelled — and still reports `failed_critical()`. -/

def critNestCfg : Cfg :=
  { n := 4, parent := fun j => if j = 2 ∨ j = 3 then 1 else 0, isSched := fun j => j = 0 ∨ j = 1,
    req := fun _ => [], critical := fun j => j = 2, forever := fun _ => false, window := fun _ => 0,
    timeout := fun j => if j = 0 then some 1 else none, sdTimeout := fun _ => none, topPure := true }

def critNestEvs : List EvB :=
  [.runBegin, .grant 1, .grant 2, .grant 3, .bodyEnd 2 false, .waitReturn 1, .react 1, .tick 1, .timeoutFire 0,
   .cancelArrive 1, .cancelAck 3, .tidyReturn 1 0, .hEnd 2, .hEnd 3, .sdWaitReturn 1 0]

example : critNestCfg.wf = true ∧
    (acceptB critNestCfg StB.init (critNestEvs.take 7)).map (fun st => (st.pcB 1, st.failC 1, st.a.creq 3)) =
      some (.tidy .critical, true, true) ∧
    (acceptB critNestCfg StB.init (critNestEvs.take 9)).map (fun st => (st.pcB 0, st.pcB 1, st.failC 1, st.a.ph 3)) =
      some (.tidy .timeout, .tidy .critical, true, .running) ∧
    (acceptB critNestCfg StB.init (critNestEvs.take 10)).map (fun st => (st.pcB 1, st.failC 1)) =
      some (.tidy .cancelled, true) ∧
    (acceptB critNestCfg StB.init critNestEvs).map (fun st => (st.pcB 1, st.failC 1, st.failT 1, st.a.ph 1, st.a.ph 3)) =
      some (.over, true, false, .cancelled, .cancelled) := by
  decide

example : critOut critNestCfg 1 critNestEvs :=
  ⟨critNestEvs.take 7, _, List.take_prefix _ _, rfl, by decide⟩

/-- C08: T is measured from the beginning of the scheduler's own run, and the run does not stay in its main loop
    beyond `begin + T` -/
theorem timeout_bounds (c : Cfg) (hwf : c.wf = true) (evs : List EvB) (st : StB)
    (h : acceptB c StB.init evs = some st) (s T : Nat) (hloop : st.pcB s = .loop) (hT : c.timeout s = some T) :
    st.deadline s = some (st.tbegin s + T) ∧ st.a.now ≤ st.tbegin s + T := by
  have hB := invB_reach c hwf evs st h
  have h1 : st.deadline s = some (st.tbegin s + T) := by rw [hB.deadlineEq s hloop, hT]; rfl
  exact ⟨h1, (hB.deadlineGe s _ hloop h1).1⟩

/-! ### non-vacuity: the orchestration itself fails

  Scheduler `1` (quick job `2`, long job `3`) is nested in scheduler `0`, whose job `4` requires `1`; `1` is not
  critical.  Job `2` ends, the main wait of `1` returns it, and instead of reacting the orchestration of `1` fails
  (`orchFail 1`): nothing is counted, `cancel()` is called on job `3`, neither `failed_time_out()` nor
  `failed_critical()` is set; the wrapper `co_run()` waits for job `3` (the clock advances meanwhile: `tidyReturn 1` is
  not enabled before `cancelAck 3`), shuts `2` and `3` down, and the run of `1` ends raising its own exception object
  `.orch 1` — although `1` is not critical.  For `0` this is a non-critical job that raised: it goes on and starts `4`,
  only after `3` was cancelled and acknowledged and both jobs of `1` were shut down. -/

def orchCfg : Cfg :=
  { n := 5, parent := fun j => if j = 2 ∨ j = 3 then 1 else 0, isSched := fun j => j = 0 ∨ j = 1,
    req := fun j => if j = 4 then [1] else [],
    critical := fun _ => false, forever := fun _ => false, window := fun _ => 0,
    timeout := fun _ => none, sdTimeout := fun _ => none, topPure := true }

def orchEvs : List EvB :=
  [.runBegin, .grant 1, .grant 2, .grant 3, .tick 1, .bodyEnd 2 true, .waitReturn 1, .orchFail 1, .tick 2, .cancelAck 3,
   .tidyReturn 1 0, .hEnd 2, .hEnd 3, .sdWaitReturn 1 0, .waitReturn 0, .react 0, .grant 4, .bodyEnd 4 true,
   .waitReturn 0, .react 0, .tidyReturn 0 0, .hStep 1, .hEnd 4, .sdWaitReturn 0 0]

example : orchCfg.wf = true ∧
    -- the failure: the run of `1` leaves its loop, job `3` is cancelled, nothing is counted, no diagnosis
    (acceptB orchCfg StB.init (orchEvs.take 8)).map (fun st => (st.pcB 1, st.a.creq 3, st.a.ph 3, st.nbDone 1)) =
      some (.tidy .crashed, true, .running, 0) ∧
    (acceptB orchCfg StB.init (orchEvs.take 8)).map (fun st => (st.failT 1, st.failC 1, st.a.ph 4)) =
      some (false, false, .idle) ∧
    -- the clean-up waits for job `3`
    (acceptB orchCfg StB.init (orchEvs.take 9 ++ [.tidyReturn 1 0])).isNone = true ∧
    -- then shuts the jobs down
    (acceptB orchCfg StB.init (orchEvs.take 11)).map (fun st => (st.pcB 1, st.a.ph 3, st.hcalls 2, st.hcalls 3)) =
      some (.shut .crashed, .cancelled, 1, 1) := by
  decide

example :
    -- the run of `1` ends raising the exception of its own orchestration; `4` has not been started yet
    (acceptB orchCfg StB.init (orchEvs.take 14)).map (fun st => (st.pcB 1, st.a.ph 1, st.failT 1, st.failC 1)) =
      some (.over, .done (.exc (.orch 1)), false, false) ∧
    (acceptB orchCfg StB.init (orchEvs.take 14)).map (fun st => (st.a.ph 3, st.hph 2, st.hph 3, st.a.ph 4, st.a.now)) =
      some (.cancelled, .hdone, .hdone, .idle, 3) ∧
    -- the enclosing scheduler goes on: `4` is started by its reaction to the end of `1`
    (acceptB orchCfg StB.init (orchEvs.take 16)).map (fun st => (st.pcB 0, st.a.ph 4)) = some (.loop, .queued) ∧
    -- … and ends well; every job was shut down exactly once
    (acceptB orchCfg StB.init orchEvs).map
      (fun st => (st.pcB 0, st.a.ph 0, st.a.ph 1, (List.range 5).map st.hcalls)) =
      some (.over, .done (.retBool true), .done (.exc (.orch 1)), [0, 1, 1, 1, 1]) := by
  decide

/-- the same failure in a critical nested scheduler makes the enclosing (critical) `Scheduler` abort and re-raise that
    very object; at the top, a `PureScheduler` raises it too -/
example :
    (acceptB { orchCfg with critical := fun j => j = 0 ∨ j = 1, topPure := false } StB.init
      (orchEvs.take 16 ++ [.tidyReturn 0 1, .hStep 1, .hEnd 4, .sdWaitReturn 0 1])).map
      (fun st => (st.pcB 0, st.failC 0, st.a.ph 0, st.a.ph 4)) =
      some (.over, true, .done (.exc (.orch 1)), .idle) ∧
    (acceptB { orchCfg with n := 3, parent := fun _ => 0, isSched := fun j => j = 0 } StB.init
      [.runBegin, .grant 1, .grant 2, .bodyEnd 1 true, .waitReturn 0, .orchFail 0, .cancelAck 2, .tidyReturn 0 0,
       .hEnd 1, .hEnd 2, .sdWaitReturn 0 0]).map (fun st => (st.pcB 0, st.a.ph 0, st.a.ph 2)) =
      some (.over, .done (.exc (.orch 0)), .cancelled) := by
  decide

/-- a cancellation by the enclosing scheduler delivered while the crashed run is shutting its jobs down: the run ends
    cancelled (the `CancelledError` replaces the exception the wrapper was about to re-raise) -/
example :
    (acceptB { orchCfg with critical := fun j => j = 4, req := fun _ => [] } StB.init
      [.runBegin, .grant 1, .grant 4, .grant 2, .grant 3, .bodyEnd 2 true, .waitReturn 1, .orchFail 1, .cancelAck 3,
       .tidyReturn 1 0, .bodyEnd 4 false, .waitReturn 0, .react 0, .cancelArrive 1, .hCancelAck 2, .hCancelAck 3,
       .sdTidyReturn 1 0]).map (fun st => (st.pcB 1, st.a.ph 1, st.hcalls 2, st.hcalls 3, st.hph 2)) =
      some (.over, .cancelled, 1, 1, .hcancelled) := by
  decide

/-! ### why the wrapper needs `try … finally`: a crashed run cancelled while it tidies must still shut its jobs down

  `stepB` lets a cancellation delivered during the `_tidy_tasks` of a crashed run be followed by the shutdown
  broadcast (`.tidy .crashed` → `.tidy .cancelled`, see CRASHED-TIDY in `Model/Full.lean`): that is the wrapper
  `co_run()` with `co_shutdown()` in the `finally` of a `try` around `_tidy_tasks`.  With the two `await`s merely in
  sequence (the wrapper before that repair), `_tidy_tasks` re-raises the `CancelledError` when its wait is over, inside
  the `except` clause and before `co_shutdown()`, and the run ends cancelled at once.  `stepBAsIs` is `stepB` with
  exactly that difference (`AsIs`: as the code stood); the history below (observed on that implementation: nested `1`
  with a quick job `2` and a long job `3` whose cancellation takes time, next to a critical job `4` that raises
  meanwhile) shows what it costs: when the run of `1` is over its jobs have not been shut down (`InvB.overDid`, hence
  `ShutB.shutdown_once_at_end` / C13, fail there); they are, later, through the relay of the broadcast of `0`. -/

def stepBAsIs (c : Cfg) (st : StB) : EvB → Option StB
  | .cancelArrive s =>
    if st.pcB s = .tidy .crashed then
      if 0 < s ∧ s < c.n ∧ c.isSched s = true ∧ st.a.ph s = .running ∧ st.a.creq s = true ∧ st.carrived s = false then
        some { st with carrived := setAt st.carrived s true }
      else none
    else stepB c st (.cancelArrive s)
  | .tidyReturn s pick =>
    if st.pcB s = .tidy .crashed ∧ st.carrived s = true then
      if liveChildren c st.a s = [] then finishRun c st s .cancelled pick else none
    else stepB c st (.tidyReturn s pick)
  | e => stepB c st e

def acceptBAsIs (c : Cfg) : StB → List EvB → Option StB
  | st, [] => some st
  | st, e :: es => match stepBAsIs c st e with
    | some st' => acceptBAsIs c st' es
    | none => none

def asIsCfg : Cfg := { orchCfg with critical := fun j => j = 4, req := fun _ => [] }

def asIsEvs : List EvB :=
  [.runBegin, .grant 1, .grant 4, .grant 2, .grant 3, .bodyEnd 2 true, .waitReturn 1, .orchFail 1,
   .bodyEnd 4 false, .waitReturn 0, .react 0, .cancelArrive 1, .cancelAck 3, .tidyReturn 1 0]

example : asIsCfg.wf = true ∧
    -- as the code stood: over, cancelled, and no job of `1` has received `co_shutdown()`
    (acceptBAsIs asIsCfg StB.init asIsEvs).map (fun st => (st.pcB 1, st.a.ph 1, st.didSd 1, st.hcalls 2, st.hcalls 3)) =
      some (.over, .cancelled, false, 0, 0) ∧
    -- the model (the wrapper with `try … finally`): the same history leads into the shutdown broadcast
    (acceptB asIsCfg StB.init asIsEvs).map (fun st => (st.pcB 1, st.a.ph 1, st.didSd 1, st.hcalls 2, st.hcalls 3)) =
      some (.shut .cancelled, .running, true, 1, 1) ∧
    -- as the code stood, the jobs of `1` were shut down by the relay of the enclosing scheduler's broadcast
    (acceptBAsIs asIsCfg StB.init
        (asIsEvs ++ [.tidyReturn 0 4, .hStep 1, .hEnd 4, .hEnd 2, .hEnd 3, .sdWaitReturn 1 0, .sdWaitReturn 0 4])).map
      (fun st => (st.pcB 0, (List.range 5).map st.hcalls)) = some (.over, [0, 1, 1, 1, 1]) := by
  decide

/-! ### non-vacuity: the top-level run cancelled from outside

  Top-level scheduler `0` with jobs `1` (long; its cancellation takes time) and `2`.  While `0` waits in its main loop
  somebody outside calls `cancel()` on the task running `0.co_run()` (`extCancel`): nothing else changes, but time may
  not pass and the main wait may not return before the `CancelledError` is delivered (`cancelArrive 0`, now possible
  for the top-level scheduler): the wrapper `co_run()` calls `cancel()` on `1` and `2` and waits for them; `2`
  acknowledges at once, `1` two units of time later; then the shutdown broadcast, every job is shut down exactly once,
  and the top-level task ends cancelled — whether `0` is a `PureScheduler` or a critical `Scheduler`. -/

def extCfg : Cfg :=
  { n := 3, parent := fun _ => 0, isSched := fun j => j = 0, req := fun _ => [],
    critical := fun _ => false, forever := fun _ => false, window := fun _ => 0,
    timeout := fun _ => none, sdTimeout := fun _ => none, topPure := true }

def extEvs : List EvB :=
  [.runBegin, .grant 1, .grant 2, .tick 1, .extCancel, .cancelArrive 0, .cancelAck 2, .tick 2, .cancelAck 1,
   .tidyReturn 0 0, .hEnd 1, .hEnd 2, .sdWaitReturn 0 0]

example : extCfg.wf = true ∧
    -- the request: only `creq 0` changes; the run is still in its loop, nothing is cancelled yet
    (acceptB extCfg StB.init (extEvs.take 5)).map
      (fun st => (st.pcB 0, st.a.ph 0, st.a.creq 0, st.carrived 0, st.a.creq 1, st.a.creq 2)) =
      some (.loop, .running, true, false, false, false) ∧
    -- its delivery is urgent: time may not pass, and it comes before anything else the run would do
    (acceptB extCfg StB.init (extEvs.take 5)).map (fun st => quietB extCfg st) = some false ∧
    (acceptB extCfg StB.init (extEvs.take 5 ++ [.tick 1])).isNone = true ∧
    (acceptB extCfg StB.init (extEvs.take 4 ++ [.bodyEnd 2 true, .extCancel, .waitReturn 0])).isNone = true := by
  decide

example :
    -- at most one request; none before `run()` begins
    (acceptB extCfg StB.init (extEvs.take 5 ++ [.extCancel])).isNone = true ∧
    (acceptB extCfg StB.init (extEvs.take 6 ++ [.extCancel])).isNone = true ∧
    (acceptB extCfg StB.init [.extCancel]).isNone = true ∧
    -- the delivery: the run leaves its loop for reason `cancelled`, `cancel()` is called on `1` and `2`
    (acceptB extCfg StB.init (extEvs.take 6)).map
      (fun st => (st.pcB 0, st.carrived 0, st.a.creq 1, st.a.creq 2, st.a.ph 1, st.a.ph 2)) =
      some (.tidy .cancelled, true, true, true, .running, .running) := by
  decide

example :
    -- the clean-up waits for `1` (the clock advances meanwhile)
    (acceptB extCfg StB.init (extEvs.take 8 ++ [.tidyReturn 0 0])).isNone = true ∧
    -- then the shutdown broadcast
    (acceptB extCfg StB.init (extEvs.take 10)).map
      (fun st => (st.pcB 0, st.a.ph 1, st.a.ph 2, st.hph 1, st.hph 2, st.a.now)) =
      some (.shut .cancelled, .cancelled, .cancelled, .hactive, .hactive, 3) := by
  decide

example :
    -- the end: the top-level task ends cancelled, every job was shut down exactly once, no diagnosis
    (acceptB extCfg StB.init extEvs).map (fun st => (st.pcB 0, st.a.ph 0, st.a.creq 0, st.hph 1, st.hph 2)) =
      some (.over, .cancelled, false, .hdone, .hdone) ∧
    (acceptB extCfg StB.init extEvs).map (fun st => (List.range 3).map st.hcalls) = some [0, 1, 1] ∧
    (acceptB extCfg StB.init extEvs).map (fun st => (st.failT 0, st.failC 0, st.sdValue 0)) =
      some (false, false, some true) ∧
    -- … and after that nobody can cancel it any more
    (acceptB extCfg StB.init (extEvs ++ [.extCancel])).isNone = true := by
  decide

/-- the same with a critical `Scheduler` at the top: it ends cancelled too (no conversion of the verdict) -/
example :
    (acceptB { extCfg with topPure := false, critical := fun j => j = 0 } StB.init extEvs).map
      (fun st => (st.pcB 0, st.a.ph 0, (List.range 3).map st.hcalls)) = some (.over, .cancelled, [0, 1, 1]) := by
  decide

/-- the `extCancel` comes while `0` is already in its shutdown phase, after a normal end (both jobs done, reason
    `success`, handler of `2` done, handler of `1` still pending): the `CancelledError` is raised out of the wait of
    `co_shutdown()`, which cancels the pending handler, waits for it, and re-raises: the run that had succeeded ends
    cancelled (not `True`), `co_shutdown()` did not return `True`; every job was shut down exactly once -/
def extSdEvs : List EvB :=
  [.runBegin, .grant 1, .grant 2, .tick 1, .bodyEnd 1 true, .bodyEnd 2 true, .waitReturn 0, .react 0, .tidyReturn 0 0,
   .hEnd 2, .tick 1, .extCancel, .cancelArrive 0, .hCancelAck 1, .sdTidyReturn 0 0]

example :
    (acceptB extCfg StB.init (extSdEvs.take 11)).map (fun st => (st.pcB 0, st.bc 0, st.hph 1, st.hph 2)) =
      some (.shut .success, .bwait .inline, .hactive, .hdone) ∧
    -- the request, then its delivery (urgent): the pending handler is cancelled
    (acceptB extCfg StB.init (extSdEvs.take 12 ++ [.tick 1])).isNone = true ∧
    (acceptB extCfg StB.init (extSdEvs.take 12 ++ [.hEnd 1, .sdWaitReturn 0 0])).isNone = true ∧
    (acceptB extCfg StB.init (extSdEvs.take 13)).map (fun st => (st.pcB 0, st.bc 0, st.hcreq 1, st.hcreq 2)) =
      some (.shutTidy .cancelled, .btidy .inline, true, false) := by
  decide

example :
    -- the end
    (acceptB extCfg StB.init extSdEvs).map (fun st => (st.pcB 0, st.a.ph 0, st.a.ph 1, st.a.ph 2)) =
      some (.over, .cancelled, .done .retOwn, .done .retOwn) ∧
    (acceptB extCfg StB.init extSdEvs).map (fun st => (st.hph 1, st.hph 2)) = some (.hcancelled, .hdone) ∧
    (acceptB extCfg StB.init extSdEvs).map (fun st => (List.range 3).map st.hcalls) = some [0, 1, 1] ∧
    (acceptB extCfg StB.init extSdEvs).map (fun st => (st.failT 0, st.failC 0, st.sdValue 0, st.a.now)) =
      some (false, false, some false, 2) := by
  decide

end AJ.Proofs.ExitB
