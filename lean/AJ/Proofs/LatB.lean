/-
  C10 (d) in history form, layer B: the run of a (nested) scheduler ends at the very instant of the last event it was
  waiting for.  In every accepted history, the event that takes `pcB s` to `.over` is separated by no `tick` from the
  last "waking" event of `s`: the beginning of its run, the end of the body (or nested run) of one of its jobs, the
  end of the shutdown handler (or relayed shutdown) of one of its jobs, an expiry of its timeout or shutdown timeout,
  a cancellation delivered to its run.

  Proof: between two waking events the run of `s` can only make the steps that were already enabled (`Stuck` is
  preserved by non-waking events, `stuck_step`); the clock advances only in quiet states, where every run is `Stuck`
  (`stuck_of_quiet`, the clauses q3, q4, q7 of `QuietAt` as in `NestB.no_end_latency`); a `Stuck` run does not end.
-/
import AJ.Proofs.LatA
import AJ.Proofs.NestB
namespace AJ.Proofs.LatB
open AJ.Run AJ.Full AJ.Proofs.CoreA AJ.Proofs.CoreB AJ.Proofs.ProgB AJ.Proofs.FinB AJ.Proofs.BoundB
set_option linter.unusedVariables false
set_option linter.unusedSimpArgs false

/-- the event, occurring in state `st`, is one the run of `s` may be waiting for:
    * the beginning of its run (`grant s`, `runBegin` for the top-level scheduler);
    * the end of the body of one of its jobs (`bodyEnd`, `cancelAck`), or of the run of a nested job: `grant k` for an
      empty nested scheduler, `tidyReturn k` when `k` has already shut down, `sdWaitReturn k` / `sdTidyReturn k` inline;
    * the end of the shutdown handler of one of its jobs (`hEnd`, `hCancelAck`), or of the relayed shutdown of a
      nested job: `hStep k` when `k` has already shut down, `sdWaitReturn k` / `sdTidyReturn k` relayed;
    * an expiry (`timeoutFire s`; `sdTimeoutFire s` of its inline shutdown);
    * a cancellation delivered to its run (`cancelArrive s`).
    (`hCancelArrive s` is not needed: it concerns the relayed shutdown of `s`, not its run.) -/
def wakesAt (c : Cfg) (s : Nat) (st : StB) : EvB → Bool
  | .runBegin => s == 0
  | .grant k => k == s || (decide (k ∈ c.children s) && c.isSched k && (c.children k).isEmpty)
  | .bodyEnd k _ => decide (k ∈ c.children s)
  | .cancelAck k => decide (k ∈ c.children s)
  | .cancelArrive s' => s' == s
  | .timeoutFire s' => s' == s
  | .tidyReturn k _ => decide (k ∈ c.children s) && st.didSd k
  | .hStep k => decide (k ∈ c.children s) && st.didSd k
  | .hEnd k => decide (k ∈ c.children s)
  | .hCancelAck k => decide (k ∈ c.children s)
  | .sdWaitReturn k _ => decide (k ∈ c.children s)
  | .sdTidyReturn k _ => decide (k ∈ c.children s)
  | .sdTimeoutFire s' => s' == s && st.bc s == .bwait .inline
  | _ => false

theorem isWait_who {b : Bc} (h : b.isWait = true) : b = .bwait b.who := by
  cases b <;> simp [Bc.isWait, Bc.who] at h ⊢

@[simp] theorem beginB_hph (c : Cfg) (st : StB) (s : Nat) (a' : StA) : (beginB c st s a').hph = st.hph := by
  unfold beginB; split <;> rfl

/-! ### what a non-waking step leaves unchanged (case analysis over `stepB`) -/

local macro "fin_case" : tactic => `(tactic|
    (obtain ⟨r, a', _, ha, hst⟩ := finishRun_spec ‹finishRun _ _ _ _ _ = some _›
     subst hst
     open_stepA <;> (try simp only [setAt, release] at *) <;>
       grind [CoreB.mem_activeHandlers, CoreB.mem_liveChildren]))

local macro "a_case" : tactic => `(tactic|
    (cases ‹some _ = some _›; open_stepA <;>
       (try unfold beginRun) <;> (repeat' split) <;>
       (try simp only [beginB_pcB, beginB_a, beginB_hph, exitLoop, broadcast, release, startJobs, setAt] at *) <;>
       grind [CoreB.mem_children, CoreB.mem_activeHandlers, CoreB.mem_liveChildren]))

local macro "plain_case" : tactic => `(tactic|
    (cases ‹some _ = some _›; (try simp only [beginB_pcB, beginB_a, beginB_hph, exitLoop, broadcast, setAt] at *);
       grind [CoreB.mem_activeHandlers, CoreB.mem_liveChildren, → isWait_who]))

local macro "step_one" : tactic => `(tactic| first | fin_case | a_case | plain_case)


/-- a pending handler of a job of `s` stays pending -/
theorem child_hph_step (c : Cfg) (s : Nat) (st st' : StB) (e : EvB) (h : stepB c st e = some st')
    (hw : wakesAt c s st e = false) (k : Nat) (hk : k ∈ c.children s) (hh : st.hph k = .hactive) :
    st'.hph k = .hactive := by
  cases e <;> simp only [wakesAt] at hw <;> simp only [stepB] at h <;> (repeat' split at h) <;> (try (cases h; done))
  all_goals step_one


/-- the run of `s` moves only by its own (non-waking) steps: reaction, return of the tidy wait, of the shutdown wait -/
theorem pcB_step (c : Cfg) (s : Nat) (st st' : StB) (e : EvB) (h : stepB c st e = some st')
    (hw : wakesAt c s st e = false) :
    st'.pcB s = st.pcB s ∨
    (st.pcB s = .loop ∧ (∃ D, st.a.rx s = some D) ∧ ∃ x, st'.pcB s = .tidy x) ∨
    (∃ x, st.pcB s = .tidy x ∧ liveChildren c st.a s = [] ∧ (st'.pcB s = .shut x ∨ st'.pcB s = .over)) ∨
    ((∃ x, st.pcB s = .shut x ∨ st.pcB s = .shutTidy x) ∧ activeHandlers c st s = [] ∧ st'.pcB s = .over) := by
  cases e <;> simp only [wakesAt] at hw <;> simp only [stepB] at h <;> (repeat' split at h) <;> (try (cases h; done))
  all_goals step_one


/-- a job of `s` does not finish: its task may only be created or granted -/
theorem child_ph_step (c : Cfg) (s : Nat) (st st' : StB) (e : EvB) (h : stepB c st e = some st')
    (hw : wakesAt c s st e = false) (k : Nat) (hk : k ∈ c.children s) :
    st'.a.ph k = st.a.ph k ∨ (st.a.ph k = .idle ∧ st'.a.ph k = .queued) ∨
      (st.a.ph k = .queued ∧ st'.a.ph k = .running) := by
  cases e <;> simp only [wakesAt] at hw <;> simp only [stepB] at h <;> (repeat' split at h) <;> (try (cases h; done))
  all_goals step_one


/-- a job handed over stays handed over -/
theorem deliv_step (c : Cfg) (st st' : StB) (e : EvB) (h : stepB c st e = some st') (k : Nat)
    (hd : st.a.deliv k = true) : st'.a.deliv k = true := by
  cases e <;> simp only [stepB] at h <;> (repeat' split at h) <;> (try (cases h; done))
  all_goals step_one


/-- no reaction of `s` becomes pending unless its main wait had something to return -/
theorem rx_step (c : Cfg) (s : Nat) (st st' : StB) (e : EvB) (h : stepB c st e = some st')
    (hw : wakesAt c s st e = false) (hl : st.pcB s = .loop) (hrx : st.a.rx s = none) :
    st'.a.rx s = none ∨ doneSet c st.a s ≠ [] := by
  cases e <;> simp only [wakesAt] at hw <;> simp only [stepB] at h <;> (repeat' split at h) <;> (try (cases h; done))
  all_goals step_one


/-! ### what a run that is not at a waking event is blocked on -/

/-- the run of `s` cannot make a step of its own: its main wait has nothing to return and no reaction is pending;
    its tidy wait has an unfinished job to wait for; its shutdown wait has a pending handler to wait for.
    (Nothing is required of a run that has not begun or is over.) -/
structure Stuck (c : Cfg) (s : Nat) (st : StB) : Prop where
  loop : st.pcB s = .loop → st.a.rx s = none ∧ doneSet c st.a s = []
  tidy : ∀ x, st.pcB s = .tidy x → liveChildren c st.a s ≠ []
  shut : ∀ x, (st.pcB s = .shut x ∨ st.pcB s = .shutTidy x) → activeHandlers c st s ≠ []

theorem stuck_init (c : Cfg) (s : Nat) : Stuck c s StB.init := by
  constructor <;> simp [StB.init]

/-- in a quiet state every run is blocked -/
theorem stuck_of_quiet {c : Cfg} {st : StB} (hB : InvB c st) (hq : quietB c st = true) (s : Nat) : Stuck c s st := by
  have hQ := (quietB_iff c st).1 hq
  constructor
  · intro hl
    obtain ⟨hs, hsch⟩ := hB.pcRange s (by simp [hl])
    have q := (hQ s hs).q3
    constructor
    · cases hD : st.a.rx s with
      | none => rfl
      | some D => exact absurd ⟨hsch, hl, Or.inr (by simp [hD])⟩ q
    · cases hD : doneSet c st.a s with
      | nil => rfl
      | cons a l => exact absurd ⟨hsch, hl, Or.inl (by simp [hD])⟩ q
  · intro x hx hl
    obtain ⟨hs, hsch⟩ := hB.pcRange s (by simp [hx])
    exact (hQ s hs).q4 ⟨hsch, by simp [hx, PcB.isTidy], hl⟩
  · intro x hx hl
    obtain ⟨hs, hsch⟩ := hB.pcRange s (by rcases hx with hx | hx <;> simp [hx])
    rcases hx with hx | hx
    · have hbc : st.bc s = .bwait .inline := (hB.bcInlineWait s).2 ⟨x, hx⟩
      exact (hQ s hs).q7 ⟨hsch, Or.inl (by simp [hbc, Bc.isWait]), hl⟩
    · have hbc : st.bc s = .btidy .inline := (hB.bcInlineTidy s).2 ⟨x, hx⟩
      exact (hQ s hs).q7 ⟨hsch, Or.inr (by simp [hbc, Bc.isTidy]), hl⟩

/-- a blocked run stays blocked, and does not end, as long as no waking event occurs -/
theorem stuck_step (c : Cfg) (s : Nat) (st st' : StB) (e : EvB) (h : stepB c st e = some st')
    (hw : wakesAt c s st e = false) (hS : Stuck c s st) :
    Stuck c s st' ∧ (st'.pcB s = .over → st.pcB s = .over) := by
  rcases pcB_step c s st st' e h hw with heq | ⟨hl, ⟨D, hD⟩, _⟩ | ⟨x, hx, hlive, _⟩ | ⟨⟨x, hx⟩, hact, _⟩
  · refine ⟨⟨?_, ?_, ?_⟩, fun ho => by rw [← heq]; exact ho⟩
    · intro hl'
      have hl : st.pcB s = .loop := by rw [← heq]; exact hl'
      obtain ⟨hrx, hds⟩ := hS.loop hl
      constructor
      · rcases rx_step c s st st' e h hw hl hrx with h1 | h1
        · exact h1
        · exact absurd hds h1
      · cases hD : doneSet c st'.a s with
        | nil => rfl
        | cons k l =>
          exfalso
          have hk : k ∈ doneSet c st'.a s := by simp [hD]
          obtain ⟨hkc, hfin, hdl⟩ := CoreB.mem_doneSet.1 hk
          have hdl0 : st.a.deliv k = false := by
            cases hd : st.a.deliv k with
            | false => rfl
            | true => rw [deliv_step c st st' e h k hd] at hdl; cases hdl
          have hfin0 : (st.a.ph k).isDone = true ∨ st.a.ph k = .cancelled := by
            rcases child_ph_step c s st st' e h hw k hkc with h1 | ⟨_, h1⟩ | ⟨_, h1⟩
            · rw [← h1]; exact hfin
            · simp [h1, Ph.isDone] at hfin
            · simp [h1, Ph.isDone] at hfin
          have : k ∈ doneSet c st.a s := CoreB.mem_doneSet.2 ⟨hkc, hfin0, hdl0⟩
          rw [hds] at this; cases this
    · intro x hx' hl'
      have hx : st.pcB s = .tidy x := by rw [← heq]; exact hx'
      cases hL : liveChildren c st.a s with
      | nil => exact hS.tidy x hx hL
      | cons k l =>
        have hk : k ∈ liveChildren c st.a s := by simp [hL]
        obtain ⟨hkc, hlv⟩ := CoreB.mem_liveChildren.1 hk
        have : k ∈ liveChildren c st'.a s := by
          refine CoreB.mem_liveChildren.2 ⟨hkc, ?_⟩
          rcases child_ph_step c s st st' e h hw k hkc with h1 | ⟨h1, _⟩ | ⟨_, h1⟩
          · rw [h1]; exact hlv
          · simp [h1, Ph.live] at hlv
          · simp [h1, Ph.live]
        rw [hl'] at this; cases this
    · intro x hx' hl'
      have hx : st.pcB s = .shut x ∨ st.pcB s = .shutTidy x := by rw [← heq]; exact hx'
      cases hL : activeHandlers c st s with
      | nil => exact hS.shut x hx hL
      | cons k l =>
        have hk : k ∈ activeHandlers c st s := by simp [hL]
        obtain ⟨hkc, hact⟩ := CoreB.mem_activeHandlers.1 hk
        have : k ∈ activeHandlers c st' s :=
          CoreB.mem_activeHandlers.2 ⟨hkc, child_hph_step c s st st' e h hw k hkc hact⟩
        rw [hl'] at this; cases this
  · rw [(hS.loop hl).1] at hD; cases hD
  · exact absurd hlive (hS.tidy x hx)
  · exact absurd hact (hS.shut x hx)

/-! ### histories -/

/-- no event of the history, run from `st`, is a waking event of `s` -/
def NoWake (c : Cfg) (s : Nat) : StB → List EvB → Prop
  | _, [] => True
  | st, e :: es => wakesAt c s st e = false ∧ ∀ st', stepB c st e = some st' → NoWake c s st' es

theorem stuck_run (c : Cfg) (s : Nat) (evs : List EvB) :
    ∀ st st' : StB, acceptB c st evs = some st' → NoWake c s st evs → Stuck c s st →
      Stuck c s st' ∧ (st'.pcB s = .over → st.pcB s = .over) := by
  induction evs with
  | nil => intro st st' h _ hS; simp only [acceptB, Option.some.injEq] at h; subst h; exact ⟨hS, id⟩
  | cons e es ih =>
    intro st st' h hN hS
    simp only [acceptB] at h
    split at h
    · rename_i st1 hs
      obtain ⟨hS1, ho1⟩ := stuck_step c s st st1 e hs hN.1 hS
      obtain ⟨hS', ho'⟩ := ih st1 st' h (hN.2 st1 hs) hS1
      exact ⟨hS', fun ho => ho1 (ho' ho)⟩
    · cases h

theorem noWake_append (c : Cfg) (s : Nat) (b1 r : List EvB) :
    ∀ st st1 : StB, acceptB c st b1 = some st1 → NoWake c s st (b1 ++ r) → NoWake c s st1 r := by
  induction b1 with
  | nil => intro st st1 h hN; simp only [acceptB, Option.some.injEq] at h; subst h; simpa using hN
  | cons e es ih =>
    intro st st1 h hN
    simp only [acceptB] at h
    split at h
    · rename_i st2 hs
      exact ih st2 st1 h (hN.2 st2 hs)
    · cases h

/-- an accepted history contains no waking event of `s`, or has a last one -/
theorem split_run (c : Cfg) (s : Nat) (evs : List EvB) :
    ∀ st st' : StB, acceptB c st evs = some st' →
      NoWake c s st evs ∨
      ∃ a e0 b sta stb, evs = a ++ e0 :: b ∧ acceptB c st a = some sta ∧ wakesAt c s sta e0 = true ∧
        stepB c sta e0 = some stb ∧ acceptB c stb b = some st' ∧ NoWake c s stb b := by
  induction evs with
  | nil => intro st st' _; exact Or.inl trivial
  | cons e es ih =>
    intro st st' h
    simp only [acceptB] at h
    split at h
    · rename_i st1 hs
      rcases ih st1 st' h with hN | ⟨a, e0, b, sta, stb, rfl, ha, hw, hst, hb, hN⟩
      · cases hw : wakesAt c s st e with
        | false =>
          refine Or.inl ⟨hw, fun st2 hs2 => ?_⟩
          rw [hs] at hs2; cases hs2; exact hN
        | true => exact Or.inr ⟨[], e, es, st, st1, rfl, rfl, hw, hs, h, hN⟩
      · refine Or.inr ⟨e :: a, e0, b, sta, stb, rfl, ?_, hw, hst, hb, hN⟩
        simp only [acceptB, hs]; exact ha
    · cases h

/-! ### the theorem -/

/-- the event is the beginning of the run of `s` -/
def beginsB (s : Nat) : EvB → Bool
  | .runBegin => s == 0
  | .grant k => k == s
  | _ => false

/-- a waking event of `s` other than the beginning of its run does not end the run of `s` -/
theorem over_step (c : Cfg) (s : Nat) (st st' : StB) (e : EvB) (h : stepB c st e = some st')
    (hns : s ∉ c.children s) (hb : beginsB s e = false) (hw : wakesAt c s st e = true)
    (ho : st'.pcB s = .over) : st.pcB s = .over := by
  cases e <;> simp only [wakesAt, beginsB] at hw hb <;> simp only [stepB] at h <;> (repeat' split at h) <;>
    (try (cases h; done))
  all_goals step_one

/-- C10 (d), history form: the run of a scheduler ends at the very instant of the last event it was waiting for -/
theorem end_no_latency (c : Cfg) (hwf : c.wf = true) (evs : List EvB) (e : EvB) (s : Nat) (st0 st : StB)
    (h0 : acceptB c StB.init evs = some st0) (h1 : stepB c st0 e = some st)
    (hn : st0.pcB s ≠ .over) (ho : st.pcB s = .over) :
    beginsB s e = true ∨
    ∃ a e0 b sta, evs = a ++ e0 :: b ∧ acceptB c StB.init a = some sta ∧ wakesAt c s sta e0 = true ∧
      ∀ x ∈ b, isTick x = false := by
  cases hb : beginsB s e with
  | true => exact Or.inl rfl
  | false =>
  right
  have w := CoreB.wf_of c hwf
  -- the last step is not a waking event
  have hwe : wakesAt c s st0 e = false := by
    cases hwe : wakesAt c s st0 e with
    | false => rfl
    | true => exact absurd (over_step c s st0 st e h1 (CoreB.not_self_child w s) hb hwe ho) hn
  -- a blocked run with no waking event ahead cannot end
  have key : ∀ (r : List EvB) (stS : StB), acceptB c stS r = some st0 → NoWake c s stS r → Stuck c s stS → False := by
    intro r stS hr hN hS
    obtain ⟨hS0, _⟩ := stuck_run c s r stS st0 hr hN hS
    exact hn ((stuck_step c s st0 st e h1 hwe hS0).2 ho)
  rcases split_run c s evs StB.init st0 h0 with hN | ⟨a, e0, b, sta, stb, rfl, ha, hw0, hst, hb0, hN⟩
  · exact (key evs StB.init h0 hN (stuck_init c s)).elim
  · refine ⟨a, e0, b, sta, rfl, ha, hw0, fun x hx => ?_⟩
    cases hxt : isTick x with
    | false => rfl
    | true =>
      exfalso
      obtain ⟨d, rfl⟩ : ∃ d, x = .tick d := by
        cases x <;> simp [isTick] at hxt
        exact ⟨_, rfl⟩
      obtain ⟨b1, b2, rfl⟩ := List.append_of_mem hx
      rw [acceptB_append] at hb0
      cases hb1 : acceptB c stb b1 with
      | none => simp [hb1] at hb0
      | some st1 =>
        rw [hb1] at hb0
        simp only [Option.bind_some] at hb0
        -- `st1` is reachable and lets the clock advance: it is quiet
        have hreach : acceptB c StB.init (a ++ e0 :: b1) = some st1 := by
          rw [acceptB_append, ha]
          simp only [Option.bind_some, acceptB, hst]
          exact hb1
        have hB := invB_reach c hwf _ st1 hreach
        have hq : quietB c st1 = true := by
          simp only [acceptB] at hb0
          split at hb0
          · rename_i st2 hs2
            simp only [stepB] at hs2
            split at hs2
            · next hg => exact hg.1
            · cases hs2
          · cases hb0
        exact key (.tick d :: b2) st1 hb0 (noWake_append c s b1 _ stb st1 hb1 hN) (stuck_of_quiet hB hq s)


/-- the waking events, whatever the state: the beginning of the run of `s`; the end of the body (or of the nested
    run) of one of its jobs; the end of the shutdown handler (or relayed shutdown) of one of its jobs; an expiry;
    a cancellation delivered to its run -/
def wakes (c : Cfg) (s : Nat) : EvB → Bool
  | .runBegin => s == 0
  | .grant k => k == s || (decide (k ∈ c.children s) && c.isSched k && (c.children k).isEmpty)
  | .bodyEnd k _ => decide (k ∈ c.children s)
  | .cancelAck k => decide (k ∈ c.children s)
  | .cancelArrive s' => s' == s
  | .timeoutFire s' => s' == s
  | .tidyReturn k _ => decide (k ∈ c.children s)
  | .hStep k => decide (k ∈ c.children s)
  | .hEnd k => decide (k ∈ c.children s)
  | .hCancelAck k => decide (k ∈ c.children s)
  | .sdWaitReturn k _ => decide (k ∈ c.children s)
  | .sdTidyReturn k _ => decide (k ∈ c.children s)
  | .sdTimeoutFire s' => s' == s
  | _ => false

theorem wakes_of_wakesAt (c : Cfg) (s : Nat) (st : StB) (e : EvB) (h : wakesAt c s st e = true) :
    wakes c s e = true := by
  cases e <;> simp only [wakesAt, wakes, Bool.and_eq_true] at h ⊢ <;> first | exact h | exact h.1 | cases h

/-- the run of a scheduler that has jobs does not end at the event that begins it -/
theorem begins_not_over (c : Cfg) (s : Nat) (st st' : StB) (e : EvB) (h : stepB c st e = some st')
    (hb : beginsB s e = true) (hne : c.children s ≠ []) (hn : st.pcB s ≠ .over) : st'.pcB s ≠ .over := by
  have hemp : (c.children s).isEmpty = false := by cases hc : c.children s <;> simp_all
  cases e <;> simp only [beginsB, beq_iff_eq] at hb <;> (try (cases hb; done))
  all_goals
    (subst hb; simp only [stepB] at h; (repeat' split at h) <;> (try (cases h; done)) <;> cases h <;>
      simp [beginB_pcB, hemp, hn])

/-- C10 (d), history form, for a scheduler that has jobs and with the state-free set of waking events: the event that
    ends its run is separated by no `tick` from the last waking event -/
theorem end_no_latency_jobs (c : Cfg) (hwf : c.wf = true) (evs : List EvB) (e : EvB) (s : Nat) (st0 st : StB)
    (h0 : acceptB c StB.init evs = some st0) (h1 : stepB c st0 e = some st)
    (hn : st0.pcB s ≠ .over) (ho : st.pcB s = .over) (hne : c.children s ≠ []) :
    ∃ a e0 b, evs = a ++ e0 :: b ∧ wakes c s e0 = true ∧ ∀ x ∈ b, isTick x = false := by
  rcases end_no_latency c hwf evs e s st0 st h0 h1 hn ho with hb | ⟨a, e0, b, sta, hsp, _, hw, hb⟩
  · exact absurd ho (begins_not_over c s st0 st e h1 hb hne hn)
  · exact ⟨a, e0, b, hsp, wakes_of_wakesAt _ _ _ _ hw, hb⟩

/-! ### non-vacuity

  `NestB.exCfg`: top-level scheduler `0` with a nested scheduler `1` (one job, `2`) and an atomic job `3`.  Time passes
  while job `2` runs and while its shutdown handler runs; the run of `1` ends (`sdWaitReturn 1 0`: its inline shutdown
  returns) after the end of that handler (`hEnd 2`, the last waking event) and the unrelated end of job `3`. -/

def exEvs : List EvB :=
  [.runBegin, .grant 1, .grant 3, .grant 2, .tick 5, .bodyEnd 2 true, .waitReturn 1, .react 1, .tidyReturn 1 0,
   .tick 2, .hEnd 2, .bodyEnd 3 true]

def exEnd : EvB := .sdWaitReturn 1 0

/-- the theorems apply to `exEvs ++ [exEnd]` and `s = 1` -/
example : ∃ a e0 b, exEvs = a ++ e0 :: b ∧ wakes NestB.exCfg 1 e0 = true ∧ ∀ x ∈ b, isTick x = false := by
  have hpre : (acceptB NestB.exCfg StB.init exEvs).map (fun st => decide (st.pcB 1 ≠ .over)) = some true := by decide
  have hpost : (acceptB NestB.exCfg StB.init (exEvs ++ [exEnd])).map (fun st => decide (st.pcB 1 = .over)) = some true := by
    decide
  cases h0 : acceptB NestB.exCfg StB.init exEvs with
  | none => rw [h0] at hpre; cases hpre
  | some st0 =>
    rw [h0] at hpre
    rw [acceptB_append, h0] at hpost
    simp only [Option.bind_some, acceptB] at hpost
    cases h1 : stepB NestB.exCfg st0 exEnd with
    | none => rw [h1] at hpost; cases hpost
    | some st =>
      rw [h1] at hpost
      exact end_no_latency_jobs NestB.exCfg (by decide) exEvs exEnd 1 st0 st h0 h1
        (by simpa using hpre) (by simpa using hpost) (by decide)

/-- the split: the last waking event of `1` is the end of the handler of its job `2`; both ticks lie before it; the
    event after it is not a waking event of `1` -/
example :
    exEvs = [.runBegin, .grant 1, .grant 3, .grant 2, .tick 5, .bodyEnd 2 true, .waitReturn 1, .react 1,
             .tidyReturn 1 0, .tick 2] ++ .hEnd 2 :: [.bodyEnd 3 true] ∧
    wakes NestB.exCfg 1 (.hEnd 2) = true ∧ wakes NestB.exCfg 1 (.bodyEnd 3 true) = false ∧
    isTick (.bodyEnd 3 true) = false ∧
    (acceptB NestB.exCfg StB.init [.runBegin, .grant 1, .grant 3, .grant 2, .tick 5, .bodyEnd 2 true, .waitReturn 1,
        .react 1, .tidyReturn 1 0, .tick 2]).map (fun sta => wakesAt NestB.exCfg 1 sta (.hEnd 2)) = some true ∧
    (acceptB NestB.exCfg StB.init exEvs).map (fun st => st.pcB 1) = some (.shut .success) ∧
    (acceptB NestB.exCfg StB.init (exEvs ++ [exEnd])).map (fun st => st.pcB 1) = some .over := by
  refine ⟨rfl, ?_, ?_, ?_, ?_, ?_, ?_⟩ <;> decide

/-- with a tick between the last waking event and the end of the run the history is not accepted -/
example : (acceptB NestB.exCfg StB.init (exEvs ++ [.tick 1, exEnd])).isNone = true ∧
    (acceptB NestB.exCfg StB.init (exEvs ++ [.tick 1])).isNone = true := by
  constructor <;> decide

/-- an empty nested scheduler: its run ends at the event that begins it (first alternative of `end_no_latency`) -/
def exCfgE : Cfg :=
  { n := 2, parent := fun _ => 0, isSched := fun _ => true, req := fun _ => [],
    critical := fun _ => false, forever := fun _ => false, window := fun _ => 0, timeout := fun _ => none,
    sdTimeout := fun _ => none, topPure := true }

example : exCfgE.wf = true ∧ exCfgE.children 1 = [] ∧ beginsB 1 (.grant 1) = true ∧
    (acceptB exCfgE StB.init [.runBegin]).map (fun st => st.pcB 1) = some .notBegun ∧
    (acceptB exCfgE StB.init [.runBegin, .grant 1]).map (fun st => st.pcB 1) = some .over := by
  decide

end AJ.Proofs.LatB

