/-
  C17 — neighbour, reachability and traversal queries agree with the requirements.
-/
import AJ.Spec
namespace AJ.Proofs.C17
open AJ

/-! ### list-as-set helpers -/

theorem mem_addNew (l : List Nat) (x y : Nat) : y ∈ addNew l x ↔ y ∈ l ∨ y = x := by
  unfold addNew
  split
  · constructor
    · intro h; exact Or.inl h
    · rintro (h | h)
      · exact h
      · subst h; assumption
  · simp

theorem nodup_addNew (l : List Nat) (x : Nat) (h : l.Nodup) : (addNew l x).Nodup := by
  unfold addNew
  split
  · exact h
  · rw [List.nodup_append]
    refine ⟨h, by simp, ?_⟩
    intro a ha b hb hab
    simp at hb
    subst hb; subst hab
    contradiction

theorem length_addNew_le (l : List Nat) (x : Nat) : l.length ≤ (addNew l x).length := by
  unfold addNew
  split <;> simp

theorem unionNew_cons (l : List Nat) (x : Nat) (xs : List Nat) :
    unionNew l (x :: xs) = unionNew (addNew l x) xs := rfl

theorem mem_unionNew (l xs : List Nat) (y : Nat) : y ∈ unionNew l xs ↔ y ∈ l ∨ y ∈ xs := by
  induction xs generalizing l with
  | nil => simp [unionNew]
  | cons x xs ih =>
    rw [unionNew_cons, ih, mem_addNew, List.mem_cons, or_assoc]

theorem nodup_unionNew (l xs : List Nat) (h : l.Nodup) : (unionNew l xs).Nodup := by
  induction xs generalizing l with
  | nil => simpa [unionNew] using h
  | cons x xs ih => rw [unionNew_cons]; exact ih _ (nodup_addNew l x h)

theorem length_unionNew_le (l xs : List Nat) : l.length ≤ (unionNew l xs).length := by
  induction xs generalizing l with
  | nil => simp [unionNew]
  | cons x xs ih =>
    rw [unionNew_cons]
    exact Nat.le_trans (length_addNew_le l x) (ih _)

theorem subset_of_length_unionNew (l xs : List Nat) (h : (unionNew l xs).length = l.length) :
    ∀ y ∈ xs, y ∈ l := by
  induction xs generalizing l with
  | nil => simp
  | cons x xs ih =>
    rw [unionNew_cons] at h
    have h1 := length_addNew_le l x
    have h2 := length_unionNew_le (addNew l x) xs
    have hx : x ∈ l := by
      apply Classical.byContradiction
      intro hx
      have : (addNew l x).length = l.length + 1 := by simp [addNew, hx]
      omega
    have hadd : addNew l x = l := by simp [addNew, hx]
    rw [hadd] at h
    intro y hy
    rcases List.mem_cons.1 hy with rfl | hy
    · exact hx
    · exact ih l h y hy

theorem unionNew_eq_of_subset (l xs : List Nat) (h : ∀ y ∈ xs, y ∈ l) : unionNew l xs = l := by
  induction xs generalizing l with
  | nil => rfl
  | cons x xs ih =>
    rw [unionNew_cons]
    have hx : x ∈ l := h x (by simp)
    have hadd : addNew l x = l := by simp [addNew, hx]
    rw [hadd]
    exact ih l (fun y hy => h y (by simp [hy]))

/-! ### folds of `unionNew` -/

section fold
variable (f : Nat → List Nat)

theorem mem_foldU (init as : List Nat) (y : Nat) :
    y ∈ as.foldl (fun acc a => unionNew acc (f a)) init ↔ y ∈ init ∨ ∃ a ∈ as, y ∈ f a := by
  induction as generalizing init with
  | nil => simp
  | cons a as ih =>
    rw [List.foldl_cons, ih, mem_unionNew]
    simp only [List.mem_cons, exists_eq_or_imp, or_assoc]

theorem nodup_foldU (init as : List Nat) (h : init.Nodup) :
    (as.foldl (fun acc a => unionNew acc (f a)) init).Nodup := by
  induction as generalizing init with
  | nil => simpa using h
  | cons a as ih =>
    rw [List.foldl_cons]
    exact ih _ (nodup_unionNew _ _ h)

theorem length_foldU_le (init as : List Nat) :
    init.length ≤ (as.foldl (fun acc a => unionNew acc (f a)) init).length := by
  induction as generalizing init with
  | nil => simp
  | cons a as ih =>
    rw [List.foldl_cons]
    exact Nat.le_trans (length_unionNew_le _ _) (ih _)

theorem foldU_closed (init as : List Nat)
    (h : (as.foldl (fun acc a => unionNew acc (f a)) init).length = init.length) :
    ∀ a ∈ as, ∀ y ∈ f a, y ∈ init := by
  induction as generalizing init with
  | nil => simp
  | cons a as ih =>
    rw [List.foldl_cons] at h
    have h1 := length_unionNew_le init (f a)
    have h2 := length_foldU_le f (unionNew init (f a)) as
    have hsub := subset_of_length_unionNew init (f a) (by omega)
    have heq := unionNew_eq_of_subset init (f a) hsub
    rw [heq] at h
    intro b hb
    rcases List.mem_cons.1 hb with rfl | hb
    · exact hsub
    · exact ih init h b hb

end fold

/-! ### neighbours -/

theorem mem_neigh (t : T) (s : Nat) (up : Bool) (starts : List Nat) (x : Nat) :
    x ∈ neigh t s up starts ↔ ∃ a ∈ starts, Link t s up a x := by
  unfold neigh
  rw [mem_foldU]
  cases up <;> simp [links, succOf, Link] <;> grind

theorem pred_iff (t : T) (s : Nat) (starts : List Nat) (x : Nat) :
    x ∈ predecessors t s starts ↔ ∃ a ∈ starts, x ∈ t.req a ∧ x ∈ t.mem s := by
  unfold predecessors
  rw [mem_neigh]
  simp [Link, and_comm]

theorem succ_iff (t : T) (s : Nat) (starts : List Nat) (x : Nat) :
    x ∈ successors t s starts ↔ ∃ a ∈ starts, a ∈ t.req x ∧ x ∈ t.mem s := by
  unfold successors
  rw [mem_neigh]
  simp [Link, and_comm]

/-- `_neighbours` returns a set (no duplicates) -/
theorem neigh_nodup (t : T) (s : Nat) (up : Bool) (starts : List Nat) : (neigh t s up starts).Nodup := by
  unfold neigh
  exact nodup_foldU _ _ _ List.nodup_nil

/-! ### closure -/

theorem closureLoop_spec (t : T) (s : Nat) (up : Bool) :
    ∀ (fuel : Nat) (cl : List Nat), cl.Nodup → (∀ x ∈ cl, x ∈ t.mem s) →
      (t.mem s).length + 1 ≤ fuel + cl.length →
      (closureLoop t s up fuel cl).Nodup ∧
      (∀ x ∈ cl, x ∈ closureLoop t s up fuel cl) ∧
      (∀ a ∈ closureLoop t s up fuel cl, ∀ y, Link t s up a y → y ∈ closureLoop t s up fuel cl) ∧
      (∀ P : Nat → Prop, (∀ x ∈ cl, P x) → (∀ a y, P a → Link t s up a y → P y) →
        ∀ x ∈ closureLoop t s up fuel cl, P x) := by
  intro fuel
  induction fuel with
  | zero =>
    intro cl hnd hsub hfuel
    have := List.Nodup.length_le_of_subset hnd (fun x hx => hsub x hx)
    omega
  | succ fuel ih =>
    intro cl hnd hsub hfuel
    unfold closureLoop
    simp only
    split
    · rename_i heq
      refine ⟨hnd, fun x hx => hx, ?_, fun P hP _ x hx => hP x hx⟩
      intro a ha y hl
      exact foldU_closed (fun a => neigh t s up [a]) cl cl heq a ha y
        ((mem_neigh t s up [a] y).2 ⟨a, by simp, hl⟩)
    · rename_i hne
      have hle := length_foldU_le (fun a => neigh t s up [a]) cl cl
      have hnd' := nodup_foldU (fun a => neigh t s up [a]) cl cl hnd
      have hmem' := mem_foldU (fun a => neigh t s up [a]) cl cl
      generalize cl.foldl (fun acc a => unionNew acc (neigh t s up [a])) cl = cl' at *
      have hsub' : ∀ x ∈ cl', x ∈ t.mem s := by
        intro x hx
        rcases (hmem' x).1 hx with h | ⟨a, _, h⟩
        · exact hsub x h
        · obtain ⟨b, _, hl⟩ := (mem_neigh t s up [a] x).1 h
          exact hl.1
      obtain ⟨r1, r2, r3, r4⟩ := ih cl' hnd' hsub' (by omega)
      refine ⟨r1, fun x hx => r2 x ((hmem' x).2 (Or.inl hx)), r3, ?_⟩
      intro P hP hstep
      apply r4 P _ hstep
      intro x hx
      rcases (hmem' x).1 hx with h | ⟨a, ha, h⟩
      · exact hP x h
      · obtain ⟨b, hb, hl⟩ := (mem_neigh t s up [a] x).1 h
        simp at hb; subst hb
        exact hstep b x (hP b ha) hl

theorem closure_spec (t : T) (s : Nat) (up : Bool) (starts : List Nat) :
    (closure t s up starts).Nodup ∧
      (∀ x ∈ neigh t s up starts, x ∈ closure t s up starts) ∧
      (∀ a ∈ closure t s up starts, ∀ y, Link t s up a y → y ∈ closure t s up starts) ∧
      (∀ P : Nat → Prop, (∀ x ∈ neigh t s up starts, P x) → (∀ a y, P a → Link t s up a y → P y) →
        ∀ x ∈ closure t s up starts, P x) := by
  unfold closure
  apply closureLoop_spec t s up _ _ (neigh_nodup t s up starts)
  · intro x hx
    obtain ⟨a, _, hl⟩ := (mem_neigh t s up starts x).1 hx
    exact hl.1
  · omega

/-- `predecessors_upstream` / `successors_downstream`: exactly the members reachable through one or more
    links, from any of the start jobs; in particular the fuel `|mem s| + 1` always suffices -/
theorem closure_iff (t : T) (s : Nat) (up : Bool) (starts : List Nat) (x : Nat) :
    x ∈ closure t s up starts ↔ ∃ a ∈ starts, ReachL t s up a x := by
  obtain ⟨_, hinit, hclosed, hind⟩ := closure_spec t s up starts
  constructor
  · intro hx
    refine hind (fun x => ∃ a ∈ starts, ReachL t s up a x) ?_ ?_ x hx
    · intro y hy
      obtain ⟨a, ha, hl⟩ := (mem_neigh t s up starts y).1 hy
      exact ⟨a, ha, ReachL.single hl⟩
    · rintro a y ⟨b, hb, hr⟩ hl
      exact ⟨b, hb, ReachL.tail hr hl⟩
  · rintro ⟨a, ha, hr⟩
    induction hr with
    | single hl => exact hinit _ ((mem_neigh t s up starts _).2 ⟨a, ha, hl⟩)
    | tail _ hl ih => exact hclosed _ ih _ hl

theorem closure_nodup (t : T) (s : Nat) (up : Bool) (starts : List Nat) : (closure t s up starts).Nodup :=
  (closure_spec t s up starts).1

theorem entry_iff (t : T) (s x : Nat) : x ∈ entryJobs t s ↔ x ∈ t.mem s ∧ t.req x = [] := by
  simp [entryJobs, List.mem_filter, List.isEmpty_iff]

theorem exit_iff (t : T) (s x : Nat) (discard : Bool) :
    x ∈ exitJobs t s discard ↔
      x ∈ t.mem s ∧ ¬ (discard = true ∧ t.forever x = true) ∧ ∀ y ∈ t.mem s, x ∉ t.req y := by
  cases discard <;>
    simp [exitJobs, succOf, List.mem_filter, List.isEmpty_iff, List.filter_eq_nil_iff]

/-! ### iterate_jobs -/

/-- the well-formedness hypothesis of `iterate_mem`, relative to a root -/
def W (t : T) (s : Nat) : Prop := ∀ s', (s' = s ∨ Desc t s s') → ∀ k ∈ t.mem s', s' < k ∧ k < t.n

theorem desc_of_child {t : T} {s j x : Nat} (hs : t.isSched s = true) (hj : j ∈ t.mem s)
    (h : x = j ∨ Desc t j x) : Desc t s x := by
  rcases h with rfl | h
  · exact Desc.child hs hj
  · exact Desc.deeper hs hj h

theorem sub_of_child {t : T} {s j x : Nat} (hs : t.isSched s = true) (hj : j ∈ t.mem s)
    (h : x = j ∨ Desc t j x) : x = s ∨ Desc t s x := Or.inr (desc_of_child hs hj h)

theorem W_child {t : T} {s j : Nat} (hW : W t s) (hs : t.isSched s = true) (hj : j ∈ t.mem s) :
    W t j := fun s' h => hW s' (sub_of_child hs hj h)

theorem desc_isSched {t : T} {s x : Nat} (h : Desc t s x) : t.isSched s = true := by
  cases h <;> assumption

theorem desc_lt {t : T} {s x : Nat} (h : Desc t s x) : W t s → s < x ∧ x < t.n := by
  induction h with
  | child hs hk => intro hW; exact hW _ (Or.inl rfl) _ hk
  | deeper hs hk _ ih =>
    intro hW
    have h1 := hW _ (Or.inl rfl) _ hk
    have h2 := ih (W_child hW hs hk)
    omega

theorem desc_parent {t : T} {s x : Nat} (h : Desc t s x) :
    ∃ p, (p = s ∨ Desc t s p) ∧ t.isSched p = true ∧ x ∈ t.mem p := by
  induction h with
  | child hs hk => exact ⟨_, Or.inl rfl, hs, hk⟩
  | deeper hs hk _ ih =>
    obtain ⟨p, hp, hps, hxp⟩ := ih
    exact ⟨p, sub_of_child hs hk hp, hps, hxp⟩

theorem iterate_mem_aux (t : T) (scan : Bool) (x : Nat) :
    ∀ (fuel s : Nat), t.isSched s = true → s < t.n → t.n - s ≤ fuel → W t s →
      (x ∈ iterateJobs t scan fuel s ↔
        ((Desc t s x ∧ (t.isSched x = false ∨ scan = true)) ∨ (x = s ∧ scan = true))) := by
  intro fuel
  induction fuel with
  | zero => intro s _ hlt hfuel; omega
  | succ fuel ih =>
    intro s hs hlt hfuel hW
    have hih : ∀ j ∈ t.mem s, t.isSched j = true →
        (x ∈ iterateJobs t scan fuel j ↔
          ((Desc t j x ∧ (t.isSched x = false ∨ scan = true)) ∨ (x = j ∧ scan = true))) := by
      intro j hj hjs
      have := hW s (Or.inl rfl) j hj
      exact ih j hjs this.2 (by omega) (W_child hW hs hj)
    unfold iterateJobs
    rw [List.mem_append, List.mem_flatMap]
    constructor
    · rintro (h | ⟨j, hj, h⟩)
      · right
        cases scan <;> simp_all
      · left
        by_cases hjs : t.isSched j = true
        · rw [if_pos hjs, hih j hj hjs] at h
          rcases h with ⟨hd, hc⟩ | ⟨rfl, hc⟩
          · exact ⟨Desc.deeper hs hj hd, hc⟩
          · exact ⟨Desc.child hs hj, Or.inr hc⟩
        · rw [if_neg hjs] at h
          simp at h; subst h
          exact ⟨Desc.child hs hj, Or.inl (by simpa using hjs)⟩
    · rintro (⟨hd, hc⟩ | ⟨rfl, hc⟩)
      · right
        cases hd with
        | child _ hk =>
          refine ⟨x, hk, ?_⟩
          by_cases hxs : t.isSched x = true
          · rw [if_pos hxs, hih x hk hxs]
            right
            refine ⟨rfl, ?_⟩
            rcases hc with hc | hc
            · rw [hxs] at hc; cases hc
            · exact hc
          · rw [if_neg hxs]; simp
        | deeper hs' hk hd' =>
          rename_i k
          refine ⟨k, hk, ?_⟩
          have hks := desc_isSched hd'
          rw [if_pos hks, hih k hk hks]
          exact Or.inl ⟨hd', hc⟩
      · left
        subst hc; simp

/-- `iterate_jobs()` visits exactly the jobs of the subtree: atomic ones only, or schedulers too (the start
    scheduler included) when `scan_schedulers` -/
theorem iterate_mem (t : T) (fuel s : Nat) (scan : Bool) (x : Nat)
    (hs : t.isSched s = true) (hlt : s < t.n) (hfuel : t.n - s ≤ fuel)
    (hwf : ∀ s', (s' = s ∨ Desc t s s') → ∀ k ∈ t.mem s', s' < k ∧ k < t.n) :
    x ∈ iterateJobs t scan fuel s ↔
      ((Desc t s x ∧ (t.isSched x = false ∨ scan = true)) ∨ (x = s ∧ scan = true)) :=
  iterate_mem_aux t scan x fuel s hs hlt hfuel hwf

theorem nodup_flatMap_of (f : Nat → List Nat) (l : List Nat) (hl : l.Nodup)
    (hf : ∀ a ∈ l, (f a).Nodup)
    (hd : ∀ a ∈ l, ∀ b ∈ l, a ≠ b → ∀ x, x ∈ f a → x ∈ f b → False) :
    (l.flatMap f).Nodup := by
  induction l with
  | nil => simp
  | cons a l ih =>
    rw [List.flatMap_cons, List.nodup_append]
    have hnd := List.nodup_cons.1 hl
    refine ⟨hf a (by simp), ?_, ?_⟩
    · exact ih hnd.2 (fun b hb => hf b (by simp [hb]))
        (fun b hb c hc => hd b (by simp [hb]) c (by simp [hc]))
    · intro x hx y hy hxy
      subst hxy
      obtain ⟨b, hb, hxb⟩ := List.mem_flatMap.1 hy
      refine hd a (by simp) b (by simp [hb]) ?_ x hx hxb
      rintro rfl
      exact hnd.1 hb

/-- two children of `s` whose subtrees share a job are the same child -/
theorem desc_unique (t : T) (s : Nat) (hs : t.isSched s = true) (hW : W t s)
    (huniq : ∀ s1 s2 k, (s1 = s ∨ Desc t s s1) → (s2 = s ∨ Desc t s s2) →
      k ∈ t.mem s1 → k ∈ t.mem s2 → s1 = s2) :
    ∀ (x j1 j2 : Nat), j1 ∈ t.mem s → j2 ∈ t.mem s →
      (x = j1 ∨ Desc t j1 x) → (x = j2 ∨ Desc t j2 x) → j1 = j2 := by
  intro x
  induction x using Nat.strongRecOn with
  | _ x ih =>
    intro j1 j2 hj1 hj2 h1 h2
    -- a child of `s` cannot be a strict descendant of a child of `s`
    have key : ∀ j j', j ∈ t.mem s → j' ∈ t.mem s → Desc t j' j → False := by
      intro j j' hj hj' hd
      obtain ⟨p, hp, _, hjp⟩ := desc_parent hd
      have hps : p = s := huniq p s j (sub_of_child hs hj' hp) (Or.inl rfl) hjp hj
      subst hps
      have h3 := hW p (Or.inl rfl) j' hj'
      rcases hp with hp | hp
      · omega
      · have := desc_lt hp (W_child hW hs hj')
        omega
    rcases h1 with rfl | h1 <;> rcases h2 with rfl | h2
    · rfl
    · exact (key _ _ hj1 hj2 h2).elim
    · exact (key _ _ hj2 hj1 h1).elim
    · obtain ⟨p1, hp1, _, hx1⟩ := desc_parent h1
      obtain ⟨p2, hp2, _, hx2⟩ := desc_parent h2
      have hp1s := sub_of_child hs hj1 hp1
      have hp2s := sub_of_child hs hj2 hp2
      have hpp : p1 = p2 := huniq p1 p2 x hp1s hp2s hx1 hx2
      subst hpp
      have hlt := hW p1 hp1s x hx1
      exact ih p1 hlt.1 j1 j2 hj1 hj2 hp1 hp2

theorem iterate_nodup_aux (t : T) (scan : Bool) :
    ∀ (fuel s : Nat), t.isSched s = true → s < t.n → t.n - s ≤ fuel → W t s →
      (∀ s', (s' = s ∨ Desc t s s') → (t.mem s').Nodup) →
      (∀ s1 s2 k, (s1 = s ∨ Desc t s s1) → (s2 = s ∨ Desc t s s2) →
        k ∈ t.mem s1 → k ∈ t.mem s2 → s1 = s2) →
      (iterateJobs t scan fuel s).Nodup := by
  intro fuel
  induction fuel with
  | zero => intro s _ hlt hfuel; omega
  | succ fuel ih =>
    intro s hs hlt hfuel hW hnd huniq
    -- membership in a piece
    have piece : ∀ j ∈ t.mem s, ∀ x,
        x ∈ (if t.isSched j = true then iterateJobs t scan fuel j else [j]) →
        x = j ∨ Desc t j x := by
      intro j hj x hx
      by_cases hjs : t.isSched j = true
      · rw [if_pos hjs] at hx
        have hjlt := hW s (Or.inl rfl) j hj
        rcases (iterate_mem_aux t scan x fuel j hjs hjlt.2 (by omega) (W_child hW hs hj)).1 hx with
          ⟨hd, _⟩ | ⟨rfl, _⟩
        · exact Or.inr hd
        · exact Or.inl rfl
      · rw [if_neg hjs] at hx
        simp at hx
        exact Or.inl hx
    unfold iterateJobs
    rw [List.nodup_append]
    refine ⟨by cases scan <;> simp, ?_, ?_⟩
    · apply nodup_flatMap_of _ _ (hnd s (Or.inl rfl))
      · intro j hj
        by_cases hjs : t.isSched j = true
        · rw [if_pos hjs]
          have hjlt := hW s (Or.inl rfl) j hj
          apply ih j hjs hjlt.2 (by omega) (W_child hW hs hj)
          · exact fun s' h => hnd s' (sub_of_child hs hj h)
          · exact fun s1 s2 k h1 h2 => huniq s1 s2 k (sub_of_child hs hj h1) (sub_of_child hs hj h2)
        · rw [if_neg hjs]; simp
      · intro a ha b hb hab x hxa hxb
        exact hab (desc_unique t s hs hW huniq x a b ha hb (piece a ha x hxa) (piece b hb x hxb))
    · intro a ha b hb hab
      subst hab
      have has : a = s := by cases scan <;> simp_all
      subst has
      obtain ⟨j, hj, hx⟩ := List.mem_flatMap.1 hb
      have := desc_lt (desc_of_child hs hj (piece j hj a hx)) hW
      omega

set_option linter.unusedVariables false in
/-- … exactly once -/
theorem iterate_nodup (t : T) (fuel s : Nat) (scan : Bool)
    (hs : t.isSched s = true) (hlt : s < t.n) (hfuel : t.n - s ≤ fuel)
    (hwf : ∀ s', (s' = s ∨ Desc t s s') → ∀ k ∈ t.mem s', s' < k ∧ k < t.n)
    (hnd : ∀ s', (s' = s ∨ Desc t s s') → (t.mem s').Nodup)
    (hatomic : ∀ k, t.isSched k = false → t.mem k = [])
    (huniq : ∀ s1 s2 k, (s1 = s ∨ Desc t s s1) → (s2 = s ∨ Desc t s s2) → k ∈ t.mem s1 → k ∈ t.mem s2 → s1 = s2) :
    (iterateJobs t scan fuel s).Nodup :=
  iterate_nodup_aux t scan fuel s hs hlt hfuel hwf hnd huniq

end AJ.Proofs.C17
