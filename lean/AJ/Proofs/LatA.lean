/-
  C10 (d) / C12 in history form, layer A: a job without window limit is granted at the very instant at which the last
  thing it was waiting for happened — the end of one of its requirements, or the beginning of its scheduler's run:
  no `tick` separates that event from the grant.
-/
import AJ.Proofs.HistA
import AJ.Proofs.CoreA
namespace AJ.Proofs.LatA
open AJ.Run AJ.Proofs.CoreA

/-- the event is one `j` may have been waiting for: the end of one of its requirements or the beginning of the run of
    its scheduler -/
def enables (c : Cfg) (j : Nat) (e : EvA) : Bool :=
  begins (c.parent j) e || (c.req j).any fun r => finishes c r e

def isTickA : EvA → Bool
  | .tick _ => true
  | _ => false

/-! ### lists: the last element satisfying a predicate -/

theorem last_split {α : Type} (p : α → Bool) (l : List α) (h : l.any p = true) :
    ∃ a e b, l = a ++ e :: b ∧ p e = true ∧ ∀ x ∈ b, p x = false := by
  induction l with
  | nil => simp at h
  | cons x l ih =>
    cases hl : l.any p with
    | true =>
      obtain ⟨a, e, b, rfl, he, hb⟩ := ih hl
      exact ⟨x :: a, e, b, rfl, he, hb⟩
    | false =>
      have hx : p x = true := by simpa [List.any_cons, hl] using h
      refine ⟨[], x, l, rfl, hx, fun y hy => ?_⟩
      cases hy' : p y with
      | false => rfl
      | true =>
        have : l.any p = true := List.any_eq_true.2 ⟨y, hy, hy'⟩
        rw [hl] at this; cases this

/-! ### a job that can still be granted: backward preservation along steps -/

theorem step_loop_back (c : Cfg) (st st' : StA) (e : EvA) (h : stepA c st e = some st') (s : Nat)
    (hs : st'.pc s = .loop) : st.pc s = .loop ∨ begins s e = true := by
  cases e <;> simp only [stepA] at h <;> (repeat' split at h) <;> cases h <;> revert hs <;>
    (try unfold beginRun) <;> (repeat' split) <;> simp only [release, startJobs, setAt, begins] <;> grind

theorem parent_of_child {c : Cfg} {s k : Nat} (h : k ∈ c.children s) : c.parent k = s :=
  (HistA.mem_children h).2.2

/-- a task waiting for a slot, not being cancelled, was so before the step, or was created by the step: by the
    reaction of its scheduler (in its loop), or by the beginning of the run of its scheduler -/
theorem step_queued_back (c : Cfg) (st st' : StA) (e : EvA) (h : stepA c st e = some st') (j : Nat)
    (hq : st'.ph j = .queued) (hc : st'.creq j = false) :
    (st.ph j = .queued ∧ st.creq j = false) ∨
    (st.ph j = .idle ∧ (st.pc (c.parent j) = .loop ∨ begins (c.parent j) e = true)) := by
  cases e <;> simp only [stepA] at h <;> (repeat' split at h) <;> cases h <;> revert hq hc <;>
    (try unfold beginRun) <;> (repeat' split) <;> simp only [release, startJobs, setAt, begins] <;>
    grind [→ parent_of_child, mem_startCands, mem_entrySet]

/-- `j` may still be granted later: its task waits for a slot and is not being cancelled, or it has no task yet and
    its scheduler is in its main loop or has not begun its run -/
def Alive (c : Cfg) (st : StA) (j : Nat) : Prop :=
  (st.ph j = .queued ∧ st.creq j = false) ∨
  (st.ph j = .idle ∧ (st.pc (c.parent j) = .loop ∨ st.rflag (c.parent j) = false))

/-- a job that cannot be granted any more stays so (contrapositive form) -/
theorem alive_back (c : Cfg) (st st' : StA) (e : EvA) (hinv : InvA c st) (h : stepA c st e = some st') (j : Nat)
    (ha : Alive c st' j) : Alive c st j := by
  have hidle : st'.ph j = .idle → st.ph j = .idle := by
    intro hi
    have hm := (step_monotone c st st' e h j).2.1
    simp only [isScheduled] at hm
    by_cases h0 : st.ph j = .idle
    · exact h0
    · have := hm (by simpa using h0)
      simp [hi] at this
  have hbeg : begins (c.parent j) e = true → st.rflag (c.parent j) = false := by
    intro hb
    have he := HistA.step_begins_early c st st' e h _ hb
    apply hinv.rflagOff
    cases hp : st.ph (c.parent j) <;> simp [hp, HistA.early] at he ⊢
  rcases ha with ⟨hq, hc⟩ | ⟨hi, hl | hr⟩
  · rcases step_queued_back c st st' e h j hq hc with h1 | ⟨h1, h2 | h2⟩
    · exact Or.inl h1
    · exact Or.inr ⟨h1, Or.inl h2⟩
    · exact Or.inr ⟨h1, Or.inr (hbeg h2)⟩
  · rcases step_loop_back c st st' e h _ hl with h2 | h2
    · exact Or.inr ⟨hidle hi, Or.inl h2⟩
    · exact Or.inr ⟨hidle hi, Or.inr (hbeg h2)⟩
  · have hrf := HistA.step_rflag c st st' e h (c.parent j)
    rw [hr] at hrf
    refine Or.inr ⟨hidle hi, Or.inr ?_⟩
    cases hx : st.rflag (c.parent j) with
    | false => rfl
    | true => simp [hx] at hrf

theorem alive_back_list (c : Cfg) (hwf : c.wf = true) (j : Nat) (evs : List EvA) :
    ∀ (st st' : StA), InvA c st → acceptA c st evs = some st' → Alive c st' j → Alive c st j := by
  induction evs with
  | nil => intro st st' _ h ha; simp only [acceptA, Option.some.injEq] at h; subst h; exact ha
  | cons e es ih =>
    intro st st' hinv h ha
    simp only [acceptA] at h
    split at h
    · rename_i st1 hs
      exact alive_back c st st1 e hinv hs j (ih st1 st' (invA_step c hwf st st1 e hinv hs) h ha)
    · cases h

/-- C10 (d) / C12: no latency at the start of a job: in every accepted history, a job whose scheduler has no window is
    granted with no passing of time since the last event it was waiting for -/
theorem grant_no_latency (c : Cfg) (hwf : c.wf = true) (evs : List EvA) (j : Nat) (st : StA)
    (h : acceptA c StA.init (evs ++ [.grant j]) = some st) (hj : 0 < j) (hw : c.window (c.parent j) = 0) :
    ∃ a e b, evs = a ++ e :: b ∧ enables c j e = true ∧ ∀ x ∈ b, isTickA x = false := by
  have w := wf_of hwf
  have hreq := HistA.requirements_first c hwf evs j st h
  have hpar := HistA.parent_first c hwf evs j st h
  obtain ⟨st0, h0, hstep⟩ := HistA.acceptA_snoc_some h
  -- the guard of the grant
  have hg : j < c.n ∧ st0.ph j = .queued ∧ st0.creq j = false := by
    simp only [stepA] at hstep
    split at hstep
    · next hg => exact ⟨hg.2.1, hg.2.2.1, hg.2.2.2.1⟩
    · cases hstep
  obtain ⟨hjn, hq0, hc0⟩ := hg
  have halive0 : Alive c st0 j := Or.inl ⟨hq0, hc0⟩
  -- the last enabling event
  have hany : evs.any (enables c j) = true := by
    obtain ⟨x, hx, hbx⟩ := List.any_eq_true.1 hpar
    exact List.any_eq_true.2 ⟨x, hx, by simp [enables, hbx]⟩
  obtain ⟨a, e, b, hsplit, he, hb⟩ := last_split (enables c j) evs hany
  refine ⟨a, e, b, hsplit, he, fun x hx => ?_⟩
  cases hxt : isTickA x with
  | false => rfl
  | true =>
    exfalso
    obtain ⟨d, rfl⟩ : ∃ d, x = .tick d := by
      cases x <;> simp [isTickA] at hxt
      exact ⟨_, rfl⟩
    obtain ⟨b1, b2, rfl⟩ := List.append_of_mem hx
    -- the state in which the clock advanced
    have hevs : evs = (a ++ e :: b1) ++ (.tick d :: b2) := by simp [hsplit]
    rw [hevs, HistA.acceptA_append] at h0
    cases h1 : acceptA c StA.init (a ++ e :: b1) with
    | none => simp [h1] at h0
    | some st1 =>
      rw [h1] at h0
      simp only [Option.bind_some, acceptA] at h0
      cases h2 : stepA c st1 (.tick d) with
      | none => simp [h2] at h0
      | some st2 =>
        rw [h2] at h0
        simp only at h0
        have hinv1 := invA_reach c hwf _ st1 h1
        have hinv2 := invA_step c hwf st1 st2 _ hinv1 h2
        have halive1 : Alive c st1 j :=
          alive_back c st1 st2 _ hinv1 h2 j (alive_back_list c hwf j b2 st2 st0 hinv2 h0 halive0)
        have g := HistA.ghost_reach c _ st1 h1
        -- every enabling event of the history lies before the tick
        have hpre : ∀ y ∈ evs, enables c j y = true → y ∈ a ++ e :: b1 := by
          intro y hy hey
          rw [hsplit] at hy
          simp only [List.mem_append, List.mem_cons] at hy ⊢
          rcases hy with hy | hy | hy
          · exact Or.inl hy
          · exact Or.inr (Or.inl hy)
          · have := hb y (by simpa using hy)
            rw [hey] at this; cases this
        have hdone : ∀ r ∈ c.req j, (st1.ph r).isDone = true := by
          intro r hr
          have hd := g.done r
          simp only [isDone] at hd
          rw [hd]
          obtain ⟨y, hy, hfy⟩ := List.any_eq_true.1 (hreq r hr)
          have hey : enables c j y = true := by
            simp only [enables, Bool.or_eq_true, List.any_eq_true]
            exact Or.inr ⟨r, hr, hfy⟩
          exact List.any_eq_true.2 ⟨y, hpre y hy hey, hfy⟩
        have hrun : st1.rflag (c.parent j) = true := by
          rw [g.run]
          obtain ⟨y, hy, hby⟩ := List.any_eq_true.1 hpar
          exact List.any_eq_true.2 ⟨y, hpre y hy (by simp [enables, hby]), hby⟩
        have hch : j ∈ c.children (c.parent j) := CoreA.mem_children.2 ⟨hjn, by omega, rfl⟩
        rcases halive1 with ⟨hq, hc⟩ | ⟨hi, hl | hr⟩
        · -- queued, not being cancelled, no window: the clock cannot advance
          simp only [stepA] at h2
          split at h2
          · next hgd =>
            exact hgd.2.1 j (List.mem_range.2 hjn) ⟨hj, hq, hc, by simp [slotFree, hw]⟩
          · cases h2
        · -- idle in a scheduler in its loop, all requirements done: excluded in a quiet state
          obtain ⟨r, hr, hnd⟩ :=
            (eager_at_quiescence c hwf _ st1 st2 d h1 h2 (c.parent j) (w.parentLtN hj hjn)
              (w.parentSched j hj hjn) hl j hch).1 hi
          rw [hdone r hr] at hnd; cases hnd
        · rw [hrun] at hr; cases hr

/-! ### non-vacuity: a scheduler with two jobs, `2` requires `1`; time passes while `1` runs, none between the end
   of `1` and the grant of `2` -/

def exCfg : Cfg :=
  { n := 3, parent := fun _ => 0, isSched := fun j => j == 0, req := fun j => if j == 2 then [1] else [],
    critical := fun _ => false, forever := fun _ => false, window := fun _ => 0,
    timeout := fun _ => none, sdTimeout := fun _ => none, topPure := true }

def exEvs : List EvA := [.runBegin, .grant 1, .tick 3, .bodyEnd 1 true, .waitReturn 0, .react 0 false []]

/-- the theorem applies to `exEvs ++ [grant 2]` -/
example : ∃ a e b, exEvs = a ++ e :: b ∧ enables exCfg 2 e = true ∧ ∀ x ∈ b, isTickA x = false := by
  have hacc : (acceptA exCfg StA.init (exEvs ++ [.grant 2])).isSome = true := by decide
  obtain ⟨st, h⟩ := Option.isSome_iff_exists.1 hacc
  exact grant_no_latency exCfg (by decide) exEvs 2 st h (by decide) (by decide)

/-- the split it finds: the last enabling event is the end of job `1`; the tick lies before it -/
example : exEvs = [.runBegin, .grant 1, .tick 3] ++ .bodyEnd 1 true :: [.waitReturn 0, .react 0 false []] ∧
    enables exCfg 2 (.bodyEnd 1 true) = true ∧
    ([EvA.waitReturn 0, .react 0 false []].all fun x => !isTickA x && !enables exCfg 2 x) = true ∧
    ([EvA.runBegin, .grant 1, .tick 3].any isTickA) = true := by
  refine ⟨rfl, ?_, ?_, ?_⟩ <;> decide

/-- with a tick between the last enabling event and the grant the history is not accepted -/
example : acceptA exCfg StA.init (exEvs ++ [.tick 1, .grant 2]) = none ∧
    acceptA exCfg StA.init ([.runBegin, .grant 1, .tick 3, .bodyEnd 1 true, .tick 1]) = none := by
  constructor <;> decide

end AJ.Proofs.LatA

