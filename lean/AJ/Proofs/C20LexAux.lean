/-
  Auxiliary lemmas for C20Lex: fuel irrelevance of `lexDot`, and one backward-chaining rule per kind of token.
-/
import AJ.Model.DotLex
import AJ.Proofs.C20
namespace AJ.Proofs.C20Lex
open AJ

/-! ### fuel -/

theorem unquote_length (l : List Char) :
    ∀ x r, unquoteChars l = some (x, r) → r.length ≤ l.length := by
  fun_induction unquoteChars l with
  | case1 => intro x r h; simp at h
  | case2 rest => intro x r h; simp at h; obtain ⟨_, rfl⟩ := h; simp
  | case3 rest ih =>
    intro x r h
    simp only [Option.map_eq_some_iff] at h
    obtain ⟨⟨a, b⟩, hab, h⟩ := h
    simp only [Prod.mk.injEq] at h
    obtain ⟨_, rfl⟩ := h
    have := ih _ _ hab
    simp only [List.length_cons]; omega
  | case4 c rest _ _ ih =>
    intro x r h
    simp only [Option.map_eq_some_iff] at h
    obtain ⟨⟨a, b⟩, hab, h⟩ := h
    simp only [Prod.mk.injEq] at h
    obtain ⟨_, rfl⟩ := h
    have := ih _ _ hab
    simp only [List.length_cons]; omega

theorem spanId_length (l : List Char) : (spanId l).2.length ≤ l.length := by
  induction l with
  | nil => simp [spanId]
  | cons c cs ih =>
    simp only [spanId]
    split
    · simp only [List.length_cons]; omega
    · simp

theorem lexDot_fuel : ∀ (f1 f2 : Nat) (l : List Char), l.length ≤ f1 → l.length ≤ f2 → lexDot f1 l = lexDot f2 l := by
  intro f1
  induction f1 with
  | zero =>
    intro f2 l h1 h2
    cases l with
    | nil => cases f2 <;> simp [lexDot]
    | cons => simp at h1
  | succ f ih =>
    intro f2 l h1 h2
    cases l with
    | nil => cases f2 <;> simp [lexDot]
    | cons c cs =>
      cases f2 with
      | zero => simp at h2
      | succ g =>
        simp only [List.length_cons, Nat.add_le_add_iff_right] at h1 h2
        simp only [lexDot]
        rw [ih g cs h1 h2]
        refine ite_congr rfl (fun _ => rfl) (fun _ => ?_)
        refine ite_congr rfl (fun _ => ?_) (fun _ => ?_)
        · cases hu : unquoteChars cs with
          | none => rfl
          | some p =>
            obtain ⟨x, r⟩ := p
            have := unquote_length cs x r hu
            simp only
            rw [ih g r (by omega) (by omega)]
        iterate 7 refine ite_congr rfl (fun _ => rfl) (fun _ => ?_)
        refine ite_congr rfl (fun _ => ?_) (fun _ => ?_)
        · split
          · rename_i rest
            simp only [List.length_cons] at h1 h2
            rw [ih g rest (by omega) (by omega)]
          · rfl
        refine ite_congr rfl (fun hc => ?_) (fun _ => rfl)
        have h3 : (spanId (c :: cs)).2 = (spanId cs).2 := by simp [spanId, hc]
        have := spanId_length cs
        refine ite_congr rfl (fun _ => ?_) (fun _ => rfl)
        rw [h3, ih g _ (by omega) (by omega)]

/-! ### backward-chaining rules -/

/-- `l` lexes into `ts` -/
def Lexes (l : List Char) (ts : List Tok) : Prop := lexDot l.length l = some ts

theorem lexes_nil : Lexes [] [] := rfl

theorem lexDot_of_lexes {l : List Char} {ts : List Tok} (h : Lexes l ts) {f : Nat} (hf : l.length ≤ f) :
    lexDot f l = some ts := by
  rw [lexDot_fuel f l.length l hf (Nat.le_refl _)]; exact h

theorem lex_space {c : Char} {rest : List Char} {ts : List Tok} (hc : isSpaceChar c = true) (h : Lexes rest ts) :
    Lexes (c :: rest) ts := by
  unfold Lexes at *
  simp only [List.length_cons, lexDot, hc, if_true]; exact h

theorem lex_sp {rest : List Char} {ts : List Tok} (h : Lexes rest ts) : Lexes (' ' :: rest) ts :=
  lex_space (by decide) h

theorem lex_nl {rest : List Char} {ts : List Tok} (h : Lexes rest ts) : Lexes ('\n' :: rest) ts :=
  lex_space (by decide) h

theorem lex_lbrace {rest : List Char} {ts : List Tok} (h : Lexes rest ts) : Lexes ('{' :: rest) (Tok.lbrace :: ts) := by
  unfold Lexes at *; simp [lexDot, isSpaceChar, h]

theorem lex_rbrace {rest : List Char} {ts : List Tok} (h : Lexes rest ts) : Lexes ('}' :: rest) (Tok.rbrace :: ts) := by
  unfold Lexes at *; simp [lexDot, isSpaceChar, h]

theorem lex_lbrack {rest : List Char} {ts : List Tok} (h : Lexes rest ts) : Lexes ('[' :: rest) (Tok.lbrack :: ts) := by
  unfold Lexes at *; simp [lexDot, isSpaceChar, h]

theorem lex_rbrack {rest : List Char} {ts : List Tok} (h : Lexes rest ts) : Lexes (']' :: rest) (Tok.rbrack :: ts) := by
  unfold Lexes at *; simp [lexDot, isSpaceChar, h]

theorem lex_semi {rest : List Char} {ts : List Tok} (h : Lexes rest ts) : Lexes (';' :: rest) (Tok.semi :: ts) := by
  unfold Lexes at *; simp [lexDot, isSpaceChar, h]

theorem lex_comma {rest : List Char} {ts : List Tok} (h : Lexes rest ts) : Lexes (',' :: rest) (Tok.comma :: ts) := by
  unfold Lexes at *; simp [lexDot, isSpaceChar, h]

theorem lex_eq {rest : List Char} {ts : List Tok} (h : Lexes rest ts) : Lexes ('=' :: rest) (Tok.eq :: ts) := by
  unfold Lexes at *; simp [lexDot, isSpaceChar, h]

theorem lex_arrow {rest : List Char} {ts : List Tok} (h : Lexes rest ts) :
    Lexes ('-' :: '>' :: rest) (Tok.arrow :: ts) := by
  have := lexDot_of_lexes h (f := rest.length + 1) (by omega)
  unfold Lexes at *; simp [lexDot, isSpaceChar, this]

/-- a quoted attribute value -/
theorem lex_str {v rest : List Char} {ts : List Tok} (hv : ∀ ch ∈ v, ch ≠ '\\') (h : Lexes rest ts) :
    Lexes ('"' :: (protectChars v ++ '"' :: rest)) (Tok.str v :: ts) := by
  have := lexDot_of_lexes h (f := (protectChars v ++ '"' :: rest).length) (by simp; omega)
  simp only [List.length_append, List.length_cons] at this
  unfold Lexes at *
  simp [lexDot, isSpaceChar, C20.quote_roundtrip v rest hv, this]

/-- a non-empty list of ID characters that is an identifier or a numeral -/
def IdOk (xs : List Char) : Prop := xs ≠ [] ∧ (∀ ch ∈ xs, isIdChar ch = true) ∧ validIdRun xs = true

theorem isIdChar_of_isIdentChar {ch : Char} (h : isIdentChar ch = true) : isIdChar ch = true := by
  simp only [isIdentChar, isIdChar, Bool.or_eq_true] at h ⊢
  exact Or.inl h

theorem isIdentChar_of_isIdentStart {ch : Char} (h : isIdentStart ch = true) : isIdentChar ch = true := by
  simp only [isIdentChar, isIdentStart, Char.isAlphanum, Bool.or_eq_true] at h ⊢
  rcases h with h | h
  · exact Or.inl (Or.inl h)
  · exact Or.inr h

/-- an identifier is an acceptable unquoted ID -/
theorem idOk_of_ident {xs : List Char} (h : isIdentRun xs = true) : IdOk xs := by
  cases xs with
  | nil => simp [isIdentRun] at h
  | cons x xs =>
    simp only [isIdentRun, Bool.and_eq_true, List.all_eq_true] at h
    refine ⟨by simp, ?_, ?_⟩
    · intro ch hch
      rcases List.mem_cons.1 hch with rfl | hch
      · exact isIdChar_of_isIdentChar (isIdentChar_of_isIdentStart h.1)
      · exact isIdChar_of_isIdentChar (h.2 ch hch)
    · simp only [validIdRun, isIdentRun, Bool.or_eq_true, Bool.and_eq_true, List.all_eq_true]
      exact Or.inl h

theorem dropWhile_isDigit_of_all {xs : List Char} (h : ∀ ch ∈ xs, ch.isDigit = true) :
    xs.dropWhile Char.isDigit = [] := by
  induction xs with
  | nil => rfl
  | cons x xs ih =>
    rw [List.dropWhile_cons, if_pos (h x (by simp))]
    exact ih (fun ch hch => h ch (by simp [hch]))

/-- a non-empty string of digits is a numeral, hence an acceptable unquoted ID -/
theorem idOk_of_digits {xs : List Char} (hne : xs ≠ []) (h : ∀ ch ∈ xs, ch.isDigit = true) : IdOk xs := by
  refine ⟨hne, ?_, ?_⟩
  · intro ch hch
    simp [isIdChar, Char.isAlphanum, h ch hch]
  · cases xs with
    | nil => exact absurd rfl hne
    | cons x xs =>
      have hx := h x (by simp)
      have hdot : x ≠ '.' := by
        intro e; subst e; revert hx; decide
      have hd := dropWhile_isDigit_of_all (xs := xs) (fun ch hch => h ch (by simp [hch]))
      simp [validIdRun, isNumeralRun, hdot, hx, hd]

theorem spanId_append {xs : List Char} {d : Char} {rest : List Char} (hx : ∀ ch ∈ xs, isIdChar ch = true)
    (hd : isIdChar d = false) : spanId (xs ++ d :: rest) = (xs, d :: rest) := by
  induction xs with
  | nil => simp [spanId, hd]
  | cons x xs ih =>
    have := ih (fun ch h => hx ch (by simp [h]))
    simp [spanId, hx x (by simp), this]

theorem idChar_not_special {x : Char} (hx : isIdChar x = true) :
    isSpaceChar x = false ∧ x ≠ '"' ∧ x ≠ '{' ∧ x ≠ '}' ∧ x ≠ '[' ∧ x ≠ ']' ∧ x ≠ ';' ∧ x ≠ ',' ∧ x ≠ '=' ∧ x ≠ '-' := by
  refine ⟨?_, ?_, ?_, ?_, ?_, ?_, ?_, ?_, ?_, ?_⟩
  · cases hs : isSpaceChar x with
    | false => rfl
    | true =>
      simp only [isSpaceChar, Bool.or_eq_true, beq_iff_eq] at hs
      rcases hs with ((rfl | rfl) | rfl) | rfl <;> revert hx <;> decide
  all_goals (intro h; subst h; revert hx; decide)

/-- an unquoted ID, followed by a character that ends it -/
theorem lex_id {xs : List Char} {d : Char} {rest : List Char} {ts : List Tok} (hx : IdOk xs)
    (hd : isIdChar d = false) (h : Lexes (d :: rest) ts) : Lexes (xs ++ d :: rest) (Tok.id xs :: ts) := by
  obtain ⟨hne, hall, hvalid⟩ := hx
  cases xs with
  | nil => exact absurd rfl hne
  | cons x xs =>
    have hx := hall x (by simp)
    obtain ⟨h1, h2, h3, h4, h5, h6, h7, h8, h9, h10⟩ := idChar_not_special hx
    have hsp := spanId_append (rest := rest) hall hd
    have := lexDot_of_lexes h (f := (xs ++ d :: rest).length) (by simp)
    simp only [List.length_append, List.length_cons] at this
    unfold Lexes at *
    simp only [List.cons_append, List.length_cons, lexDot] at hsp ⊢
    simp only [h1, h2, h3, h4, h5, h6, h7, h8, h9, h10, hx, if_false, if_true, Bool.false_eq_true]
    rw [hsp]
    simp [this, hvalid]

end AJ.Proofs.C20Lex
