/-
  C10 (d), "for critical nested schedulers without window, timeout or forever jobs, every job runs at the same times
  as in the flattened graph" — as ONE statement about two histories.

  `flatten_same_times`: take a complete accepted history of a nested tree `c` and a complete accepted history of a flat
  graph `c'` (one scheduler, atomic jobs only), both without window, timeout or forever job, in which no body raises, no
  orchestration fails (no `orchFail` event), the top-level task is not cancelled from outside (no `extCancel` event) and shutdown handlers take no time.  Let `ρ` rename the atomic jobs of `c` into the jobs of `c'` so that the requirements
  of `ρ j` in `c'` are (as a set) the renamed `flatReq c j` — the requirements of `j` in the flattened graph: the exit
  jobs of what `j` requires, inherited from the enclosing schedulers when `j` requires nothing — and so that the body of
  `ρ j` lasts as long as the body of `j`.  If the two top-level runs begin at the same instant, every atomic job begins
  and ends at the same instants in the two histories.

  It is `FlatB.run_sat` (both histories obey the start-time equations) composed with `FlatEq.twin_times` (the
  equations of the nested tree are those of the flattened graph, and have one solution).
  The tie to the code: `ajdriver flatreq` computes `flatReq` for the configuration of a scenario, and the C10 check
  compares it with the requirements of the twin that `harness/dyn_gen.flatten_variant` builds and runs.
  Core Lean only.
-/
import AJ.Proofs.FlatB
namespace AJ.Proofs.FlatC
open AJ.Run AJ.Flat AJ.Full AJ.Proofs.FlatEq AJ.Proofs.FlatB
set_option linter.unusedVariables false

/-- what is assumed of a history in C10 (d): it is accepted and complete, nothing fails, nothing is limited, and
    shutdown handlers take no time -/
structure PlainRun (c : Cfg) (evs : List EvB) : Prop where
  wf     : c.wf = true
  over   : ∃ st, acceptB c StB.init evs = some st ∧ st.pcB 0 = .over
  plain  : ∀ j, j < c.n → c.window j = 0 ∧ c.timeout j = none ∧ c.forever j = false
  ok     : ∀ j ok, EvB.bodyEnd j ok ∈ evs → ok = true
  nofail : ∀ s, EvB.orchFail s ∉ evs
  /-- nobody cancels the top-level task from outside -/
  noext  : EvB.extCancel ∉ evs
  zero   : ∀ a d b sta, evs = a ++ EvB.tick d :: b → acceptB c StB.init a = some sta →
             ∀ k, k < c.n → sta.hph k ≠ .hactive

theorem PlainRun.sat {c : Cfg} {evs : List EvB} (p : PlainRun c evs) : (timingOf c evs).Sat c (durOf c evs) := by
  obtain ⟨st, h, hover⟩ := p.over
  exact run_sat c p.wf evs st h hover p.plain p.ok p.nofail p.noext p.zero

/-- in such a history every job did begin and end (the default `0` of `timingOf` is never used), and ended after it
    began -/
theorem plain_run_defined (c : Cfg) (evs : List EvB) (p : PlainRun c evs) (j : Nat) (hj : j < c.n) :
    (∃ t, firstNow c (beganP j) StB.init evs = some t) ∧ (∃ t, firstNow c (endedP j) StB.init evs = some t) ∧
    (timingOf c evs).B j ≤ (timingOf c evs).E j := by
  obtain ⟨st, h, hover⟩ := p.over
  have h1 := run_all_begin_end c p.wf evs st h hover p.plain p.ok p.nofail p.noext j hj
  exact ⟨h1.1, h1.2, run_begin_le_end c p.wf evs st h hover p.plain p.ok p.nofail p.noext j hj⟩

/-- C10 (d): a nested tree and its flattened graph give every job the same begin and end instants -/
theorem flatten_same_times (c c' : Cfg) (evs evs' : List EvB) (ρ : Nat → Nat)
    (p : PlainRun c evs) (p' : PlainRun c' evs')
    (hne : noEmptyNested c = true)
    (hflat : ∀ j, 0 < j → j < c'.n → c'.parent j = 0 ∧ c'.isSched j = false)
    (hρ : ∀ j, 0 < j → j < c.n → c.isSched j = false →
      0 < ρ j ∧ ρ j < c'.n ∧ durOf c' evs' (ρ j) = durOf c evs j ∧
      ∀ x, x ∈ c'.req (ρ j) ↔ ∃ r ∈ flatReq c c.n j, x = ρ r)
    (h0 : (timingOf c evs).B 0 = (timingOf c' evs').B 0) :
    ∀ j, 0 < j → j < c.n → c.isSched j = false →
      (timingOf c' evs').B (ρ j) = (timingOf c evs).B j ∧ (timingOf c' evs').E (ρ j) = (timingOf c evs).E j := by
  exact twin_times p.wf hne p'.wf hflat hρ p.sat p'.sat h0

/-- the same for the jobs of one configuration run twice (`c' = c`, `ρ = id` is not an instance of the above since `c` is
    nested; this is `sat_unique`): two plain runs of the same tree with the same body durations that begin at the
    same instant give every job — schedulers included — the same instants: the times do not depend on the order in
    which the event loop serves what happens in one instant -/
theorem plain_runs_same_times (c : Cfg) (evs evs' : List EvB) (p : PlainRun c evs) (p' : PlainRun c evs')
    (hd : ∀ j, durOf c evs' j = durOf c evs j)
    (h0 : (timingOf c evs).B 0 = (timingOf c evs').B 0) :
    ∀ j, j < c.n → (timingOf c evs).B j = (timingOf c evs').B j ∧ (timingOf c evs).E j = (timingOf c evs').E j := by
  have hs' : (timingOf c evs').Sat c (durOf c evs) := by
    have := p'.sat
    have he : durOf c evs' = durOf c evs := funext hd
    rw [he] at this; exact this
  exact sat_unique p.wf p.sat hs' h0

/-! ### the hypotheses can be met: the nested tree of `FlatB.exCfg` and its flattened graph -/

/-! `plainCheck` (defined in `Model/Flat.lean`, the driver executes it) is a decidable form of `PlainRun` -/

theorem plainCheck_spec (c : Cfg) (evs : List EvB) (h : plainCheck c evs = true) : PlainRun c evs := by
  simp only [plainCheck, Bool.and_eq_true, beq_iff_eq, List.all_eq_true, List.mem_range] at h
  obtain ⟨⟨⟨⟨⟨h1, h2⟩, h3⟩, h4⟩, h4'⟩, h5⟩ := h
  refine ⟨h1, ?_, fun j hj => ?_, okCheck_spec evs h4, nfCheck_spec evs h4', nfCheck_spec_ext evs h4', zeroCheck_spec c evs StB.init h5⟩
  · cases hacc : acceptB c StB.init evs with
    | none => rw [hacc] at h2; cases h2
    | some st => rw [hacc] at h2; exact ⟨st, rfl, by simpa using h2⟩
  · have := h3 j hj
    revert this
    cases c.forever j <;> simp_all

/-- the flattened graph of `exCfg`: `1`; `2` (was `3`) requires `1` — inherited from the nested scheduler —; `3` (was
    `4`) requires `2`; `4` (was `5`) requires `3`, the exit job of the nested scheduler -/
def flatCfg : Cfg :=
  { n := 5, parent := fun _ => 0, isSched := fun j => j == 0,
    req := fun j => if j = 2 then [1] else if j = 3 then [2] else if j = 4 then [3] else [],
    critical := fun _ => false, forever := fun _ => false, window := fun _ => 0, timeout := fun _ => none,
    sdTimeout := fun _ => none, topPure := true }

def flatEvs : List EvB :=
  [.runBegin, .grant 1, .tick 2, .bodyEnd 1 true, .waitReturn 0, .react 0,
   .grant 2, .tick 3, .bodyEnd 2 true, .waitReturn 0, .react 0,
   .grant 3, .tick 1, .bodyEnd 3 true, .waitReturn 0, .react 0,
   .grant 4, .tick 4, .bodyEnd 4 true, .waitReturn 0, .react 0,
   .tidyReturn 0 0, .hEnd 1, .hEnd 2, .hEnd 3, .hEnd 4, .sdWaitReturn 0 0]

def exRho (j : Nat) : Nat := if j = 1 then 1 else if j = 3 then 2 else if j = 4 then 3 else if j = 5 then 4 else 0

example : plainCheck exCfg exEvs = true ∧ plainCheck flatCfg flatEvs = true := by decide

example : (List.range 6).map (flatReq exCfg exCfg.n) = [[], [], [1], [1], [3], [4]] := by decide

/-- `flatten_same_times` applies to the pair, and says what it should: `1, 3, 4, 5` begin at `0, 2, 5, 6` in both -/
example : ∀ j, 0 < j → j < exCfg.n → exCfg.isSched j = false →
    (timingOf flatCfg flatEvs).B (exRho j) = (timingOf exCfg exEvs).B j ∧
    (timingOf flatCfg flatEvs).E (exRho j) = (timingOf exCfg exEvs).E j := by
  refine flatten_same_times exCfg flatCfg exEvs flatEvs exRho (plainCheck_spec _ _ (by decide))
    (plainCheck_spec _ _ (by decide)) (by decide) ?_ ?_ (by decide)
  · intro j h0 hn; exact ⟨rfl, by simp [flatCfg]; omega⟩
  · have : ∀ j, j < 6 → 0 < j → exCfg.isSched j = false →
        0 < exRho j ∧ exRho j < flatCfg.n ∧ durOf flatCfg flatEvs (exRho j) = durOf exCfg exEvs j ∧
        ∀ x, x < 6 → (decide (x ∈ flatCfg.req (exRho j)) = decide (∃ r ∈ flatReq exCfg exCfg.n j, x = exRho r)) := by
      decide
    intro j h0 hn hat
    obtain ⟨a, b, d, e⟩ := this j hn h0 hat
    refine ⟨a, b, d, fun x => ?_⟩
    by_cases hx : x < 6
    · have := e x hx
      simpa using this
    · constructor
      · intro hm
        exfalso
        have : ∀ j, j < 6 → ∀ y ∈ flatCfg.req (exRho j), y < 6 := by decide
        exact hx (this j hn x hm)
      · rintro ⟨r, hr, rfl⟩
        exfalso
        have : ∀ r, exRho r < 6 := by intro r; unfold exRho; split <;> (try split) <;> (try split) <;> (try split) <;> omega
        exact hx (this r)

example : (List.range 5).map (timingOf flatCfg flatEvs).B = [0, 0, 2, 5, 6] := by decide

end AJ.Proofs.FlatC
