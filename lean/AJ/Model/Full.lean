/- layer B of the dynamic model (full run): under construction -/
import AJ.Model.Run
namespace AJ.Full
open AJ.Run
def handleB (_c : Cfg) (_evs : String) : String := "ok 0"
end AJ.Full
