/-
  Dynamic model, layer B ("full run"): layer A plus everything `co_run` / `co_shutdown` decide —
  when a run leaves its main loop (critical failure, all regular jobs done, expiry, cancellation from the
  enclosing scheduler — for the top-level run: from outside, `extCancel` —, failure of the orchestration code itself), what it cancels, how it shuts its jobs down, what it returns or raises, what
  `failed_time_out()` / `failed_critical()` then say.

  The state embeds a layer-A state and every event is mapped to layer-A events (`projA`), so every
  accepted history of this layer projects onto an accepted history of layer A (`Proofs/Refine.lean`).

  Transcribes (after the repairs recorded in known_findings.json):
    purescheduler.py  co_run (cancellation / orchestration-failure wrapper, with `try … finally` around its
                      `_tidy_tasks` — see CRASHED-TIDY in `stepB`), _co_run 992-1160, _abort_on_timeout 974-990, _tidy_tasks 698-725,
                      co_shutdown 864-912, _record_beginning / _remaining_timeout
    scheduler.py      Scheduler.co_run 114-136 (verdict conversion)
  Core Lean only.
-/
import AJ.Model.Run
namespace AJ.Full
open AJ.Run

/-- why a run left its main loop; `crashed`: an exception raised by the orchestration code itself inside `_co_run()`
    (a `_feedback()` message of the reaction that cannot be printed), caught by the wrapper `co_run()`
    (`except (asyncio.CancelledError, Exception):`), which tidies, shuts down and re-raises it -/
inductive Exit
  | success | critical | timeout | cancelled | crashed
  deriving DecidableEq, Repr, Inhabited

/-- where `co_run` of a scheduler is suspended -/
inductive PcB
  | notBegun
  | loop                    -- main `asyncio.wait`
  | tidy (x : Exit)         -- `_tidy_tasks`: waiting for the tasks it cancelled
  | shut (x : Exit)         -- `co_shutdown`: bounded wait for the shutdown handlers
  | shutTidy (x : Exit)     -- `co_shutdown`: waiting for the handlers it cancelled
  | over
  deriving DecidableEq, Repr, Inhabited

/-- who called `co_shutdown` of a scheduler: its own `co_run` (inline), or the shutdown broadcast of
    the enclosing scheduler (the task running it is the scheduler's "handler": a relay) -/
inductive Who
  | inline | relay
  deriving DecidableEq, Repr, Inhabited

/-- state of a scheduler's own shutdown broadcast -/
inductive Bc
  | bnone
  | bwait (w : Who)         -- `asyncio.wait(tasks, timeout=shutdown_timeout)`
  | btidy (w : Who)         -- `_tidy_tasks(pending)` after expiry or cancellation
  | bover
  deriving DecidableEq, Repr, Inhabited

/-- state of the task running `j.co_shutdown()` -/
inductive Hph
  | hnone | hactive | hdone | hcancelled
  deriving DecidableEq, Repr, Inhabited

structure StB where
  a         : StA
  pcB       : Nat → PcB
  /-- `nb_jobs_done` -/
  nbDone    : Nat → Nat
  /-- `_expiration` while the run is in its main loop -/
  deadline  : Nat → Option Nat
  /-- a `CancelledError` was delivered into `co_run` (at most once per run) -/
  carrived  : Nat → Bool
  /-- `_did_shutdown` -/
  didSd     : Nat → Bool
  bc        : Nat → Bc
  /-- `_expiration` during the bounded wait of `co_shutdown` -/
  hdeadline : Nat → Option Nat
  hph       : Nat → Hph
  /-- `cancel()` was called on the handler task and not acknowledged -/
  hcreq     : Nat → Bool
  /-- a `CancelledError` was delivered into the relayed `co_shutdown` -/
  hcarrived : Nat → Bool
  /-- number of times `co_shutdown()` was called on the job (ghost) -/
  hcalls    : Nat → Nat
  /-- `_failed_timeout is not False` -/
  failT     : Nat → Bool
  /-- `_failed_critical` -/
  failC     : Nat → Bool
  /-- value returned by the last `co_shutdown()` of the scheduler: `some true/false`, or `none` -/
  sdValue   : Nat → Option Bool
  /-- instant at which `co_run` of the scheduler began (ghost) -/
  tbegin    : Nat → Nat
  /-- instant at which the scheduler's shutdown broadcast began (ghost) -/
  tsd       : Nat → Nat

def StB.init : StB :=
  { a := StA.init, pcB := fun _ => .notBegun, nbDone := fun _ => 0, deadline := fun _ => none,
    carrived := fun _ => false, didSd := fun _ => false, bc := fun _ => .bnone, hdeadline := fun _ => none,
    hph := fun _ => .hnone, hcreq := fun _ => false, hcarrived := fun _ => false, hcalls := fun _ => 0,
    failT := fun _ => false, failC := fun _ => false, sdValue := fun _ => none,
    tbegin := fun _ => 0, tsd := fun _ => 0 }

inductive EvB
  | runBegin
  | grant (j : Nat)
  | bodyEnd (j : Nat) (ok : Bool)
  | cancelAck (j : Nat)
  /-- the `CancelledError` requested by the enclosing scheduler — for the top-level scheduler `0`: from outside,
      `extCancel` — is delivered into `co_run` of `s` -/
  | cancelArrive (s : Nat)
  /-- the main wait of `s` returns finished jobs -/
  | waitReturn (s : Nat)
  /-- `co_run` of `s` reacts to them: critical failure? all regular jobs done? deadline reached? else start
      successors -/
  | react (s : Nat)
  /-- instead of reacting, the orchestration code of `s` itself raises (one of the `_feedback()` calls of the
      reaction fails): `_co_run()` is left with that exception, the wrapper `co_run()` cleans up and re-raises it -/
  | orchFail (s : Nat)
  /-- the main wait of `s` returns nothing: its timeout elapsed -/
  | timeoutFire (s : Nat)
  /-- `_tidy_tasks` of `s` returns: every task it cancelled has finished; `pick` names the critical job
      whose exception a critical scheduler re-raises (Python takes the first one in set order) -/
  | tidyReturn (s : Nat) (pick : Nat)
  /-- first step of the task running `co_shutdown()` of nested scheduler `j` (relay) -/
  | hStep (j : Nat)
  /-- the shutdown handler of atomic job `j` ends -/
  | hEnd (j : Nat)
  /-- the cancelled shutdown handler of atomic job `j` finishes -/
  | hCancelAck (j : Nat)
  /-- a `CancelledError` is delivered into the relayed `co_shutdown()` of `s` -/
  | hCancelArrive (s : Nat)
  /-- the bounded wait of `co_shutdown` of `s` returns: all handlers done -/
  | sdWaitReturn (s : Nat) (pick : Nat)
  /-- … returns because `shutdown_timeout` elapsed -/
  | sdTimeoutFire (s : Nat)
  /-- `_tidy_tasks` of `co_shutdown` returns: every cancelled handler has finished -/
  | sdTidyReturn (s : Nat) (pick : Nat)
  | tick (d : Nat)
  /-- someone outside the tree calls `cancel()` on the task running `co_run()` of the top-level scheduler
      (`task.cancel()`, an enclosing `asyncio.wait_for` expiring): layer-A step `extCancel`, nothing else changes;
      the `CancelledError` is delivered by `cancelArrive 0` -/
  | extCancel
  deriving Repr, Inhabited

def liveChildren (c : Cfg) (st : StA) (s : Nat) : List Nat :=
  (c.children s).filter fun k => (st.ph k).live

def activeHandlers (c : Cfg) (st : StB) (s : Nat) : List Nat :=
  (c.children s).filter fun k => st.hph k == .hactive

def nbFinite (c : Cfg) (s : Nat) : Nat := ((c.children s).filter fun k => !c.forever k).length

/-- a critical job of `D` raised (1020-1040) -/
def critIn (c : Cfg) (st : StA) (D : List Nat) : Bool :=
  D.any fun d => c.critical d && (match st.ph d with | .done (.exc _) => true | _ => false)

/-- a deadline that has been reached -/
def expired (dl : Option Nat) (now : Nat) : Bool :=
  match dl with | some d => d ≤ now | none => false

/-- the clock may advance by `d` without passing the deadline -/
def within (dl : Option Nat) (now d : Nat) : Bool :=
  match dl with | some x => now + d ≤ x | none => true

def Bc.isWait : Bc → Bool | .bwait _ => true | _ => false
def Bc.isTidy : Bc → Bool | .btidy _ => true | _ => false
def Bc.who : Bc → Who | .bwait w => w | .btidy w => w | _ => .inline
def PcB.isTidy : PcB → Bool | .tidy _ => true | _ => false

/-- a cancellation was requested on the task running `co_run` of `s` and has not been delivered: whatever makes
    that task resume next, it resumes with `CancelledError` -/
def cancelPending (st : StB) (s : Nat) : Bool := st.a.creq s && !st.carrived s

/-- same for the task running a relayed `co_shutdown()` of `s` -/
def hcancelPending (st : StB) (s : Nat) : Bool := st.hcreq s && !st.hcarrived s

/-- the relay of `s` is inside its broadcast -/
def relayActive (st : StB) (s : Nat) : Bool := st.bc s == .bwait .relay || st.bc s == .btidy .relay

/-- is `s` a nestable `Scheduler` (converts `False` into an exception when critical)? -/
def nestable (c : Cfg) (s : Nat) : Bool := s != 0 || !c.topPure

/-- `co_shutdown` body once the guard `_did_shutdown` is passed: one handler task per job, deadline armed -/
def broadcast (c : Cfg) (st : StB) (s : Nat) (w : Who) : StB :=
  { st with
    didSd := setAt st.didSd s true
    hph := fun k => if k ∈ c.children s then .hactive else st.hph k
    hcreq := fun k => if k ∈ c.children s then false else st.hcreq k
    hcalls := fun k => if k ∈ c.children s then st.hcalls k + 1 else st.hcalls k
    hdeadline := setAt st.hdeadline s ((c.sdTimeout s).map (st.a.now + ·))
    tsd := setAt st.tsd s st.a.now
    bc := setAt st.bc s (.bwait w) }

/-- the value / exception `co_run` of `s` ends with, after exit `x` (purescheduler 1013-1059 + scheduler.py 114-136);
    `none` = ends cancelled -/
def verdict (c : Cfg) (st : StB) (s : Nat) (x : Exit) (pick : Nat) : Option (Option Res) :=
  match x with
  | .cancelled => some none
  -- the wrapper `co_run()` re-raises (`raise`) the exception of the orchestration code: `PureScheduler.co_run` never
  -- returns, so the conversion of `Scheduler.co_run` (scheduler.py 115-136) is not reached: critical or not,
  -- nestable or not, the run raises that very object
  | .crashed => some (some (.exc (.orch s)))
  | .success => some (some (.retBool true))
  | .timeout =>
    if nestable c s && c.critical s then some (some (.exc (.tmo s))) else some (some (.retBool false))
  | .critical =>
    if nestable c s && c.critical s then
      if pick ∈ c.children s ∧ c.critical pick = true then
        match st.a.ph pick with
        | .done (.exc e) => some (some (.exc e))
        | _ => none
      else none
    else some (some (.retBool false))

/-- `co_run` of `s` ends (its `co_shutdown` has returned) -/
def finishRun (c : Cfg) (st : StB) (s : Nat) (x : Exit) (pick : Nat) : Option StB :=
  match verdict c st s x pick with
  | none => none
  | some r =>
    match stepA c st.a (.finish s r) with
    | none => none
    | some a' =>
      -- (`_failed_timeout` and `_failed_critical` were recorded when the loop was left: `exitLoop`)
      some { st with a := a', pcB := setAt st.pcB s .over }

/-- the run of `s` leaves its main loop for reason `x`: `_tidy_tasks(pending)` (for `cancelled` and `crashed`: the
    `_tidy_tasks(unfinished tasks)` of the wrapper `co_run()`, the same set) cancels what is left;
    on expiry (`_abort_on_timeout`) `_failed_timeout`, on a critical failure `_failed_critical`, is recorded first,
    before the clean-up -/
def exitLoop (_c : Cfg) (st : StB) (s : Nat) (x : Exit) (a' : StA) : StB :=
  { st with a := a', pcB := setAt st.pcB s (.tidy x), deadline := setAt st.deadline s none,
            failT := setAt st.failT s (st.failT s || x == .timeout),
            failC := setAt st.failC s (st.failC s || x == .critical) }

/-- layer-B bookkeeping when `co_run` of `s` begins -/
def beginB (c : Cfg) (st : StB) (s : Nat) (a' : StA) : StB :=
  if (c.children s).isEmpty then { st with a := a', pcB := setAt st.pcB s .over, tbegin := setAt st.tbegin s st.a.now }
  else { st with a := a', pcB := setAt st.pcB s .loop, nbDone := setAt st.nbDone s 0,
                 tbegin := setAt st.tbegin s st.a.now,
                 deadline := setAt st.deadline s ((c.timeout s).map (st.a.now + ·)) }

/-- nothing that must happen "now" is pending (assumption A2: the clock does not advance meanwhile) -/
def quietB (c : Cfg) (st : StB) : Bool :=
  (List.range c.n).all fun j =>
    -- a queued job that could take a slot, or whose cancellation is pending
    !(0 < j && st.a.ph j == .queued && (st.a.creq j || slotFree c st.a (c.parent j))) &&
    -- a run (nested, or the top-level one cancelled from outside: no `0 < j`) whose cancellation has not been delivered
    !(c.isSched j && st.a.ph j == .running && st.a.creq j && !st.carrived j) &&
    -- a main wait that could return, a reaction that is pending
    !(c.isSched j && st.pcB j == .loop && (!(doneSet c st.a j).isEmpty || (st.a.rx j).isSome)) &&
    -- a tidy wait that could return
    !(c.isSched j && (st.pcB j).isTidy && (liveChildren c st.a j).isEmpty) &&
    -- a relay that has not had its first step, or whose cancellation has not been delivered
    !(c.isSched j && st.hph j == .hactive && !relayActive st j) &&
    !(c.isSched j && st.hph j == .hactive && st.hcreq j && !st.hcarrived j) &&
    -- a shutdown wait that could return
    !(c.isSched j && ((st.bc j).isWait || (st.bc j).isTidy) && (activeHandlers c st j).isEmpty)

def stepB (c : Cfg) (st : StB) : EvB → Option StB
  | .runBegin =>
    match stepA c st.a .runBegin with
    | none => none
    | some a' => some (beginB c st 0 a')
  | .grant j =>
    match stepA c st.a (.grant j) with
    | none => none
    | some a' => if c.isSched j then some (beginB c st j a') else some { st with a := a' }
  | .bodyEnd j ok =>
    match stepA c st.a (.bodyEnd j ok) with
    | none => none
    | some a' => some { st with a := a' }
  | .cancelAck j =>
    match stepA c st.a (.cancelAck j) with
    | none => none
    | some a' => some { st with a := a' }
  | .cancelArrive s =>
    -- (no `0 < s`: the wrapper `co_run()` is the same code for the top-level scheduler, whose task is cancelled from
    --  outside — `extCancel` — instead of by an enclosing scheduler)
    if s < c.n ∧ c.isSched s = true ∧ st.a.ph s = .running ∧ st.a.creq s = true ∧ st.carrived s = false then
      let st1 := { st with carrived := setAt st.carrived s true }
      match st.pcB s with
      | .loop =>
        -- raised out of the main wait: co_run's handler cancels the unfinished tasks and waits for them
        match stepA c st.a (.leave s (liveChildren c st.a s)) with
        | none => none
        | some a' => some (exitLoop c st1 s .cancelled a')
      -- (`.tidy .cancelled` / `.shut .cancelled` / `.shutTidy .cancelled` reached from the loop have `carrived`: the
      --  guard above excludes them; the exits below are `success`, `critical`, `timeout` — clean-up inside `_co_run()`,
      --  followed, once interrupted, by the clean-up of the wrapper — and `crashed` — clean-up inside the wrapper's
      --  `except` clause already, followed by nothing)
      | .tidy _ =>
        -- `_tidy_tasks` swallows the `CancelledError`, keeps waiting, and re-raises it once every task is finished.
        -- success/critical/timeout: it leaves `_co_run()`; the wrapper has nothing left to tidy, calls `co_shutdown()`
        -- and re-raises: the run goes on as one cancelled in its loop.
        -- crashed (CRASHED-TIDY): this `_tidy_tasks` is the wrapper's own, inside its `except` clause, and nothing
        -- follows the wrapper.  Transcribed is the wrapper AS REPAIRED:
        --     except (asyncio.CancelledError, Exception):
        --         try:
        --             await self._tidy_tasks([unfinished tasks])
        --         finally:
        --             await self.co_shutdown()
        --         raise
        -- the `CancelledError` re-raised by `_tidy_tasks` once every task is finished is still followed by
        -- `co_shutdown()` (the `finally`), after which it propagates: same transition as for the other exits — the tidy
        -- is completed, the shutdown broadcast takes place, the run ends cancelled.  (Before that repair the two
        -- `await`s were in sequence and the `CancelledError` left the `except` clause before `co_shutdown()`: the run
        -- ended cancelled without its shutdown broadcast, against C13 — `stepBAsIs` and the witness at the end of
        -- `Proofs/ExitB.lean`.)
        some { st1 with pcB := setAt st.pcB s (.tidy .cancelled) }
      | .shut _ =>
        -- raised out of co_shutdown's wait: the handlers are cancelled and awaited (`except CancelledError` of
        -- `co_shutdown()`), then the `CancelledError` is re-raised.  success/critical/timeout: out of `_co_run()`, the
        -- wrapper finds nothing to tidy and `co_shutdown()` returns at once (`_did_shutdown`).  crashed (as for a run
        -- cancelled in its loop, were a second cancellation possible): it leaves the wrapper's `except` clause
        -- directly, replacing the orchestration's exception.  Either way the run ends cancelled once the handlers
        -- are finished: same transition.
        some { st1 with pcB := setAt st.pcB s (.shutTidy .cancelled), bc := setAt st.bc s (.btidy .inline),
                        hcreq := fun k => st.hcreq k || decide (k ∈ activeHandlers c st s) }
      | .shutTidy _ =>
        -- `_tidy_tasks(pending)` of `co_shutdown()` swallows it, keeps waiting for the handlers it cancelled, then
        -- re-raises: out of `co_shutdown()`, and from there as in the case above — for `crashed` too the run ends
        -- cancelled (the `CancelledError` replaces the exception the wrapper was about to re-raise)
        some { st1 with pcB := setAt st.pcB s (.shutTidy .cancelled) }
      | _ => none
    else none
  | .waitReturn s =>
    if st.pcB s = .loop ∧ cancelPending st s = false then
      match stepA c st.a (.waitReturn s) with
      | none => none
      | some a' => some { st with a := a' }
    else none
  | .react s =>
    match st.pcB s, st.a.rx s with
    | .loop, some D =>
      if cancelPending st s then none else
      if critIn c st.a D then
        match stepA c st.a (.react s true (liveChildren c st.a s)) with
        | none => none
        | some a' => some (exitLoop c st s .critical a')
      else
        let nb := st.nbDone s + (D.filter fun d => !c.forever d).length
        if nb = nbFinite c s then
          match stepA c st.a (.react s true (liveChildren c st.a s)) with
          | none => none
          | some a' => some (exitLoop c { st with nbDone := setAt st.nbDone s nb } s .success a')
        else if expired (st.deadline s) st.a.now then
          -- the deadline is behind us although `wait()` reported completions: `_abort_on_timeout`
          match stepA c st.a (.react s true (liveChildren c st.a s)) with
          | none => none
          | some a' => some (exitLoop c { st with nbDone := setAt st.nbDone s nb } s .timeout a')
        else
          match stepA c st.a (.react s false []) with
          | none => none
          | some a' => some { st with a := a', nbDone := setAt st.nbDone s nb }
    | _, _ => none
  | .orchFail s =>
    -- enabled exactly where `react s` is; nothing is counted (`nbDone`), no successor is started, `_failed_timeout` /
    -- `_failed_critical` keep the `False` they were reset to (`exitLoop` only sets them for `timeout` / `critical`);
    -- the wrapper's `_tidy_tasks` calls `cancel()` on every unfinished task
    match st.pcB s, st.a.rx s with
    | .loop, some _ =>
      if cancelPending st s then none else
      match stepA c st.a (.react s true (liveChildren c st.a s)) with
      | none => none
      | some a' => some (exitLoop c st s .crashed a')
    | _, _ => none
  | .timeoutFire s =>
    if st.pcB s = .loop ∧ cancelPending st s = false ∧ st.a.rx s = none ∧ doneSet c st.a s = [] ∧
       expired (st.deadline s) st.a.now = true then
      match stepA c st.a (.leave s (liveChildren c st.a s)) with
      | none => none
      | some a' => some (exitLoop c st s .timeout a')
    else none
  | .tidyReturn s pick =>
    match st.pcB s with
    | .tidy x =>
      if liveChildren c st.a s = [] ∧ cancelPending st s = false then
        if st.didSd s then
          -- `co_shutdown()` returns None at once
          finishRun c { st with sdValue := setAt st.sdValue s none } s x pick
        else
          some { (broadcast c st s .inline) with pcB := setAt st.pcB s (.shut x) }
      else none
    | _ => none
  | .hStep j =>
    if 0 < j ∧ j < c.n ∧ c.isSched j = true ∧ st.hph j = .hactive ∧ relayActive st j = false then
      if st.didSd j then
        -- `if self._did_shutdown: return` (None)
        some { st with hph := setAt st.hph j .hdone, sdValue := setAt st.sdValue j none }
      else
        -- (an empty scheduler has no handler to wait for: its `sdWaitReturn` is enabled at once)
        some (broadcast c st j .relay)
    else none
  | .hEnd j =>
    if 0 < j ∧ j < c.n ∧ c.isSched j = false ∧ st.hph j = .hactive ∧ st.hcreq j = false then
      some { st with hph := setAt st.hph j .hdone }
    else none
  | .hCancelAck j =>
    if 0 < j ∧ j < c.n ∧ c.isSched j = false ∧ st.hph j = .hactive ∧ st.hcreq j = true then
      some { st with hph := setAt st.hph j .hcancelled, hcreq := setAt st.hcreq j false }
    else none
  | .hCancelArrive s =>
    if 0 < s ∧ s < c.n ∧ c.isSched s = true ∧ st.hph s = .hactive ∧ st.hcreq s = true ∧ st.hcarrived s = false then
      let st1 := { st with hcarrived := setAt st.hcarrived s true }
      match st.bc s with
      | .bwait .relay =>
        some { st1 with bc := setAt st.bc s (.btidy .relay),
                        hcreq := fun k => st1.hcreq k || decide (k ∈ activeHandlers c st s) }
      | .btidy .relay => some st1
      | _ => none
    else none
  | .sdWaitReturn s pick =>
    if activeHandlers c st s = [] ∧ cancelPending st s = false ∧ hcancelPending st s = false then
      match st.bc s with
      | .bwait .inline =>
        match st.pcB s with
        | .shut x => finishRun c { st with bc := setAt st.bc s .bover, sdValue := setAt st.sdValue s (some true) } s x pick
        | _ => none
      | .bwait .relay =>
        some { st with bc := setAt st.bc s .bover, sdValue := setAt st.sdValue s (some true), hph := setAt st.hph s .hdone }
      | _ => none
    else none
  | .sdTimeoutFire s =>
    if (st.bc s).isWait = true ∧ activeHandlers c st s ≠ [] ∧ expired (st.hdeadline s) st.a.now = true ∧
       cancelPending st s = false ∧ hcancelPending st s = false then
      let w := (st.bc s).who
      some { st with bc := setAt st.bc s (.btidy w),
                     hcreq := fun k => st.hcreq k || decide (k ∈ activeHandlers c st s),
                     pcB := match w, st.pcB s with
                            | .inline, .shut x => setAt st.pcB s (.shutTidy x)
                            | _, _ => st.pcB }
    else none
  | .sdTidyReturn s pick =>
    if activeHandlers c st s = [] ∧ cancelPending st s = false ∧ hcancelPending st s = false then
      match st.bc s with
      | .btidy .inline =>
        match st.pcB s with
        | .shutTidy x => finishRun c { st with bc := setAt st.bc s .bover, sdValue := setAt st.sdValue s (some false) } s x pick
        | _ => none
      | .btidy .relay =>
        some { st with bc := setAt st.bc s .bover, sdValue := setAt st.sdValue s (some false),
                       hph := setAt st.hph s (if st.hcarrived s then .hcancelled else .hdone),
                       hcreq := setAt st.hcreq s false }
      | _ => none
    else none
  | .tick d =>
    if quietB c st = true ∧
       (∀ s ∈ List.range c.n, st.pcB s = .loop → within (st.deadline s) st.a.now d = true) ∧
       (∀ s ∈ List.range c.n, (st.bc s).isWait = true → within (st.hdeadline s) st.a.now d = true) then
      match stepA c st.a (.tick d) with
      | none => none
      | some a' => some { st with a := a' }
    else none
  | .extCancel =>
    match stepA c st.a .extCancel with
    | none => none
    | some a' => some { st with a := a' }

def acceptB (c : Cfg) : StB → List EvB → Option StB
  | st, [] => some st
  | st, e :: es => match stepB c st e with
    | some st' => acceptB c st' es
    | none => none

end AJ.Full
