/-
  Layer A with guards removed, to make precise which assumptions each layer-A theorem needs:

  * `stepAL` is `stepA` whose `tick` is unguarded (the urgency assumption A2 — the clock does not advance while a
    queued job could take a free slot, a main wait could return or a reaction is pending — is NOT assumed);
  * the window limit is removed by running the model on `c.noWindow` (every `jobs_window` = 0 = no limit).

  Theorems proved for `acceptAL c.noWindow` hold whatever the window discipline and the timing of the implementation
  are: a difference between the implementation and the model in the components `slot-limit`, `eager`, `urgent` cannot
  invalidate them.  Core Lean only.
-/
import AJ.Model.Run
import AJ.Model.Hist
namespace AJ.Run

/-- the same configuration without any window -/
def Cfg.noWindow (c : Cfg) : Cfg := { c with window := fun _ => 0 }

/-- `stepA` without the urgency guard of `tick` -/
def stepAL (c : Cfg) (st : StA) : EvA → Option StA
  | .tick d => if 0 < d then some { st with now := st.now + d } else none
  | e => stepA c st e

def acceptAL (c : Cfg) : StA → List EvA → Option StA
  | st, [] => some st
  | st, e :: es => match stepAL c st e with
    | some st' => acceptAL c st' es
    | none => none

end AJ.Run
