/-
  Static model, part 4: DOT export (purescheduler.py:577-629, 1278-1377; job.py:259-299;
  dotstyle.py; scheduler.py `dot_cluster_name`).  Core Lean only.

  `dotItems` is the structure of the output (nodes, clusters, edges, in emission order, naming
  jobs by their model ids); `render` turns it into the very string `dot_format()` returns.
  The printed width of ids (computed with `math.log` in Python) is a parameter `w`.
-/
import AJ.Model.Graph
namespace AJ

inductive Item
  /-- an atomic job: `<id> [<style>]` -/
  | node (j : Nat)
  /-- `subgraph cluster_<id>{ compound=true; graph [<style>];` -/
  | openCluster (s : Nat)
  /-- `}` -/
  | close
  /-- `<src> -> <dst> [lhead=cluster_<h> ltail=cluster_<t>];` — `src`, `dst` are atomic jobs, or empty nested
      schedulers (then named by `ltail` / `lhead`) standing for their `holder` node -/
  | edge (src dst : Nat) (lhead ltail : Option Nat)
  /-- `<id> [shape="point",style="invis"]`: the invisible node of the empty nested scheduler `s`, named after the
      scheduler itself, that the edges from / to its cluster are attached to -/
  | holder (s : Nat)
  deriving DecidableEq, Repr, Inhabited

/-- `_middle_index` -/
def middleIndex (last : Nat) : Nat := (last - 1) / 2

/-- `_middle_entry_job`: a scheduler without jobs stands for itself (checked first) -/
def middleEntry (t : T) : Nat → Nat → Except Err Nat
  | 0, _ => .error .fuel
  | fuel + 1, s =>
    if (t.mem s).isEmpty then .ok s else
    let entries := entryJobs t s
    match entries[middleIndex entries.length]? with
    | none => .error .valueError                      -- "no entry found"
    | some cand => if t.isSched cand then middleEntry t fuel cand else .ok cand

/-- `_middle_exit_job` (called without keywords at every level: forever jobs are left out,
    unless that leaves nothing — the "second chance"); a scheduler without jobs stands for itself (checked first) -/
def middleExit (t : T) : Nat → Nat → Except Err Nat
  | 0, _ => .error .fuel
  | fuel + 1, s =>
    if (t.mem s).isEmpty then .ok s else
    let exits := exitJobs t s true
    let exits := if exits.isEmpty then exitJobs t s false else exits
    match exits[middleIndex exits.length]? with
    | none => .error .valueError                      -- "no exit found"
    | some cand => if t.isSched cand then middleExit t fuel cand else .ok cand

/-- the edges emitted for job `j` (atomic, or scheduler with entry job `dst`), one per
    requirement, in the iteration order of `j.required` -/
def edgesOf (t : T) (fuel : Nat) (j : Nat) : Except Err (List Item) :=
  (t.req j).foldlM (init := ([] : List Item)) fun acc r =>
    if t.isSched j then
      if t.isSched r then
        match middleExit t fuel r with
        | .error e => .error e
        | .ok src =>
          match middleEntry t fuel j with
          | .error e => .error e
          | .ok dst => .ok (acc ++ [Item.edge src dst (some j) (some r)])
      else
        match middleEntry t fuel j with
        | .error e => .error e
        | .ok dst => .ok (acc ++ [Item.edge r dst (some j) none])
    else
      if t.isSched r then
        match middleExit t fuel r with
        | .error e => .error e
        | .ok src => .ok (acc ++ [Item.edge src j none (some r)])
      else .ok (acc ++ [Item.edge r j none none])

/-- what `_dot_body` of the NESTED scheduler `j` emits right after its `graph [...];` line: the invisible node
    named after `j` itself when `j` has no jobs and an edge is attached to it (`not self.jobs and self._dot_anchor`);
    `anch` lists the schedulers whose `_dot_anchor` is set -/
def holderOf (t : T) (anch : List Nat) (j : Nat) : List Item :=
  if (t.mem j).isEmpty && anch.contains j then [Item.holder j] else []

/-- one run of `_dot_body`, without its first three lines and its last one (and, for a nested scheduler, without the
    `holderOf` line, which is emitted with the `openCluster` by the enclosing level), the `_dot_anchor` flags being
    those of `anch`; `F` is the fuel handed to `_middle_entry_job` / `_middle_exit_job`, the other one bounds the
    nesting depth -/
def dotBodyWith (t : T) (anch : List Nat) (F : Nat) : Nat → Nat → Except Err (List Item)
  | 0, _ => .error .fuel
  | fuel + 1, s =>
    match topo t s with
    | .error e => .error e
    | .ok l =>
      l.foldlM (init := ([] : List Item)) fun acc j =>
        if t.isSched j then
          match dotBodyWith t anch F fuel j with
          | .error e => .error e
          | .ok sub =>
            match edgesOf t F j with
            | .error e => .error e
            | .ok es => .ok (acc ++ Item.openCluster j :: holderOf t anch j ++ sub ++ Item.close :: es)
        else
          match edgesOf t F j with
          | .error e => .error e
          | .ok es => .ok (acc ++ Item.node j :: es)

/-- the schedulers on which `_middle_entry_job` / `_middle_exit_job` returned `self` during a run of `_dot_body`
    (those calls set `_dot_anchor`): every result of such a call is the tail or the head of an edge, so these are
    the empty schedulers among the edge endpoints -/
def anchorsOf (t : T) (items : List Item) : List Nat :=
  items.flatMap fun i =>
    match i with
    | .edge src dst _ _ => [src, dst].filter fun x => t.isSched x && (t.mem x).isEmpty
    | _ => []

/-- the two runs of `_dot_body` that `dot_format()` performs: the first one (all `_dot_anchor` reset before, text
    discarded: its edges do not depend on the flags) finds out which empty schedulers have edges attached,
    the second one gives those an invisible node -/
def dotBody (t : T) (F fuel s : Nat) : Except Err (List Item) :=
  match dotBodyWith t [] F fuel s with
  | .error e => .error e
  | .ok i0 => dotBodyWith t (anchorsOf t i0) F fuel s

/-- the items of `dot_format()` called on scheduler `s` (ids are assigned first, which raises
    on a cyclic tree) -/
def dotItems (t : T) (fuel s : Nat) : Except Err (List Item) :=
  match assignIds t fuel s 1 with
  | .error e => .error e
  | .ok _ => dotBody t fuel fuel s

/-! ### rendering -/

/-- `DotStyle.protect` on characters: every `"` becomes `\"` -/
def protectChars : List Char → List Char
  | [] => []
  | c :: cs => if c = '"' then '\\' :: '"' :: protectChars cs else c :: protectChars cs

/-- `DotStyle.protect` -/
def protect (s : String) : String := String.ofList ('"' :: protectChars s.toList ++ ['"'])

/-- DOT's rule for a double-quoted string, starting right after the opening quote:
    the only escape is `\"`; returns the contents and what follows the closing quote -/
def unquoteChars : List Char → Option (List Char × List Char)
  | [] => none
  | '"' :: rest => some ([], rest)
  | '\\' :: '"' :: rest => (unquoteChars rest).map fun p => ('"' :: p.1, p.2)
  | c :: rest => (unquoteChars rest).map fun p => (c :: p.1, p.2)

/-- `"{:0wd}".format(k)` -/
def padId (w k : Nat) : String :=
  let s := toString k
  String.ofList (List.replicate (w - s.length) '0') ++ s

/-- what the renderer needs besides the items -/
structure RenderCtx where
  t     : T
  /-- the number `_set_sched_ids` gave to each job -/
  idOf  : Nat → Nat
  /-- printed width of ids -/
  w     : Nat
  /-- `_get_text_label()` -/
  label : Nat → String

def RenderCtx.rid (c : RenderCtx) (j : Nat) : String := padId c.w (c.idOf j)

/-- the `style` list of `job.dot_style()` -/
def styleList (c : RenderCtx) (j : Nat) : List String :=
  (if c.t.isSched j then [] else ["rounded"]) ++ (if c.t.forever j then ["dashed"] else [])

/-- the (key, raw value) pairs of `job.dot_style()`, in dictionary order -/
def styleAttrs (c : RenderCtx) (j : Nat) : List (String × String) :=
  [("style", ",".intercalate (styleList c j)),
   ("label", c.rid j ++ ": " ++ c.label j),
   ("shape", "box")] ++
  (if c.t.critical j then [("color", "red"), ("penwidth", "2")] else [("color", "black"), ("penwidth", "0.5")])

/-- `repr(DotStyle)` -/
def renderAttrs (as : List (String × String)) : String :=
  ",".intercalate (as.map fun kv => kv.1 ++ "=" ++ protect kv.2)

/-- the attributes of the invisible node of an empty nested scheduler -/
def holderAttrs : List (String × String) := [("shape", "point"), ("style", "invis")]

def clusterName (c : RenderCtx) (s : Nat) : String := "cluster_" ++ c.rid s

def renderItem (c : RenderCtx) : Item → String
  | .node j => c.rid j ++ " [" ++ renderAttrs (styleAttrs c j) ++ "]\n"
  | .openCluster s =>
    "subgraph " ++ clusterName c s ++ "{\ncompound=true;\ngraph [" ++ renderAttrs (styleAttrs c s) ++ "];\n"
  | .close => "}\n"
  | .edge a b none none => c.rid a ++ " -> " ++ c.rid b ++ ";\n"
  | .edge a b none (some tl) => c.rid a ++ " -> " ++ c.rid b ++ " [ltail=" ++ clusterName c tl ++ "];\n"
  | .edge a b (some hd) none => c.rid a ++ " -> " ++ c.rid b ++ " [lhead=" ++ clusterName c hd ++ "];\n"
  | .edge a b (some hd) (some tl) =>
    c.rid a ++ " -> " ++ c.rid b ++ " [lhead=" ++ clusterName c hd ++ " ltail=" ++ clusterName c tl ++ "];\n"
  | .holder s => c.rid s ++ " [" ++ renderAttrs holderAttrs ++ "]\n"

/-- the string returned by `dot_format()` -/
def render (c : RenderCtx) (items : List Item) : String :=
  "digraph asynciojobs{\ncompound=true;\ngraph [];\n" ++ String.join (items.map (renderItem c)) ++ "}\n"

end AJ
