/-
  `PureScheduler._stats()` / `stats()` (purescheduler.py 1252-1277), transcribed: the four numbers of the line
  "2D + 3R + 4I = 9" — done jobs; jobs that got their window slot and are not done ("running"); jobs that never got
  a slot ("idle": never scheduled, or still waiting for a slot, or cancelled before their body began); all jobs —
  as functions of the inspection API of layer A.
-/
import AJ.Model.Run
namespace AJ.Run

/-- `_stats()` of scheduler `s`: `(nb_done, nb_ongoing, nb_idle, nb_total)` -/
def statsOf (c : Cfg) (st : StA) (s : Nat) : Nat × Nat × Nat × Nat :=
  let jobs := c.children s
  let done := jobs.filter (isDone st)
  let running := jobs.filter (isRunning st)
  let ongoing := running.filter (fun j => !isDone st j)
  let idle := jobs.filter (fun j => !isRunning st j)
  (done.length, ongoing.length, idle.length, jobs.length)

end AJ.Run
