/-
  The requirement relation of the *flattened* graph of a tree of schedulers (C10 (d)): what
  `harness/dyn_gen.flatten_variant` builds when it replaces every nested scheduler by its jobs — the entry jobs of a
  nested scheduler inherit its requirements, whoever required it requires its exit jobs instead.
  `ajdriver flatreq` prints `flatReq` for a configuration; the C10 check compares it with the twin the harness runs.
  The theorems about it are in `Proofs/FlatEq.lean`, `Proofs/FlatB.lean`, `Proofs/FlatC.lean`.
  Core Lean only.
-/
import AJ.Model.Run
namespace AJ.Flat
open AJ.Run

/-- every scheduler but possibly the top one owns a job (the class `flatten_variant` accepts) -/
def noEmptyNested (c : Cfg) : Bool :=
  (List.range c.n).all fun s => s == 0 || !c.isSched s || !(c.children s).isEmpty

/-- the jobs of `s` that no job of `s` requires -/
def lastJobs (c : Cfg) (s : Nat) : List Nat :=
  (c.children s).filter fun k => !(c.children s).any fun k' => (c.req k').contains k

/-- exit jobs of the flattened `r`: `r` itself when atomic, else the exit jobs of its jobs that no sibling requires;
    `fuel` bounds the depth (`c.n` is enough) -/
def exitsOf (c : Cfg) : Nat → Nat → List Nat
  | 0, _ => []
  | fuel + 1, r =>
    if c.isSched r then (lastJobs c r).flatMap (exitsOf c fuel) else [r]

/-- requirements of atomic job `j` in the flattened graph: the exit jobs of its requirements; a job without
    requirements inherits those of its scheduler -/
def flatReq (c : Cfg) : Nat → Nat → List Nat
  | 0, _ => []
  | fuel + 1, j =>
    if j = 0 then []
    else if (c.req j).isEmpty then flatReq c fuel (c.parent j)
    else (c.req j).flatMap (exitsOf c c.n)

end AJ.Flat
