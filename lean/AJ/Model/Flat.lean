/-
  The requirement relation of the *flattened* graph of a tree of schedulers (C10 (d)): what
  `harness/dyn_gen.flatten_variant` builds when it replaces every nested scheduler by its jobs — the entry jobs of a
  nested scheduler inherit its requirements, whoever required it requires its exit jobs instead.
  `ajdriver flatreq` prints `flatReq` for a configuration; the C10 check compares it with the twin the harness runs.
  Then the other executable definitions in the statement of C10 (d) (`Proofs.FlatC.flatten_same_times`): the start-time
  equations `Timing.Sat`, the instants `timingOf` read off a history of layer B (`firstNow`, `beganP`, `endedP`) and the
  decidable form `plainCheck` of its hypotheses on a history; `ajdriver timing` prints them for a translated trace.
  Definitions only: the theorems are in `Proofs/FlatEq.lean`, `Proofs/FlatB.lean`, `Proofs/FlatC.lean`.
  Core Lean only.
-/
import AJ.Model.Run
import AJ.Model.Full
namespace AJ.Flat
open AJ.Run AJ.Full

/-- every scheduler but possibly the top one owns a job (the class `flatten_variant` accepts) -/
def noEmptyNested (c : Cfg) : Bool :=
  (List.range c.n).all fun s => s == 0 || !c.isSched s || !(c.children s).isEmpty

/-- the jobs of `s` that no job of `s` requires -/
def lastJobs (c : Cfg) (s : Nat) : List Nat :=
  (c.children s).filter fun k => !(c.children s).any fun k' => (c.req k').contains k

/-- exit jobs of the flattened `r`: `r` itself when atomic, else the exit jobs of its jobs that no sibling requires;
    `fuel` bounds the depth (`c.n` is enough) -/
def exitsOf (c : Cfg) : Nat → Nat → List Nat
  | 0, _ => []
  | fuel + 1, r =>
    if c.isSched r then (lastJobs c r).flatMap (exitsOf c fuel) else [r]

/-- requirements of atomic job `j` in the flattened graph: the exit jobs of its requirements; a job without
    requirements inherits those of its scheduler -/
def flatReq (c : Cfg) : Nat → Nat → List Nat
  | 0, _ => []
  | fuel + 1, j =>
    if j = 0 then []
    else if (c.req j).isEmpty then flatReq c fuel (c.parent j)
    else (c.req j).flatMap (exitsOf c c.n)

/-! ### the start-time equations (theorems: `Proofs/FlatEq.lean`) -/

/-- largest element, `0` for the empty list -/
def sup (l : List Nat) : Nat := l.foldl max 0

structure Timing where
  /-- instant at which the body of the job (the run of the scheduler) begins -/
  B : Nat → Nat
  /-- instant at which it ends -/
  E : Nat → Nat

/-- the start-time equations of configuration `c` for body durations `dur` -/
structure Timing.Sat (c : Cfg) (dur : Nat → Nat) (t : Timing) : Prop where
  begin_   : ∀ j, 0 < j → j < c.n → t.B j = max (t.B (c.parent j)) (sup ((c.req j).map t.E))
  endJob   : ∀ j, 0 < j → j < c.n → c.isSched j = false → t.E j = t.B j + dur j
  endSched : ∀ s, s < c.n → c.isSched s = true → t.E s = max (t.B s) (sup ((c.children s).map t.E))

/-! ### the instants read off a history of layer B (theorems: `Proofs/FlatB.lean`, `Proofs/FlatC.lean`;
  `ajdriver timing` prints them) -/

/-- the clock in the first state, along the run of `evs` from `st`, that satisfies `P` (`none`: there is none) -/
def firstNow (c : Cfg) (P : StB → Bool) : StB → List EvB → Option Nat
  | st, [] => if P st then some st.a.now else none
  | st, e :: es =>
    if P st then some st.a.now else
    match stepB c st e with
    | some st' => firstNow c P st' es
    | none => none

/-- the body of job `j` (the run of scheduler `j`) has begun: `_running`, set in the very step in which the job
    obtains its slot and its body is entered (`grant j`; `runBegin` for the top-level scheduler `0`), never reset.
    For a scheduler this is `pcB j ≠ .notBegun` (`beganP_sched`), for an atomic job "the task is executing or has
    finished" (`beganP_iff`). -/
def beganP (j : Nat) (st : StB) : Bool := st.a.rflag j

/-- the task of job `j` has finished: it returned, raised or was cancelled -/
def finished : Ph → Bool
  | .done _ => true
  | .cancelled => true
  | _ => false

/-- the body of job `j` has ended; for a scheduler (the top-level one included): its run is over and its task
    has finished, it is a finished job of its parent (`endedP_sched`: this is `pcB j = .over`) -/
def endedP (j : Nat) (st : StB) : Bool := finished (st.a.ph j)

/-- the instants at which the jobs began and ended in the history `evs` (`0` for what never happens) -/
def timingOf (c : Cfg) (evs : List EvB) : Timing where
  B := fun j => (firstNow c (beganP j) StB.init evs).getD 0
  E := fun j => (firstNow c (endedP j) StB.init evs).getD 0

/-- the time each body took -/
def durOf (c : Cfg) (evs : List EvB) : Nat → Nat := fun j => (timingOf c evs).E j - (timingOf c evs).B j

/-! ### decidable forms of the hypotheses of `Proofs.FlatC.flatten_same_times` on a history -/

/-- no body raises -/
def okCheck (evs : List EvB) : Bool :=
  evs.all fun e => match e with | .bodyEnd _ ok => ok | _ => true

/-- no orchestration fails, and the top-level task is not cancelled from outside -/
def nfCheck (evs : List EvB) : Bool :=
  evs.all fun e => match e with | .orchFail _ => false | .extCancel => false | _ => true

/-- no shutdown handler is pending in a state in which the clock advances -/
def zeroCheck (c : Cfg) : StB → List EvB → Bool
  | _, [] => true
  | st, e :: es =>
    (match e with
     | .tick _ => (List.range c.n).all fun k => st.hph k != .hactive
     | _ => true) &&
    (match stepB c st e with
     | some st' => zeroCheck c st' es
     | none => true)

/-- a decidable form of `PlainRun` (`Proofs/FlatC.lean`: `plainCheck_spec`) -/
def plainCheck (c : Cfg) (evs : List EvB) : Bool :=
  c.wf && ((acceptB c StB.init evs).map fun st => decide (st.pcB 0 = .over)) == some true &&
  ((List.range c.n).all fun j => c.window j == 0 && c.timeout j == none && c.forever j == false) &&
  okCheck evs && nfCheck evs && zeroCheck c StB.init evs

end AJ.Flat
