/-
  Static model, part 3: the construction API (job.py `AbstractJob.__init__/requires/
  _add_one_requirement`, sequence.py `Sequence.__init__/_flatten/_resolve/append/requires`,
  purescheduler.py `__init__/update/add/remove`).  Core Lean only.

  Transcribes the code after the repairs of defects D5 (`append` chains all its arguments)
  and D6 (`requires(seq, remove=True)` removes), and D15 (a sequence without jobs keeps the
  requirements it receives, in `_pending`, for the first job that `append` brings).
-/
import AJ.Model.Graph
namespace AJ

/-- an argument as the API accepts it: `None`, a job (atomic or scheduler), a `Sequence`,
    or a list / tuple / set (in Python's iteration order) of arguments -/
inductive Arg
  | none
  | job (j : Nat)
  | seq (q : Nat)
  | coll (xs : List Arg)
  deriving Repr, Inhabited

/-- jobs, sequences and schedulers built so far -/
structure Heap where
  /-- `j.required` -/
  req      : Nat → List Nat
  /-- `q.jobs` (a Python list: order matters) -/
  seqJobs  : Nat → List Nat
  /-- `q.scheduler` -/
  seqSched : Nat → Option Nat
  /-- `s.jobs` -/
  mem      : Nat → List Nat
  /-- `q._pending`: the requirements `q` received while it had no job yet (already resolved to
      jobs, in the order received); the first job that `append` brings receives them -/
  seqPending : Nat → List Nat

def Heap.empty : Heap :=
  { req := fun _ => [], seqJobs := fun _ => [], seqSched := fun _ => none, mem := fun _ => [],
    seqPending := fun _ => [] }

def Heap.setReq (h : Heap) (j : Nat) (r : List Nat) : Heap :=
  { h with req := fun k => if k = j then r else h.req k }
def Heap.setSeqJobs (h : Heap) (q : Nat) (l : List Nat) : Heap :=
  { h with seqJobs := fun k => if k = q then l else h.seqJobs k }
def Heap.setSeqSched (h : Heap) (q : Nat) (s : Option Nat) : Heap :=
  { h with seqSched := fun k => if k = q then s else h.seqSched k }
def Heap.setMem (h : Heap) (s : Nat) (m : List Nat) : Heap :=
  { h with mem := fun k => if k = s then m else h.mem k }
def Heap.setSeqPending (h : Heap) (q : Nat) (l : List Nat) : Heap :=
  { h with seqPending := fun k => if k = q then l else h.seqPending k }

/-- `_add_one_requirement` / `required.remove` for one job `r` -/
def reqOne (j : Nat) (remove : Bool) (h : Heap) (r : Nat) : Heap × Option Err :=
  if remove then
    if r ∈ h.req j then (h.setReq j ((h.req j).erase r), Option.none) else (h, some .keyError)
  else
    if r = j then (h, Option.none) else (h.setReq j (addNew (h.req j) r), Option.none)

mutual
/-- `j.requires(a, remove=remove)` for one argument; stops at the first `KeyError`,
    keeping what was done before it (as the code does) -/
def reqArg (j : Nat) (remove : Bool) (h : Heap) : Arg → Heap × Option Err
  | .none => (h, Option.none)
  | .job r => reqOne j remove h r
  | .seq q =>
    match (h.seqJobs q).getLast? with
    | Option.none => (h, Option.none)
    | some r => reqOne j remove h r
  | .coll xs => reqArgs j remove h xs
/-- `j.requires(*args, remove=remove)` -/
def reqArgs (j : Nat) (remove : Bool) (h : Heap) : List Arg → Heap × Option Err
  | [] => (h, Option.none)
  | a :: as =>
    match reqArg j remove h a with
    | (h', some e) => (h', some e)
    | (h', Option.none) => reqArgs j remove h' as
end

/-- `Sequence._flatten`: `None` skipped, a job kept, a sequence replaced by its jobs,
    **anything else silently ignored** (sequence.py:56-68) -/
def flattenSeq (h : Heap) : List Arg → List Nat
  | [] => []
  | .job j :: as => j :: flattenSeq h as
  | .seq q :: as => h.seqJobs q ++ flattenSeq h as
  | _ :: as => flattenSeq h as

mutual
/-- `Sequence._resolve` for one requirement: the jobs it stands for *now* (`None` ignored, a job
    for itself, a sequence for its last job if it has one, a collection flattened) -/
def resolve (h : Heap) : Arg → List Nat
  | .none => []
  | .job r => [r]
  | .seq q =>
    match (h.seqJobs q).getLast? with
    | Option.none => []
    | some r => [r]
  | .coll xs => resolves h xs
/-- `Sequence._resolve(requirements)` -/
def resolves (h : Heap) : List Arg → List Nat
  | [] => []
  | a :: as => resolve h a ++ resolves h as
end

/-- `job2.requires(job1)` along consecutive pairs of `l`, the first one requiring `prev` if any -/
def chain (h : Heap) : Option Nat → List Nat → Heap
  | _, [] => h
  | Option.none, j :: js => chain h (some j) js
  | some p, j :: js => chain (reqOne j false h p).1 (some j) js

/-- `if self.jobs and self._pending: self.jobs[0].requires(self._pending); self._pending = []`
    (sequence.py, in `append`): the first job receives what the sequence was given before it had one -/
def givePending (h : Heap) (q : Nat) : Heap :=
  match h.seqJobs q with
  | [] => h
  | j0 :: _ =>
    if (h.seqPending q).isEmpty then h
    else (reqArg j0 false h (.coll ((h.seqPending q).map .job))).1.setSeqPending q []

/-- `scheduler.update(jobs)` for already-flattened jobs -/
def register (h : Heap) (s : Option Nat) (js : List Nat) : Heap :=
  match s with
  | Option.none => h
  | some s => h.setMem s (unionNew (h.mem s) js)

/-- the statements of a construction program -/
inductive Op
  /-- `j = AbstractJob(required=…, scheduler=…)` (fresh `j`) -/
  | newJob (j : Nat) (required : Arg) (sched : Option Nat)
  /-- `s = Scheduler(*items, required=…, scheduler=…)` (fresh `s`) -/
  | newSched (s : Nat) (items : List Arg) (required : Arg) (sched : Option Nat)
  /-- `j.requires(*args, remove=…)` -/
  | requires (j : Nat) (args : List Arg) (remove : Bool)
  /-- `q = Sequence(*items, required=…, scheduler=…)` (fresh `q`) -/
  | newSeq (q : Nat) (items : List Arg) (required : Arg) (sched : Option Nat)
  /-- `q.append(*items)` -/
  | append (q : Nat) (items : List Arg)
  /-- `q.requires(*args)` -/
  | seqRequires (q : Nat) (args : List Arg)
  /-- `s.add(x)` -/
  | add (s : Nat) (x : Arg)
  /-- `s.update(xs)` -/
  | update (s : Nat) (xs : List Arg)
  /-- `s.remove(j)` -/
  | removeJob (s : Nat) (j : Nat)
  deriving Repr, Inhabited

/-- one statement; the heap after it and the exception it raised, if any -/
def interp (h : Heap) : Op → Heap × Option Err
  | .newJob j required sched =>
    let h0 := h.setReq j []
    match reqArg j false h0 required with
    | (h1, some e) => (h1, some e)
    | (h1, Option.none) => (register h1 sched [j], Option.none)
  | .newSched s items required sched =>
    -- PureScheduler.__init__ then AbstractJob.__init__
    let h0 := (h.setMem s (unionNew [] (flattenSeq h items))).setReq s []
    match reqArg s false h0 required with
    | (h1, some e) => (h1, some e)
    | (h1, Option.none) => (register h1 sched [s], Option.none)
  | .requires j args remove => reqArgs j remove h args
  | .newSeq q items required sched =>
    let js := flattenSeq h items
    -- `self.jobs = …; self._pending = []`, then the chain
    let h1 := chain ((h.setSeqJobs q js).setSeqPending q []) Option.none js
    match js with
    | [] =>
      -- no job yet: `self._pending += self._resolve([required])`
      let h2 := h1.setSeqPending q (h1.seqPending q ++ resolves h1 [required])
      (register (h2.setSeqSched q sched) sched js, Option.none)
    | j0 :: _ =>
      match reqArg j0 false h1 required with
      | (h2, some e) => (h2, some e)
      | (h2, Option.none) => (register (h2.setSeqSched q sched) sched js, Option.none)
  | .append q items =>
    if items.isEmpty then (h, Option.none) else
    let new := flattenSeq h items
    let h1 := chain h (h.seqJobs q).getLast? new
    let h2 := h1.setSeqJobs q (h.seqJobs q ++ new)
    -- after `self.jobs += new_jobs` and before the registration
    let h3 := givePending h2 q
    (register h3 (h.seqSched q) new, Option.none)
  | .seqRequires q args =>
    match h.seqJobs q with
    | [] => (h.setSeqPending q (h.seqPending q ++ resolves h args), Option.none)
    | j0 :: _ => reqArgs j0 false h args
  | .add s x => (register h (some s) (flattenSeq h [x]), Option.none)
  | .update s xs => (register h (some s) (flattenSeq h xs), Option.none)
  | .removeJob s j =>
    if j ∈ h.mem s then (h.setMem s ((h.mem s).erase j), Option.none) else (h, some .keyError)

/-- a whole program: stops at the first exception (as a script would) -/
def run (h : Heap) : List Op → Heap × Option Err
  | [] => (h, Option.none)
  | op :: ops =>
    match interp h op with
    | (h', some e) => (h', some e)
    | (h', Option.none) => run h' ops

/-! ### reference semantics: what the documentation says (used by the theorems of C19) -/

mutual
/-- the jobs an argument stands for: `None` is ignored, a sequence stands for its last job,
    nesting is flattened -/
def flat (h : Heap) : Arg → List Nat
  | .none => []
  | .job j => [j]
  | .seq q => (h.seqJobs q).getLast?.toList
  | .coll xs => flats h xs
def flats (h : Heap) : List Arg → List Nat
  | [] => []
  | a :: as => flat h a ++ flats h as
end

end AJ
