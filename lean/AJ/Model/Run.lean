/-
  Dynamic model, layer A ("core"): what `co_run` does to its jobs as far as *starting* them is
  concerned — job tasks, window slots, the main loop's reaction to `asyncio.wait`, nesting.
  Everything that decides *when a run leaves its main loop*, what it cancels, what it returns and how
  it shuts down is left open here (events `waitReturn … leave K`, `leave`, `finish` may happen for
  any reason; `extCancel`, the request to cancel the top-level task from outside, only sets `creq 0`): the theorems proved on this layer (C01, C02 at-most-once, C07, C12, C14) hold whatever
  that logic does.  Layer B (`AJ/Model/Full.lean`) pins those choices down and refines this one.

  Transcribes (after the repairs recorded in known_findings.json):
    purescheduler.py `_co_run`: entry jobs 975-988, reaction to a wait-return 1061-1085
    window.py `Window.run_job.wrapped`: slot taken, `_running`, slot given back whatever the outcome
    job.py predicates is_idle / is_scheduled / is_running / is_done
  Core Lean only.
-/
namespace AJ.Run

/-- identity of a raised exception object: raised by the body of job `j`, the `TimeoutError`
    created by scheduler `s`, or the exception raised by the orchestration code of scheduler `s` itself
    (`_co_run()` failing half-way, e.g. a verbose message that cannot be printed) -/
inductive Exc
  | byJob (j : Nat)
  | tmo (s : Nat)
  | orch (s : Nat)
  deriving DecidableEq, Repr, Inhabited

/-- how a task finished: it returned its own object (atomic job), a boolean (scheduler), or raised -/
inductive Res
  | retOwn
  | retBool (b : Bool)
  | exc (e : Exc)
  deriving DecidableEq, Repr, Inhabited

/-- state of the task created by `_create_task` for a job -/
inductive Ph
  | idle                -- no task (`_task is None`)
  | queued              -- task created, waiting in `await self.queue.put(1)`
  | running             -- slot taken, `_running = True`, body executing
  | done (r : Res)      -- task finished (`_FINISHED`): returned or raised
  | cancelled           -- task finished cancelled
  deriving DecidableEq, Repr, Inhabited

def Ph.isDone : Ph → Bool
  | .done _ => true
  | _ => false

def Ph.live : Ph → Bool
  | .queued => true
  | .running => true
  | _ => false

/-- a scheduler tree with behaviours left out: durations, outcomes, orders are the environment -/
structure Cfg where
  /-- jobs are `0 … n-1`; job `0` is the top-level scheduler -/
  n         : Nat
  parent    : Nat → Nat
  isSched   : Nat → Bool
  req       : Nat → List Nat
  critical  : Nat → Bool
  forever   : Nat → Bool
  /-- `jobs_window`; `0` = no limit -/
  window    : Nat → Nat
  timeout   : Nat → Option Nat
  sdTimeout : Nat → Option Nat
  /-- a `PureScheduler` at the top (never raises) rather than a `Scheduler` -/
  topPure   : Bool

def Cfg.children (c : Cfg) (s : Nat) : List Nat :=
  (List.range c.n).filter fun k => k != 0 && c.parent k == s

/-- admissible configurations: a tree of any depth, requirement graphs closed and acyclic
    (requirements have smaller ids: ids are names, iteration orders are not in the model) -/
def Cfg.wf (c : Cfg) : Bool :=
  0 < c.n && c.isSched 0 && c.parent 0 == 0 && (c.req 0).isEmpty &&
  (List.range c.n).all fun j =>
    j == 0 ||
    (c.parent j < j && c.isSched (c.parent j) &&
     (c.req j).all (fun r => r < j && 0 < r && c.parent r == c.parent j))

/-- where `co_run` of a scheduler stands, as far as layer A can tell -/
inductive PcA
  | notBegun
  | loop          -- suspended in the main `asyncio.wait`
  | exiting       -- left the main loop for good (tidying, shutting down)
  | over
  deriving DecidableEq, Repr, Inhabited

structure StA where
  ph      : Nat → Ph
  /-- `cancel()` was called on the (unfinished) task and not acknowledged yet -/
  creq    : Nat → Bool
  /-- `_running` -/
  rflag   : Nat → Bool
  /-- already handed over in a `done` set of the main `asyncio.wait` -/
  deliv   : Nat → Bool
  /-- number of times the body was entered (ghost) -/
  entries : Nat → Nat
  /-- `_create_task` was called for a job that already had a task (ghost, sticky) -/
  dbl     : Bool
  pc      : Nat → PcA
  /-- items in the window queue of scheduler `s` -/
  qcount  : Nat → Nat
  /-- the `done` set of the last wait-return of `s` that `co_run` has not reacted to yet
      (`_tidy_tasks_exception` yields to the event loop when a job of `done` raised) -/
  rx      : Nat → Option (List Nat)
  now     : Nat

def StA.init : StA :=
  { ph := fun _ => .idle, creq := fun _ => false, rflag := fun _ => false, deliv := fun _ => false,
    entries := fun _ => 0, dbl := false, pc := fun _ => .notBegun, qcount := fun _ => 0, rx := fun _ => none,
    now := 0 }

inductive EvA
  /-- `run()` calls `co_run` of the top-level scheduler -/
  | runBegin
  /-- the queued job `j` obtains a window slot and its body begins -/
  | grant (j : Nat)
  /-- the body of atomic job `j` ends by returning (`ok`) or raising -/
  | bodyEnd (j : Nat) (ok : Bool)
  /-- the cancelled task of `j` finishes (an atomic job in any live phase; a scheduler never begun) -/
  | cancelAck (j : Nat)
  /-- the main `asyncio.wait` of `s` returns its finished, not yet reported jobs -/
  | waitReturn (s : Nat)
  /-- `co_run` of `s` reacts to that `done` set (in the same loop iteration, or a few iterations later
      when a job of the set raised): it either goes on (starts what can start) or leaves the loop,
      calling `cancel()` on the tasks `K` -/
  | react (s : Nat) (leave : Bool) (K : List Nat)
  /-- `s` leaves its main loop without reacting to a completion (expiry, or it was cancelled), cancelling `K` -/
  | leave (s : Nat) (K : List Nat)
  /-- `co_run` of scheduler `s` ends: returns / raises `r`, or (`none`) ends cancelled -/
  | finish (s : Nat) (r : Option Res)
  /-- the clock advances -/
  | tick (d : Nat)
  /-- someone outside the tree calls `cancel()` on the task that runs `co_run()` of the top-level scheduler while it
      runs (`task.cancel()`, `asyncio.wait_for(top.co_run(), …)` expiring); at most one such request is modelled -/
  | extCancel
  deriving Repr, Inhabited

def setAt {α : Type} (f : Nat → α) (j : Nat) (v : α) : Nat → α := fun k => if k = j then v else f k

/-- finished, not yet reported children of `s`: the `done` set the next wait-return hands over -/
def doneSet (c : Cfg) (st : StA) (s : Nat) : List Nat :=
  (c.children s).filter fun k => ((st.ph k).isDone || st.ph k == .cancelled) && !st.deliv k

/-- the jobs `co_run` of `s` creates tasks for when it begins: those without requirement (976-988) -/
def entrySet (c : Cfg) (s : Nat) : List Nat :=
  (c.children s).filter fun k => (c.req k).isEmpty

/-- the candidates examined in reaction to the `done` set `D` (1065-1085): successors of a job of `D`,
    not yet scheduled (`is_scheduled()`, after the repair of defect D10), all requirements `is_done()` *now* -/
def startCands (c : Cfg) (st : StA) (s : Nat) (D : List Nat) : List Nat :=
  (c.children s).filter fun k =>
    st.ph k == .idle && (c.req k).any (· ∈ D) && (c.req k).all (fun r => (st.ph r).isDone)

/-- `_create_task` for each job of `S`: idle jobs become queued; a job that already has a task sets `dbl` -/
def startJobs (st : StA) (S : List Nat) : StA :=
  { st with
    ph := fun k => if k ∈ S ∧ st.ph k = .idle then .queued else st.ph k
    dbl := st.dbl || S.any (fun k => st.ph k != .idle) }

/-- `co_run` of scheduler `s` begins (window created, tasks of the entry jobs created) -/
def beginRun (c : Cfg) (st : StA) (s : Nat) : StA :=
  if (c.children s).isEmpty then
    -- "empty schedulers are fine too": returns True at once
    { st with ph := setAt st.ph s (.done (.retBool true)), pc := setAt st.pc s .over }
  else
    startJobs { st with pc := setAt st.pc s .loop, qcount := setAt st.qcount s 0, rx := setAt st.rx s none } (entrySet c s)

def slotFree (c : Cfg) (st : StA) (p : Nat) : Bool := c.window p == 0 || st.qcount p < c.window p

/-- `j`'s task gives its slot back (window.py, `finally`) -/
def release (c : Cfg) (st : StA) (j : Nat) : StA :=
  { st with qcount := setAt st.qcount (c.parent j) (st.qcount (c.parent j) - 1) }

def stepA (c : Cfg) (st : StA) : EvA → Option StA
  | .runBegin =>
    if st.ph 0 = .idle ∧ st.pc 0 = .notBegun then
      some (beginRun c { st with ph := setAt st.ph 0 .running, rflag := setAt st.rflag 0 true } 0)
    else none
  | .grant j =>
    if 0 < j ∧ j < c.n ∧ st.ph j = .queued ∧ st.creq j = false ∧ slotFree c st (c.parent j) = true then
      let st1 : StA := { st with ph := setAt st.ph j .running, rflag := setAt st.rflag j true,
                                 qcount := setAt st.qcount (c.parent j) (st.qcount (c.parent j) + 1),
                                 entries := setAt st.entries j (st.entries j + 1) }
      if c.isSched j then
        let st2 := beginRun c st1 j
        -- an empty nested scheduler is over at once: its slot is given back in the same step
        some (if (c.children j).isEmpty then release c st2 j else st2)
      else some st1
    else none
  | .bodyEnd j ok =>
    if 0 < j ∧ j < c.n ∧ c.isSched j = false ∧ st.ph j = .running ∧ st.creq j = false then
      some (release c { st with ph := setAt st.ph j (.done (if ok then .retOwn else .exc (.byJob j))) } j)
    else none
  | .cancelAck j =>
    if 0 < j ∧ j < c.n ∧ st.creq j = true ∧ (st.ph j = .queued ∨ (st.ph j = .running ∧ c.isSched j = false)) then
      let st1 : StA := { st with ph := setAt st.ph j .cancelled, creq := setAt st.creq j false }
      some (if st.ph j = .running then release c st1 j else st1)
    else none
  | .waitReturn s =>
    let D := doneSet c st s
    if s < c.n ∧ c.isSched s = true ∧ st.pc s = .loop ∧ st.rx s = none ∧ D ≠ [] then
      some { st with deliv := (fun k => st.deliv k || decide (k ∈ D)), rx := setAt st.rx s (some D) }
    else none
  | .react s leave K =>
    match st.rx s with
    | none => none
    | some D =>
      if s < c.n ∧ c.isSched s = true ∧ st.pc s = .loop ∧
         (leave = true ∨ K = []) ∧ (∀ k ∈ K, k ∈ c.children s ∧ (st.ph k).live = true) then
        let st1 : StA := { st with rx := setAt st.rx s none }
        if leave then
          some { st1 with pc := setAt st.pc s .exiting, creq := fun k => st.creq k || decide (k ∈ K) }
        else
          some (startJobs st1 (startCands c st1 s D))
      else none
  | .leave s K =>
    if s < c.n ∧ c.isSched s = true ∧ st.pc s = .loop ∧ (∀ k ∈ K, k ∈ c.children s ∧ (st.ph k).live = true) then
      some { st with pc := setAt st.pc s .exiting, rx := setAt st.rx s none,
                     creq := fun k => st.creq k || decide (k ∈ K) }
    else none
  | .finish s r =>
    if s < c.n ∧ c.isSched s = true ∧ st.pc s = .exiting ∧ st.ph s = .running then
      let st1 : StA := { st with pc := setAt st.pc s .over,
                                 ph := setAt st.ph s (match r with | some r => .done r | none => .cancelled),
                                 creq := setAt st.creq s false }
      some (if s = 0 then st1 else release c st1 s)
    else none
  | .tick d =>
    -- urgency (A2): the clock does not advance while a job could take a free slot, a main wait could return,
    -- or a reaction is pending
    if 0 < d ∧
       (∀ j ∈ List.range c.n, ¬ (0 < j ∧ st.ph j = .queued ∧ st.creq j = false ∧ slotFree c st (c.parent j) = true)) ∧
       (∀ s ∈ List.range c.n, ¬ (c.isSched s = true ∧ st.pc s = .loop ∧ (doneSet c st s ≠ [] ∨ st.rx s ≠ none))) then
      some { st with now := st.now + d }
    else none
  | .extCancel =>
    -- the request only: what the `CancelledError` does to `co_run` once delivered is the business of layer B
    -- (`cancelArrive 0`); here `leave 0 K` / `finish 0 none` may happen for any reason anyway
    if st.ph 0 = .running ∧ st.creq 0 = false then
      some { st with creq := setAt st.creq 0 true }
    else none

/-- the histories layer A accepts, and the state they lead to -/
def acceptA (c : Cfg) : StA → List EvA → Option StA
  | st, [] => some st
  | st, e :: es => match stepA c st e with
    | some st' => acceptA c st' es
    | none => none

/-! ### the inspection API, as functions of the state (job.py:529-571) -/

def isIdle (st : StA) (j : Nat) : Bool := st.ph j == .idle
def isScheduled (st : StA) (j : Nat) : Bool := st.ph j != .idle
def isRunning (st : StA) (j : Nat) : Bool := st.rflag j
def isDone (st : StA) (j : Nat) : Bool := (st.ph j).isDone

end AJ.Run
