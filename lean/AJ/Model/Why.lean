/-
  `PureScheduler.why()` (purescheduler.py 221-236), transcribed: the message is decided by the two diagnosis flags, the
  expiry first.  The text "TIMED OUT after {}s" carries `_failed_timeout`, which `_abort_on_timeout` sets to
  `self.timeout` (purescheduler.py 997): the model carries the configured timeout.
-/
import AJ.Model.Full
namespace AJ.Full
open AJ.Run

/-- the three messages of `why()` -/
inductive Why
  /-- `"FINE"` -/
  | fine
  /-- `"TIMED OUT after {t}s"` -/
  | timedOut (t : Option Nat)
  /-- `"a CRITICAL job has raised an exception"` -/
  | critical
  deriving DecidableEq, Repr

/-- `why()` as a function of `_failed_timeout is not False`, `_failed_critical` and the configured timeout -/
def whyOf (ft fc : Bool) (t : Option Nat) : Why :=
  if ft then .timedOut t else if fc then .critical else .fine

/-- `why()` of scheduler `s` in a state of the full model -/
def StB.why (c : Cfg) (st : StB) (s : Nat) : Why := whyOf (st.failT s) (st.failC s) (c.timeout s)

end AJ.Full
