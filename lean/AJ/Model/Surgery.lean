/-
  Static model, part 2: graph surgery (purescheduler.py:479-559):
  bypass_and_remove, keep_only, keep_only_between.  Core Lean only.
-/
import AJ.Model.Graph
namespace AJ

/-- `bypass_and_remove(j)` on scheduler `s`.
    `ValueError` when `j` is not a member (state unchanged). -/
def bypass (t : T) (s j : Nat) : Except Err T :=
  if j ∈ t.mem s then
    let ups := t.req j
    let downs := (t.mem s).filter fun d => j ∈ t.req d
    -- `down.requires(up)` for every pair: adds `up` unless it is `down` itself or already there;
    -- then `down.required.remove(job)`
    let newReq := fun d =>
      if d ∈ downs then (unionNew (t.req d) (ups.filter (· ≠ d))).filter (· ≠ j) else t.req d
    .ok { t with req := newReq, mem := fun k => if k = s then (t.mem s).filter (· ≠ j) else t.mem k }
  else .error .valueError

/-- `keep_only(remains)`: `self.jobs &= set(remains)` then `sanitize()` (recursive).
    `fuel` bounds the nesting depth for `sanitize`. -/
def keepOnly (t : T) (fuel s : Nat) (remains : List Nat) : T :=
  (sanitize (t.setMem s ((t.mem s).filter (· ∈ remains))) fuel s).1

/-- `keep_only_between(starts=, ends=, keep_starts=, keep_ends=)` -/
def keepOnlyBetween (t : T) (fuel s : Nat) (starts ends : List Nat) (keepStarts keepEnds : Bool) : T :=
  let downwards := if starts.isEmpty then t.mem s else downstream t s starts
  let upwards := if ends.isEmpty then t.mem s else upstream t s ends
  let preserved := downwards.filter (· ∈ upwards)
  let preserved := if keepStarts then unionNew preserved starts else preserved
  let preserved := if keepEnds then unionNew preserved ends else preserved
  (sanitize (t.setMem s preserved) fuel s).1

end AJ
