/-
  Histories of layer A: which events say that a job "finished" / "began".
  (An empty nested scheduler is over in the very step in which it begins.)
-/
import AJ.Model.Run
namespace AJ.Run

/-- the event is the end of the body of `j`: it returned or raised (not: was cancelled) -/
def finishes (c : Cfg) (j : Nat) : EvA → Bool
  | .bodyEnd k _ => k == j
  | .finish k (some _) => k == j
  | .grant k => k == j && c.isSched j && (c.children j).isEmpty
  | .runBegin => j == 0 && (c.children 0).isEmpty
  | _ => false

/-- the body of `j` finished (by returning or raising) somewhere in the history -/
def finishedIn (c : Cfg) (evs : List EvA) (j : Nat) : Bool := evs.any (finishes c j)

/-- the event is the beginning of the body of `j` (for a scheduler: of its run) -/
def begins (j : Nat) : EvA → Bool
  | .grant k => k == j
  | .runBegin => j == 0
  | _ => false

def begunIn (evs : List EvA) (j : Nat) : Bool := evs.any (begins j)

/-- number of times the body of `j` was entered -/
def beginCount (evs : List EvA) (j : Nat) : Nat := (evs.filter (begins j)).length

end AJ.Run
