/-
  A lexer for the subset of the DOT language that `dot_format()` emits (https://graphviz.org/doc/info/lang.html):
  identifiers / numerals, double-quoted strings (the only escape is `\"`), the punctuation `{ } [ ] ; , =` and `->`;
  white space separates tokens.  Written from the grammar, independently of `render`.  Core Lean only.
-/
import AJ.Model.Dot
namespace AJ

inductive Tok
  /-- an unquoted ID: identifier or numeral -/
  | id (s : List Char)
  /-- a double-quoted ID, with its contents after un-escaping -/
  | str (s : List Char)
  | lbrace | rbrace | lbrack | rbrack | semi | comma | eq | arrow
  deriving DecidableEq, Repr, Inhabited

/-- characters of unquoted IDs (letters, digits, underscore, and the dot of numerals) -/
def isIdChar (c : Char) : Bool := c.isAlphanum || c == '_' || c == '.'

def isSpaceChar (c : Char) : Bool := c == ' ' || c == '\n' || c == '\t' || c == '\r'

/-- the longest prefix of ID characters, and the rest -/
def spanId : List Char → List Char × List Char
  | [] => ([], [])
  | c :: cs => if isIdChar c then let p := spanId cs; (c :: p.1, p.2) else ([], c :: cs)

/-- tokens of the input, or `none` if it is not lexically valid (unterminated string, stray character);
    one unit of fuel per character is enough -/
def lexDot : Nat → List Char → Option (List Tok)
  | _, [] => some []
  | 0, _ :: _ => none
  | fuel + 1, c :: cs =>
    if isSpaceChar c then lexDot fuel cs
    else if c = '"' then
      match unquoteChars cs with
      | none => none
      | some (content, rest) => (lexDot fuel rest).map (Tok.str content :: ·)
    else if c = '{' then (lexDot fuel cs).map (Tok.lbrace :: ·)
    else if c = '}' then (lexDot fuel cs).map (Tok.rbrace :: ·)
    else if c = '[' then (lexDot fuel cs).map (Tok.lbrack :: ·)
    else if c = ']' then (lexDot fuel cs).map (Tok.rbrack :: ·)
    else if c = ';' then (lexDot fuel cs).map (Tok.semi :: ·)
    else if c = ',' then (lexDot fuel cs).map (Tok.comma :: ·)
    else if c = '=' then (lexDot fuel cs).map (Tok.eq :: ·)
    else if c = '-' then
      match cs with
      | '>' :: rest => (lexDot fuel rest).map (Tok.arrow :: ·)
      | _ => none
    else if isIdChar c then
      let p := spanId (c :: cs)
      (lexDot fuel p.2).map (Tok.id p.1 :: ·)
    else none

/-- lexing of a whole string -/
def lexString (s : String) : Option (List Tok) := lexDot s.toList.length s.toList

end AJ
