/-
  A lexer for the subset of the DOT language that `dot_format()` emits (https://graphviz.org/doc/info/lang.html):
  identifiers / unsigned numerals, double-quoted strings (the only escape is `\"`), the punctuation `{ } [ ] ; , =` and `->`;
  white space separates tokens.  Written from the grammar, independently of `render`.  Core Lean only.
-/
import AJ.Model.Dot
namespace AJ

inductive Tok
  /-- an unquoted ID: identifier or numeral -/
  | id (s : List Char)
  /-- a double-quoted ID, with its contents after un-escaping -/
  | str (s : List Char)
  | lbrace | rbrace | lbrack | rbrack | semi | comma | eq | arrow
  deriving DecidableEq, Repr, Inhabited

/-- characters of unquoted IDs (letters, digits, underscore, and the dot of numerals) -/
def isIdChar (c : Char) : Bool := c.isAlphanum || c == '_' || c == '.'

def isSpaceChar (c : Char) : Bool := c == ' ' || c == '\n' || c == '\t' || c == '\r'

/-- the longest prefix of ID characters, and the rest -/
def spanId : List Char → List Char × List Char
  | [] => ([], [])
  | c :: cs => if isIdChar c then let p := spanId cs; (c :: p.1, p.2) else ([], c :: cs)

/-- first character of an identifier: a letter or the underscore (ASCII only, stricter than DOT) -/
def isIdentStart (c : Char) : Bool := c.isAlpha || c == '_'

/-- character of an identifier: a letter, a digit or the underscore (ASCII only, stricter than DOT) -/
def isIdentChar (c : Char) : Bool := c.isAlphanum || c == '_'

/-- DOT: "Any string of alphabetic (`[a-zA-Z\200-\377]`) characters, underscores (`'_'`) or digits (`[0-9]`),
    not beginning with a digit" -/
def isIdentRun : List Char → Bool
  | [] => false
  | c :: cs => isIdentStart c && cs.all isIdentChar

/-- DOT: "a numeral `[-]?(.[0-9]+ | [0-9]+(.[0-9]*)? )`", without the sign (the lexer knows `-` only in `->`):
    a dot followed by one or more digits, or one or more digits optionally followed by a dot and digits -/
def isNumeralRun : List Char → Bool
  | [] => false
  | c :: cs =>
    if c = '.' then !cs.isEmpty && cs.all Char.isDigit
    else c.isDigit &&
      (match cs.dropWhile Char.isDigit with
       | [] => true
       | d :: fs => d == '.' && fs.all Char.isDigit)

/-- a maximal run of ID characters is one unquoted ID exactly when it is an identifier or a numeral
    (graphviz splits `1a` with a warning and rejects `a.b`, `1.2.3`; here they are all lexical errors) -/
def validIdRun (xs : List Char) : Bool := isIdentRun xs || isNumeralRun xs

/-- tokens of the input, or `none` if it is not lexically valid (unterminated string, stray character,
    a run of ID characters that is neither an identifier nor a numeral); one unit of fuel per character is enough -/
def lexDot : Nat → List Char → Option (List Tok)
  | _, [] => some []
  | 0, _ :: _ => none
  | fuel + 1, c :: cs =>
    if isSpaceChar c then lexDot fuel cs
    else if c = '"' then
      match unquoteChars cs with
      | none => none
      | some (content, rest) => (lexDot fuel rest).map (Tok.str content :: ·)
    else if c = '{' then (lexDot fuel cs).map (Tok.lbrace :: ·)
    else if c = '}' then (lexDot fuel cs).map (Tok.rbrace :: ·)
    else if c = '[' then (lexDot fuel cs).map (Tok.lbrack :: ·)
    else if c = ']' then (lexDot fuel cs).map (Tok.rbrack :: ·)
    else if c = ';' then (lexDot fuel cs).map (Tok.semi :: ·)
    else if c = ',' then (lexDot fuel cs).map (Tok.comma :: ·)
    else if c = '=' then (lexDot fuel cs).map (Tok.eq :: ·)
    else if c = '-' then
      match cs with
      | '>' :: rest => (lexDot fuel rest).map (Tok.arrow :: ·)
      | _ => none
    else if isIdChar c then
      let p := spanId (c :: cs)
      if validIdRun p.1 then (lexDot fuel p.2).map (Tok.id p.1 :: ·) else none
    else none

/-- lexing of a whole string -/
def lexString (s : String) : Option (List Tok) := lexDot s.toList.length s.toList

example : lexString "a.b" = none := by decide
example : lexString "1a" = none := by decide
example : lexString "1.2.3" = none := by decide
example : lexString "1..2" = none := by decide
example : lexString "." = none := by decide
example : lexString "1.5 .5 7. x_1 _y" =
    some [Tok.id "1.5".toList, Tok.id ".5".toList, Tok.id "7.".toList, Tok.id "x_1".toList, Tok.id "_y".toList] := by decide

end AJ
