/-
  A parser for the subset of the DOT grammar (https://graphviz.org/doc/info/lang.html) that `dot_format()` uses,
  working on the tokens of `DotLex.lean`.  Written from the grammar, independently of `render`:

      graph     : [ strict ] digraph [ ID ] '{' stmt_list '}'
      stmt_list : [ stmt [ ';' ] stmt_list ]
      stmt      : node_stmt | edge_stmt | attr_stmt | ID '=' ID | subgraph
      attr_stmt : (graph | node | edge) attr_list
      attr_list : '[' [ a_list ] ']' [ attr_list ]
      a_list    : ID '=' ID [ (';' | ',') ] [ a_list ]
      edge_stmt : node_id '->' node_id [ attr_list ]          (restriction: two plain node ids, no ports, no chains)
      node_stmt : node_id [ attr_list ]
      subgraph  : [ subgraph [ ID ] ] '{' stmt_list '}'

  An ID is an unquoted identifier / numeral that is not a keyword (keywords are case-insensitive), or a quoted
  string.  The result is the sequence of statements in document order, subgraphs being bracketed by
  `openSub` / `closeSub` (the parser checks the nesting).  Core Lean only.
-/
import AJ.Model.DotLex
namespace AJ

abbrev DAttrs := List (List Char × List Char)

inductive DStmt
  /-- `ID = ID` -/
  | assign (k v : List Char)
  /-- `graph [...]`, `node [...]`, `edge [...]` (kind in lower case) -/
  | attr (kind : List Char) (as : DAttrs)
  | node (id : List Char) (as : DAttrs)
  | edge (src dst : List Char) (as : DAttrs)
  | openSub (name : Option (List Char))
  | closeSub
  deriving DecidableEq, Repr, Inhabited

def lowerChars (s : List Char) : List Char := s.map Char.toLower

def dotKeywords : List (List Char) :=
  ["node".toList, "edge".toList, "graph".toList, "digraph".toList, "subgraph".toList, "strict".toList]

def isKeyword (s : List Char) : Bool := dotKeywords.contains (lowerChars s)

/-- the value of a token used as an ID -/
def idOf? : Tok → Option (List Char)
  | .id s => if isKeyword s then none else some s
  | .str s => some s
  | _ => none

def skipSep : List Tok → List Tok
  | .comma :: r => r
  | .semi :: r => r
  | r => r

def skipSemi : List Tok → List Tok
  | .semi :: r => r
  | r => r

/-- `[ a_list ] ']'` : the attributes up to the closing bracket, and what follows it -/
def parseAList : Nat → List Tok → Option (DAttrs × List Tok)
  | _, .rbrack :: r => some ([], r)
  | fuel + 1, k :: .eq :: v :: r => do
    let k' ← idOf? k
    let v' ← idOf? v
    let (as, rest) ← parseAList fuel (skipSep r)
    pure ((k', v') :: as, rest)
  | _, _ => none

/-- `[ attr_list ]` : zero or more bracketed groups -/
def parseAttrList : Nat → List Tok → Option (DAttrs × List Tok)
  | fuel + 1, .lbrack :: r => do
    let (as, rest) ← parseAList fuel r
    let (bs, rest') ← parseAttrList fuel rest
    pure (as ++ bs, rest')
  | _, r => some ([], r)

/-- one statement that begins with the ID `x` (`r` is what follows `x`), and what follows the statement -/
def parseIdStmt (fuel : Nat) (x : List Char) (r : List Tok) : Option (DStmt × List Tok) :=
  match r with
  | .eq :: v :: r' => do
    let v' ← idOf? v
    pure (.assign x v', r')
  | .arrow :: y :: r' => do
    let y' ← idOf? y
    let (as, r'') ← parseAttrList fuel r'
    pure (.edge x y' as, r'')
  | _ => do
    let (as, r') ← parseAttrList fuel r
    pure (.node x as, r')

/-- `stmt_list '}'` at nesting depth `d` (0 = the body of the graph): the statements, and what follows the brace
    that closes the graph -/
def parseStmts : Nat → Nat → List Tok → Option (List DStmt × List Tok)
  | _, 0, .rbrace :: r => some ([], r)
  | 0, _, _ => none
  | fuel + 1, d + 1, .rbrace :: r => do
    let (ss, rest) ← parseStmts fuel d (skipSemi r)
    pure (.closeSub :: ss, rest)
  | fuel + 1, d, .lbrace :: r => do
    let (ss, rest) ← parseStmts fuel (d + 1) r
    pure (.openSub none :: ss, rest)
  | fuel + 1, d, .id s :: r =>
    let kw := lowerChars s
    if kw = "subgraph".toList then
      match r with
      | .lbrace :: r' => do
        let (ss, rest) ← parseStmts fuel (d + 1) r'
        pure (.openSub none :: ss, rest)
      | n :: .lbrace :: r' => do
        let n' ← idOf? n
        let (ss, rest) ← parseStmts fuel (d + 1) r'
        pure (.openSub (some n') :: ss, rest)
      | _ => none
    else if kw = "graph".toList || kw = "node".toList || kw = "edge".toList then
      match r with
      | .lbrack :: _ => do
        let (as, r') ← parseAttrList fuel r
        let (ss, rest) ← parseStmts fuel d (skipSemi r')
        pure (.attr kw as :: ss, rest)
      | _ => none
    else if isKeyword s then none
    else do
      let (st, r') ← parseIdStmt fuel s r
      let (ss, rest) ← parseStmts fuel d (skipSemi r')
      pure (st :: ss, rest)
  | fuel + 1, d, .str s :: r => do
    let (st, r') ← parseIdStmt fuel s r
    let (ss, rest) ← parseStmts fuel d (skipSemi r')
    pure (st :: ss, rest)
  | _, _, _ => none

/-- a whole document: the name of the graph and its statements -/
def parseDot (toks : List Tok) : Option (Option (List Char) × List DStmt) :=
  let fuel := toks.length + 1
  let toks := match toks with
    | .id s :: r => if lowerChars s = "strict".toList then r else toks
    | _ => toks
  match toks with
  | .id g :: r =>
    if lowerChars g = "digraph".toList then
      match r with
      | .lbrace :: body => do
        let (ss, rest) ← parseStmts fuel 0 body
        if rest.isEmpty then pure (none, ss) else none
      | n :: .lbrace :: body => do
        let n' ← idOf? n
        let (ss, rest) ← parseStmts fuel 0 body
        if rest.isEmpty then pure (some n', ss) else none
      | _ => none
    else none
  | _ => none

/-- lexing then parsing of a whole string -/
def parseString (s : String) : Option (Option (List Char) × List DStmt) := (lexString s).bind parseDot

end AJ
