/-
  Static model, part 1: the requirement graph of a scheduler tree and the graph algorithms of
  `asynciojobs/purescheduler.py` / `scheduler.py`:

    topological_order, check_cycles (pure and nestable), _set_sched_ids/_set_sched_id, list(),
    sanitize, _neighbours / predecessors / successors, _neighbours_closure /
    predecessors_upstream / successors_downstream, _backlinks, entry_jobs, exit_jobs,
    iterate_jobs.

  Core Lean only (no Mathlib): this file is linked into the `ajdriver` executable.

  Python's unspecified set-iteration order is an explicit input: `mem s` is the list
  `list(s.jobs)` and `req j` the list `list(j.required)` *in the order Python iterates them*.
-/
namespace AJ

/-- A tree of job sets with arbitrary requirement edges. Ids are names (natural numbers). -/
structure T where
  /-- ids are `< n` -/
  n        : Nat
  /-- nestable `Scheduler` (or the top-level scheduler) vs atomic job -/
  isSched  : Nat → Bool
  /-- `list(s.jobs)`, in Python's iteration order; `[]` for atomic jobs -/
  mem      : Nat → List Nat
  /-- `list(j.required)`, in Python's iteration order -/
  req      : Nat → List Nat
  forever  : Nat → Bool
  critical : Nat → Bool

/-- Errors the modelled functions can raise (a small enum, as the harness canonicalises them). -/
inductive Err
  | cycle        -- `raise Exception("scheduler could not be scanned …")`
  | fuel         -- the model ran out of fuel (proved unreachable; never produced on a real input)
  | valueError   -- `ValueError`
  | keyError     -- `KeyError`
  | indexError   -- `IndexError`
  | malformed    -- the input is not a tree (rejected, never defaulted)
  deriving DecidableEq, Repr, Inhabited

def Err.toString : Err → String
  | .cycle => "cycle" | .fuel => "fuel" | .valueError => "ValueError"
  | .keyError => "KeyError" | .indexError => "IndexError" | .malformed => "malformed"

instance : ToString Err := ⟨Err.toString⟩

/-! ### small list-as-set helpers -/

/-- append `x` unless already present (Python `set.add` on an insertion-ordered view) -/
def addNew (l : List Nat) (x : Nat) : List Nat := if x ∈ l then l else l ++ [x]

/-- append the elements of `xs` that are not present yet, one after the other -/
def unionNew (l xs : List Nat) : List Nat := xs.foldl addNew l

/-! ### topological_order (purescheduler.py:315-370) -/

/-- `not has_unmarked_requirements`: every requirement has a non-`None` mark.
    `ext` lists the *non-member* jobs whose stale `_s_mark` is not `None`
    (empty for a closed scheduler, and for fresh jobs). -/
def canMark (t : T) (ext marked : List Nat) (j : Nat) : Bool :=
  (t.req j).all fun r => r ∈ marked || r ∈ ext

/-- one `for job in self.jobs` sweep; `marked` is also the sequence of jobs yielded so far -/
def sweep (t : T) (ext : List Nat) (todo marked : List Nat) : List Nat :=
  todo.foldl (fun acc j => if j ∈ acc then acc else if canMark t ext acc j then acc ++ [j] else acc)
    marked

/-- the `while True` loop; one unit of fuel per sweep -/
def topoLoop (t : T) (s : Nat) (ext : List Nat) : Nat → List Nat → Except Err (List Nat)
  | 0, _ => .error .fuel
  | fuel + 1, marked =>
    let marked' := sweep t ext (t.mem s) marked
    if marked'.length ≥ (t.mem s).length then .ok marked'
    else if marked'.length = marked.length then .error .cycle
    else topoLoop t s ext fuel marked'

/-- `list(s.topological_order())`, or the exception it raises.
    Fuel `|mem s| + 1` is proved sufficient (`C15_topo_fuel`). -/
def topo (t : T) (s : Nat) (ext : List Nat := []) : Except Err (List Nat) :=
  topoLoop t s ext ((t.mem s).length + 1) []

/-- `PureScheduler.check_cycles` (purescheduler.py:288-312) -/
def checkCyclesPure (t : T) (s : Nat) (ext : List Nat := []) : Bool :=
  match topo t s ext with | .ok _ => true | .error _ => false

/-- `Scheduler.check_cycles` (scheduler.py:216-231): the scheduler itself, then recursively
    every nested `Scheduler` met while iterating the topological order.
    (The Python generator is lazy; the boolean is the same: `False` as soon as the outer order
    raises or a nested check fails.) Fuel bounds the nesting depth. -/
def checkCyclesNested (t : T) : Nat → Nat → Bool
  | 0, _ => false
  | fuel + 1, s =>
    match topo t s with
    | .error _ => false
    | .ok l => l.all fun j => !(t.isSched j) || checkCyclesNested t fuel j

/-! ### _set_sched_ids / _set_sched_id (purescheduler.py:1101-1123, job.py, scheduler.py:138-150) -/

/-- numbers the jobs of scheduler `s` from `start`, in topological order, a nested scheduler
    receiving its own number and then its members'. Returns the next free number and the
    assignment list `(job, number)` in the order the numbers were given. -/
def assignIds (t : T) : Nat → Nat → Nat → Except Err (Nat × List (Nat × Nat))
  | 0, _, _ => .error .fuel
  | fuel + 1, s, start =>
    match topo t s with
    | .error e => .error e
    | .ok l =>
      l.foldlM (init := (start, ([] : List (Nat × Nat)))) fun (acc : Nat × List (Nat × Nat)) j =>
        if t.isSched j then
          match assignIds t fuel j (acc.1 + 1) with
          | .error e => .error e
          | .ok (nxt, sub) => .ok (nxt, acc.2 ++ (j, acc.1) :: sub)
        else .ok (acc.1 + 1, acc.2 ++ [(j, acc.1)])

/-- the order in which `list()` prints jobs (first line of each job; the `--end--` lines of
    nested schedulers are not part of it): topological order, nested members right after
    their scheduler. -/
def listing (t : T) : Nat → Nat → Except Err (List Nat)
  | 0, _ => .error .fuel
  | fuel + 1, s =>
    match topo t s with
    | .error e => .error e
    | .ok l =>
      l.foldlM (init := ([] : List Nat)) fun acc j =>
        if t.isSched j then
          match listing t fuel j with
          | .error e => .error e
          | .ok sub => .ok (acc ++ j :: sub)
        else .ok (acc ++ [j])

/-! ### sanitize (purescheduler.py:239-285) -/

/-- replace `req j` -/
def T.setReq (t : T) (j : Nat) (r : List Nat) : T :=
  { t with req := fun k => if k = j then r else t.req k }

/-- replace `mem s` -/
def T.setMem (t : T) (s : Nat) (m : List Nat) : T :=
  { t with mem := fun k => if k = s then m else t.mem k }

/-- `sanitize()`: returns the new tree and the boolean result (`True` = nothing removed).
    The loop over `self.jobs` is a fold carrying `(tree, changes)`.
    Transcribes the code after the repair of defect D4 (`not job.sanitize() or changes`). -/
def sanitize (t : T) : Nat → Nat → T × Bool
  | 0, _ => (t, true)
  | fuel + 1, s =>
    let members := t.mem s
    let r := members.foldl (init := (t, false)) fun (acc : T × Bool) j =>
      let before := (acc.1.req j).length
      let newReq := (acc.1.req j).filter (· ∈ members)
      let t1 := acc.1.setReq j newReq
      let ch1 := acc.2 || (before != newReq.length)
      if t1.isSched j then
        let sub := sanitize t1 fuel j
        (sub.1, (!sub.2) || ch1)
      else (t1, ch1)
    (r.1, !r.2)

/-! ### neighbours and closures (purescheduler.py:416-476, 652-661) -/

/-- `_s_successors` of `x` after `_backlinks()` (for a member, or a fresh non-member):
    the members that require `x`. -/
def succOf (t : T) (s : Nat) (x : Nat) : List Nat :=
  (t.mem s).filter fun j => x ∈ t.req j

/-- the attribute `_neighbours` iterates: `required` (`up = true`) or `_s_successors` -/
def links (t : T) (s : Nat) (up : Bool) (x : Nat) : List Nat :=
  if up then t.req x else succOf t s x

/-- `_neighbours(attname, *starts)` as a duplicate-free list -/
def neigh (t : T) (s : Nat) (up : Bool) (starts : List Nat) : List Nat :=
  starts.foldl (fun acc a => unionNew acc ((links t s up a).filter (· ∈ t.mem s))) []

/-- the `while True` of `_neighbours_closure`; one unit of fuel per pass -/
def closureLoop (t : T) (s : Nat) (up : Bool) : Nat → List Nat → List Nat
  | 0, cl => cl
  | fuel + 1, cl =>
    let cl' := cl.foldl (fun acc a => unionNew acc (neigh t s up [a])) cl
    if cl'.length = cl.length then cl else closureLoop t s up fuel cl'

/-- `_neighbours_closure(attname, *starts)`; fuel `|mem s| + 1` is proved sufficient. -/
def closure (t : T) (s : Nat) (up : Bool) (starts : List Nat) : List Nat :=
  closureLoop t s up ((t.mem s).length + 1) (neigh t s up starts)

def predecessors (t : T) (s : Nat) (starts : List Nat) : List Nat := neigh t s true starts
def successors (t : T) (s : Nat) (starts : List Nat) : List Nat := neigh t s false starts
def upstream (t : T) (s : Nat) (starts : List Nat) : List Nat := closure t s true starts
def downstream (t : T) (s : Nat) (starts : List Nat) : List Nat := closure t s false starts

/-- `entry_jobs()` -/
def entryJobs (t : T) (s : Nat) : List Nat := (t.mem s).filter fun j => (t.req j).isEmpty

/-- `exit_jobs(discard_forever=…)` with `compute_backlinks=True` -/
def exitJobs (t : T) (s : Nat) (discardForever : Bool) : List Nat :=
  (t.mem s).filter fun j => !(discardForever && t.forever j) && (succOf t s j).isEmpty

/-- `iterate_jobs(scan_schedulers=…)` (purescheduler.py:1255-1267, scheduler.py:198-203) -/
def iterateJobs (t : T) (scan : Bool) : Nat → Nat → List Nat
  | 0, _ => []
  | fuel + 1, s =>
    (if scan then [s] else []) ++
      (t.mem s).flatMap fun j => if t.isSched j then iterateJobs t scan fuel j else [j]

/-! ### well-formed trees (what the harness generates; decidable) -/

/-- `s`'s members have larger ids, below `n`, no duplicates; atomic jobs have no members -/
def T.wfAt (t : T) (s : Nat) : Bool :=
  if t.isSched s then (t.mem s).all (fun k => s < k && k < t.n) && (t.mem s).eraseDups.length == (t.mem s).length
  else (t.mem s).isEmpty

/-- every id `< n` is well formed, and no job is a member of two schedulers -/
def T.wf (t : T) : Bool :=
  (List.range t.n).all (fun s => t.wfAt s) &&
  (List.range t.n).all (fun k =>
    ((List.range t.n).filter (fun s => k ∈ t.mem s)).length ≤ 1)

end AJ
