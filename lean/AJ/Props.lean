/- all property theorems (one file per property under AJ/Props/; generated) -/
import AJ.Props.C01
import AJ.Props.C02
import AJ.Props.C07
import AJ.Props.C12
import AJ.Props.C14
import AJ.Props.C15
import AJ.Props.C16
import AJ.Props.C17
import AJ.Props.C18
import AJ.Props.C19
import AJ.Props.C20
