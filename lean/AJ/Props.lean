/- all property theorems (one file per property under AJ/Props/) -/
import AJ.Props.C16
import AJ.Props.C17
import AJ.Props.C18
import AJ.Props.C19
import AJ.Props.C15
import AJ.Props.C20
