-- root of the `AJ` library
import AJ.Model.Graph
import AJ.Model.Surgery
import AJ.Model.Build
import AJ.Model.Dot
import AJ.Model.DotLex
import AJ.Model.DotParse
import AJ.Spec
import AJ.Model.Run
import AJ.Model.Full
import AJ.Model.Flat
import AJ.Model.Why
import AJ.Model.Stats
import AJ.Props
