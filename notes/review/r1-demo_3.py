"""
demo_3 (about e71c011): the new deadline check comes AFTER the 'are we done ?'
test, so a deadline that is behind us is ignored when the completions that
wait() reports happen to be the last ones.  Same situation as in the commit
message (a job step that keeps the event loop busy), one job shorter:

  run 1:  a -> b     a's step ends 0.4s after the deadline: TIMED OUT  (repaired)
  run 2:  a          a's step ends 0.4s after the deadline: True, 'FINE'

In run 2 the only job finished 0.4s AFTER the timeout expired and the run
reports success, failed_time_out() is False.   C04 ('success iff all its
non-forever jobs finished before its timeout expired'), C08 ('if its run is not
over T seconds after it began ... ends with the timeout verdict').
No race: the margin is 0.4s on a 0.1s timeout.
"""
import asyncio
import time
import asynciojobs
from asynciojobs import Scheduler, Job

print("library:", asynciojobs.__file__)


async def busy(name, t0):
    time.sleep(0.5)         # one step that keeps the loop busy
    print("   %s finishes at %.2f" % (name, time.time() - t0))


async def quick(name, t0):
    print("   %s runs at %.2f" % (name, time.time() - t0))


async def main():
    t0 = time.time()
    a = Job(busy("a", t0), label="a")
    b = Job(quick("b", t0), label="b", required=a)
    two = Scheduler(a, b, timeout=0.1, critical=False)
    print("run 1: a -> b, timeout=0.1")
    print("   returned", await two.co_run(), "-", two.why())

    t0 = time.time()
    a = Job(busy("a", t0), label="a")
    one = Scheduler(a, timeout=0.1, critical=False)
    print("run 2: a alone, timeout=0.1")
    result = await one.co_run()
    elapsed = time.time() - t0
    print("   returned %s after %.2fs - %s - failed_time_out() = %s"
          % (result, elapsed, one.why(), one.failed_time_out()))
    if result is True and elapsed > 0.1:
        print("DEFECT: success although the only job finished %.2fs after "
              "the timeout expired" % (elapsed - 0.1))
    assert not (result is True and elapsed > 0.1)

asyncio.run(main())
