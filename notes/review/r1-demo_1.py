"""
demo_1 (about 3b57b19): the critical-failure verdict of a nested scheduler is
still lost when the enclosing scheduler ends during the 2 event-loop iterations
that separate the failure of the nested critical job from the moment the nested
main loop wakes up and notices it - i.e. not 'while it cleans up' but just
before: the CancelledError is delivered by asyncio.wait() in place of the done
set, and nothing looks at the jobs any more.

P = { k (critical), N = { c (critical), other } }
k and c wait on the same Event; k raises at once, c raises `lag` loop iterations
later (0, 1, 2: P has not reacted yet; 3: c is cancelled before it can raise).
The order of events is fixed by the event loop: no wall-clock race is involved.
Whenever c has raised, N has a critical job that raised and N did not succeed,
yet N.failed_critical() is False and N.why() is 'FINE'.                 (C04)
"""
import asyncio
import asynciojobs
from asynciojobs import Scheduler, AbstractJob

print("library:", asynciojobs.__file__)


class Boom(AbstractJob):
    """waits for the event, then `lag` more loop iterations, then raises"""
    def __init__(self, name, lag, event, **kw):
        self.name, self.lag, self.event = name, lag, event
        super().__init__(label=name, **kw)

    async def co_run(self):
        await self.event.wait()
        for _ in range(self.lag):
            await asyncio.sleep(0)
        print("   job", self.name, "raises")
        raise RuntimeError(self.name)

    async def co_shutdown(self):
        pass


async def scenario(lag_c):
    event = asyncio.Event()
    k = Boom("k", 0, event, critical=True)
    c = Boom("c", lag_c, event, critical=True)
    other = Boom("other", 0, asyncio.Event())   # never ends by itself
    nested = Scheduler(c, other, critical=False, label="N")
    top = Scheduler(k, nested, critical=False, label="P")
    asyncio.get_running_loop().call_later(0.1, event.set)
    result = await top.co_run()
    print("   P returned", result, "-", top.why())
    print("   c.raised_exception() =", repr(c.raised_exception()),
          " N.is_done() =", nested.is_done())
    print("   N.failed_critical() =", nested.failed_critical(),
          " N.why() =", repr(nested.why()))
    return c.raised_exception() is not None, nested.failed_critical()

outcomes = {}
for lag in (0, 1, 2, 3):
    print("c raises", lag, "loop iteration(s) after k")
    outcomes[lag] = asyncio.run(scenario(lag))
print("lag: (c raised, N.failed_critical()) =", outcomes)
bad = [lag for lag, (raised, verdict) in outcomes.items() if raised != verdict]
if bad:
    print("DEFECT: N's critical job raised, N reports FINE, for lag(s)", bad)
assert not bad
