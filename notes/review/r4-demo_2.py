"""
Sibling of 04dde10: AbstractJob.requires(..., remove=True) now works for a
Sequence *argument*, but the twin method Sequence.requires() - documented as
'adds requirements to the sequence, that is to say to its first job', and the
class as usable 'in every place where a job could be' - has no remove= at all:
the call that works on a job raises TypeError on a sequence, so a requirement
given to a sequence can only be taken back by reaching into seq.jobs[0].
"""
import warnings
import asynciojobs
from asynciojobs import Job, Sequence
warnings.simplefilter("ignore")
print(asynciojobs.__file__)

async def co():
    pass

a, b, r = (Job(co(), label=x) for x in "abr")
seq = Sequence(a, b)
seq.requires(r)
print("a requires:", sorted(j.label for j in a.required))
try:
    seq.requires(r, remove=True)
    outcome = "ok"
except TypeError as exc:
    outcome = "TypeError: {}".format(exc)
print("seq.requires(r, remove=True) ->", outcome)
print("a requires:", sorted(j.label for j in a.required))
if a.required:
    print("DEFECT: remove=True is not available on Sequence.requires()")
assert not a.required
