"""NOTE (no property contradicted): a job of a nested scheduler raises in the very instant the
enclosing scheduler ends; the nested run is cancelled before it has seen that completion, and
co_run()'s cancellation path only looks at the tasks that are NOT done: the exception of the done
one is never retrieved, asyncio logs 'Task exception was never retrieved' when it is collected."""
import asyncio, gc, sys
sys.path.insert(0, '/tmp/rev/w2')
import asynciojobs
from asynciojobs import Scheduler, Job
print(asynciojobs.__file__)

async def boom():
    raise RuntimeError("boom")          # raises at its first step
async def nap(t):
    await asyncio.sleep(t)

bad = Job(boom(), critical=False, label="bad")
nested = Scheduler(bad, Job(nap(1), label="slow"), critical=False, label="nested")
top = Scheduler(nested, timeout=0, critical=False)     # expires at once: nested is cancelled
messages = []
loop = asyncio.new_event_loop(); asyncio.set_event_loop(loop)
loop.set_exception_handler(lambda l, ctx: messages.append(ctx['message']))
print("run ->", top.run(), "|", top.why())
exc = repr(bad.raised_exception()); del bad, nested, top; gc.collect()   # when the objects go away
print("loop exception handler got:", messages)
if messages:
    print("NOTE: unretrieved task exception")
