"""NOTE (documented 'arguable choice', C13 read literally): co_shutdown() answers True although a
handler of a nested scheduler had to be cancelled; and a second call answers None, not a bool."""
import asyncio, sys
sys.path.insert(0, '/tmp/rev/w2')
from asynciojobs import Scheduler, AbstractJob
class H(AbstractJob):
    cancelled = False
    async def co_run(self): pass
    async def co_shutdown(self):
        try: await asyncio.sleep(5)
        except asyncio.CancelledError: self.cancelled = True; raise
h = H()
top = Scheduler(Scheduler(h, shutdown_timeout=0.1), shutdown_timeout=2)
r1 = top.shutdown(); r2 = top.shutdown()
print("handler cancelled:", h.cancelled, "| co_shutdown ->", r1, "| second call ->", r2)
