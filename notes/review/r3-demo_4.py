"""
Noticed while fuzzing second runs (not one of my commits; path added by 161146c):
a nested scheduler that is cancelled by its parent in the very loop iteration in
which one of its own jobs raises never retrieves that exception; asyncio then
logs 'Task exception was never retrieved' when the task is collected.  Results
and predicates stay truthful; it is noise on stderr, nothing more.
Deterministic: everything hangs on one asyncio.Event.
"""
import asyncio, gc, sys
sys.path.insert(0, '/tmp/rev/w3')
from asynciojobs import AbstractJob, PureScheduler, Scheduler

class Waiter(AbstractJob):
    def __init__(self, event, **kwds):
        super().__init__(**kwds); self.event = event
    async def co_run(self):
        await self.event.wait()
        raise RuntimeError(self.label)
    async def co_shutdown(self): pass

class Setter(AbstractJob):
    def __init__(self, event, **kwds):
        super().__init__(**kwds); self.event = event
    async def co_run(self):
        await asyncio.sleep(0.05); self.event.set()
    async def co_shutdown(self): pass

async def main():
    event = asyncio.Event()
    seen = []
    asyncio.get_running_loop().set_exception_handler(lambda l, c: seen.append(c['message']))
    crit = Waiter(event, label='crit', critical=True)
    inner = Waiter(event, label='inner', critical=False)
    nested = Scheduler(inner, critical=False, label='nested')
    top = PureScheduler(crit, nested, Setter(event, critical=False))
    print("run ->", await top.co_run(), top.why(), "| inner:", inner.is_done(), repr(inner.raised_exception()))
    del crit, inner, nested, top  # or run the scheduler a second time
    gc.collect(); await asyncio.sleep(0)
    print("loop exception handler saw:", seen)
    if seen: print("DEFECT (cosmetic): exception of a finished job never retrieved")
asyncio.run(main())
