"""
demo_2 (about f35bdca, with the situation of e71c011): same hole as demo_1 for
the timeout verdict.  N has timeout=0.1; a step of job k, in the enclosing
scheduler P, keeps the event loop busy from 0.05 to 0.45 and then raises (k is
critical in P).  When the loop gets control back N's deadline is 0.35s behind:
N's wait() is released by its timer, but P is woken up first and cancels N,
whose wait() delivers CancelledError instead of the empty done set.
N's run was not over 0.1s after it began, it has not succeeded, and yet
N.failed_time_out() is False and N.why() is 'FINE'            (C08, C04)
Margins are 0.35s wide, the order P-before-N is fixed by the event loop.
"""
import asyncio
import time
import asynciojobs
from asynciojobs import Scheduler, Job

print("library:", asynciojobs.__file__)
T0 = time.time()


def stamp(*args):
    print("%.2f" % (time.time() - T0), *args)


async def busy_then_raise():
    await asyncio.sleep(0.05)
    stamp("k: a step that keeps the loop busy for 0.4s")
    time.sleep(0.4)
    stamp("k raises")
    raise RuntimeError("k")


async def never_ends():
    try:
        await asyncio.Event().wait()
    finally:
        stamp("a is cancelled")


async def main():
    a = Job(never_ends(), label="a")
    nested = Scheduler(a, timeout=0.1, critical=False, label="N")
    k = Job(busy_then_raise(), label="k", critical=True)
    top = Scheduler(k, nested, critical=False, label="P")
    result = await top.co_run()
    stamp("P returned", result, "-", top.why())
    stamp("N.is_done() =", nested.is_done(),
          " N.failed_time_out() =", nested.failed_time_out(),
          " N.why() =", repr(nested.why()))
    if not nested.failed_time_out():
        print("DEFECT: N was still running 0.45s after it began with "
              "timeout=0.1, did not succeed, and reports", nested.why())
    assert nested.failed_time_out()

asyncio.run(main())
