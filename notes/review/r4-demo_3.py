"""
The reverse side of eaa19e1.  That repair keeps the requirements that an
EMPTY sequence *receives* (Sequence(required=r), seq.requires(r)) for its
first job.  The symmetric case is still dropped silently: an empty sequence
*given* as a requirement (job.requires(seq), Job(required=seq),
Sequence(required=seq)) adds nothing, and stays nothing once the sequence is
filled with append().  A script that declares its sequences first, wires
them, and fills them afterwards gets no ordering at all between them.
"""
import asyncio
import asynciojobs
from asynciojobs import Scheduler, Job, Sequence
print(asynciojobs.__file__)

trace = []

async def step(name):
    trace.append("begin " + name)
    await asyncio.sleep(0.05)
    trace.append("end " + name)

prepare = Sequence()                      # declared first, filled below
work = Sequence(required=prepare)         # 'work' comes after 'prepare'
prepare.append(Job(step("p1"), label="p1"), Job(step("p2"), label="p2"))
work.append(Job(step("w1"), label="w1"))

w1 = work.jobs[0]
print("w1 requires:", sorted(j.label for j in w1.required))
sched = Scheduler(prepare, work)
print("run ->", sched.run())
print(trace)
ok = trace.index("begin w1") > trace.index("end p2")
if not ok:
    print("DEFECT: w1 started before the 'prepare' sequence it was "
          "declared to require had finished")
assert ok
