"""
7dbbff4 (timeout=0): the expiry is reported correctly when it is noticed, but a
run with timeout=0 whose jobs need no more than the first iteration of the event
loop is not noticed to have expired at all: it reports SUCCESS.
C04: success iff all non-forever jobs finished *before* the timeout expired
     (explicitly for all t >= 0 including 0): with t=0 nothing can.
C08: "not over T seconds after it began" -> timeout verdict; with T=0 the run
     is not over 0 seconds after it began (the job has not even started).
The library is not even consistent with itself: the very same job, once it is
followed by a second instant job, gives the timeout verdict.
Deterministic: no sleeping, no clock race (the deadline is in the past as soon
as it is computed).
"""
import sys
sys.path.insert(0, '/tmp/rev/w3')
import asynciojobs
from asynciojobs import AbstractJob, PureScheduler, Scheduler
print(asynciojobs.__file__)


class Instant(AbstractJob):
    async def co_run(self):
        return self.label

    async def co_shutdown(self):
        pass


# reference: two instant jobs in a row -> timed out (fine)
a = Instant(label='a')
b = Instant(label='b', required=a)
two = PureScheduler(a, b, timeout=0)
print("2 instant jobs, timeout=0 ->", two.run(), "|", two.why())

# one instant job -> reported as a success
one = PureScheduler(Instant(label='a'), timeout=0)
res = one.run()
print("1 instant job , timeout=0 ->", res, "|", one.why(),
      "| failed_time_out() =", one.failed_time_out())

# same thing with a critical nested scheduler: no TimeoutError
nested = Scheduler(Instant(label='x'), Instant(label='y'), timeout=0,
                   critical=True, label='nested')
top = PureScheduler(nested)
print("critical nested scheduler, timeout=0 ->", top.run(),
      "| nested.raised_exception() =", nested.raised_exception(),
      "| nested.result() =", nested.result())

if res is True or not one.failed_time_out():
    print("DEFECT: a run whose timeout of 0 has expired before any job could "
          "finish reports success / why() == 'FINE'")
assert res is False and one.failed_time_out()
