"""
a63552f / aec5815 (a second run starts from clean state): _reset_tasks() now
clears _task and _running down the tree, but the twin per-run attributes of the
nested SCHEDULERS, _failed_timeout and _failed_critical, are still only cleared
when that nested scheduler starts again.  During a second run, and after it if
the nested scheduler is never reached, it keeps claiming the verdict of the
previous run: failed_time_out() is True and why() says TIMED OUT for a
scheduler that is_idle() in this run - the very symptom a63552f repaired for
is_done()/result().
C04: failed_time_out(), failed_critical() and why() name exactly the cause of the
     failure of the run, and none otherwise;  C14-like consistency: the object says
     at the same time "never scheduled" and "timed out".
Margins: 0.05s timeout against a job that never ends; no race.
"""
import asyncio
import sys
sys.path.insert(0, '/tmp/rev/w3')
from asynciojobs import AbstractJob, PureScheduler, Scheduler


class J(AbstractJob):
    def __init__(self, script, **kwds):
        super().__init__(**kwds)
        self.script, self.runs = script, 0

    async def co_run(self):
        self.runs += 1
        what = self.script[self.runs - 1]
        if what == 'never':
            await asyncio.Event().wait()
        if what == 'raise':
            raise RuntimeError(self.label)
        return self.label

    async def co_shutdown(self):
        pass


a = J(['ok', 'raise'], label='a', critical=True)
x = J(['never', 'never'], label='x')
nested = Scheduler(x, timeout=0.05, critical=False, label='nested', required=a)
top = PureScheduler(a, nested)

print("run 1 ->", top.run(), "| top:", top.why(), "| nested:", nested.why())
# run 2: a raises at once, the nested scheduler is never started
print("run 2 ->", top.run(), "| top:", top.why(), "| nested:", nested.why())
print("nested.is_idle() =", nested.is_idle(),
      " nested.failed_time_out() =", nested.failed_time_out(),
      " x.is_idle() =", x.is_idle())
if nested.is_idle() and nested.failed_time_out():
    print("DEFECT: a nested scheduler that was never started in this run "
          "reports that it TIMED OUT (verdict of the previous run)")
assert not nested.failed_time_out() and nested.why() == "FINE"
