"""
Sibling of 744fe81 (a documented bool/None API answering with the wrong falsy
value): shutdown()/co_shutdown() are documented to return a bool, "True if
everything went well, False otherwise".  Since every run now ends with the
shutdown phase, the explicit shutdown() that the documentation tells users to
call afterwards finds _did_shutdown set and falls on a bare `return`: it
answers None although nothing went wrong (and nothing had to be cancelled), so
`if not sched.shutdown(): complain()` complains after every successful run -
and the verdict of the shutdown phase that did take place inside run() is
dropped, so it cannot be learnt at all.
C13: "... co_shutdown() reporting True iff none had to be [cancelled], and a
later explicit shutdown() sends nothing more".
"""
import sys
sys.path.insert(0, '/tmp/rev/w3')
from asynciojobs import AbstractJob, PureScheduler


class J(AbstractJob):
    shut = 0

    async def co_run(self):
        return 1

    async def co_shutdown(self):
        self.shut += 1


fresh = PureScheduler(J())
print("shutdown() on a scheduler that never ran ->", fresh.shutdown())

j = J()
sched = PureScheduler(j)
print("run() ->", sched.run(), " handlers called:", j.shut)
answer = sched.shutdown()
print("later explicit shutdown() ->", answer, " handlers called:", j.shut)
if answer is not True:
    print("DEFECT: nothing went wrong, nothing was cancelled, and shutdown() "
          "does not report True")
assert answer is True
