"""
Sibling of 04dde10 (a Sequence argument was not honoured by the 'remove' path
of AbstractJob.requires): PureScheduler.remove() is documented as taking
'a single Schedulable object' (AbstractJob or Sequence), exactly like add();
add(seq) / update([seq]) / the constructor flatten a Sequence into its jobs,
but remove(seq) looks the Sequence object itself up in the set of jobs and so
ALWAYS raises KeyError, leaving the jobs in place.
"""
import warnings
import asynciojobs
from asynciojobs import Scheduler, Job, Sequence
warnings.simplefilter("ignore")          # un-awaited demo coroutines
print(asynciojobs.__file__)

async def co():
    pass

a, b, c = (Job(co(), label=x) for x in "abc")
seq = Sequence(a, b)
sched = Scheduler(c)
sched.add(seq)                            # registers a and b
print("after add(seq)   :", sorted(j.label for j in sched.jobs))
try:
    sched.remove(seq)                     # documented: a single Schedulable
    outcome = "removed"
except KeyError as exc:
    outcome = "KeyError({})".format(exc)
print("remove(seq)      :", outcome)
print("after remove(seq):", sorted(j.label for j in sched.jobs))
ok = sorted(j.label for j in sched.jobs) == ['c']
if not ok:
    print("DEFECT: remove(Sequence) does not undo add(Sequence)")
assert ok
