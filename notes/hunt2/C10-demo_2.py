"""
C10 - 'the same exception object bubbling up' : PureScheduler.co_run() decides that a
job is critical with job.is_critical() (the documented accessor), Scheduler.co_run()
looks for the culprit with the bare attribute job.critical.  A job class that
redefines is_critical() makes the nested scheduler fail (rightly) and then raise
ValueError('Internal error in Scheduler.co_run()') instead of the job's exception.
"""
import asyncio, io, contextlib
import asynciojobs
from asynciojobs import Scheduler, Job
print("using", asynciojobs.__file__)

class Boom(Exception): pass

class VitalJob(Job):
    """a family of jobs that are always critical, whatever the flag says"""
    def is_critical(self):
        return True

async def boom(exc):
    await asyncio.sleep(0.05)
    raise exc

exc = Boom("vital job failed")
vital = VitalJob(boom(exc), label="vital", critical=False)
inner = Scheduler(vital, label="inner", critical=True)
top = Scheduler(inner, label="top", critical=False)
with contextlib.redirect_stdout(io.StringIO()):
    ok = top.run()
print("top.run() ->", ok, "| inner.why() ->", inner.why())
print("vital.raised_exception() ->", repr(vital.raised_exception()))
print("inner.raised_exception() ->", repr(inner.raised_exception()))
assert ok is False and inner.failed_critical()
assert inner.raised_exception() is exc, \
    "DEFECT: the nested scheduler does not bubble the exception of its failing critical job"
