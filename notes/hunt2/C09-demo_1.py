"""
C09 - a forever job that is still waiting for a slot in the window when the
last regular job finishes is STARTED (its body runs) after that instant,
and only then cancelled.  The property says: "those not yet started never
start".

PYTHONPATH=/tmp/hunt2/C09 /venv/bin/python demo_1.py
"""
import asyncio
import asynciojobs
from asynciojobs import Scheduler, AbstractJob

print("using", asynciojobs.__file__)
events = []


class Logged(AbstractJob):
    """a job that records when its body is entered / left"""
    def __init__(self, **kwds):
        self.name = None
        self.gate = None       # an Event to wait for; None = never ends
        super().__init__(**kwds)

    async def co_run(self):
        events.append(self.name + ":enter")     # think: open a connection
        try:
            await (self.gate or asyncio.Event()).wait()
            events.append(self.name + ":exit")
        except asyncio.CancelledError:
            events.append(self.name + ":cancelled")
            raise

    async def co_shutdown(self):
        pass


async def main():
    sched = Scheduler(Logged(), Logged(), jobs_window=1)
    # jobs are kept in a set: give the roles according to the order in which
    # the scheduler is going to create the tasks, so that the demo does not
    # depend on hashes: the first one gets the only slot
    regular, monitor = list(sched.jobs)
    regular.name, regular.gate = "regular", asyncio.Event()
    monitor.name, monitor.forever = "monitor", True     # never ends

    async def driver():
        await asyncio.sleep(0.2)
        events.append("-- regular job is told to finish")
        regular.gate.set()
    drv = asyncio.ensure_future(driver())
    result = await asyncio.wait_for(sched.co_run(), 5)
    events.append("-- run returned {}".format(result))
    await drv

asyncio.run(main())
for e in events:
    print(e)

assert events.index("regular:enter") < events.index("regular:exit")
if "monitor:enter" in events:
    print("DEFECT: the forever job was started although the last regular job"
          " had already finished (window of 1)")
assert "monitor:enter" not in events, \
    "forever job started after the last non-forever job had finished"
