"""
C06 demo 1 - in verbose mode, a non-critical job that raises an exception whose
str() fails takes the whole scheduler down: the scheduler formats the exception
for its feedback line (AbstractJob.repr_result) inside co_run().

Run with:  PYTHONPATH=/tmp/hunt2/C06 /venv/bin/python demo_1.py
"""
import asyncio
import io
import contextlib
import asynciojobs
from asynciojobs import Scheduler, Job, Sequence

print("using", asynciojobs.__file__)


class CommandFailed(Exception):
    """what a remote command gives back: an exit code and raw stderr"""
    def __init__(self, code, stderr):
        super().__init__(code, stderr)
        self.code, self.stderr = code, stderr

    def __str__(self):
        # fine with ascii output, fails on the bytes below
        return "exit {}: {}".format(self.code, self.stderr.decode())


async def command(fail):
    await asyncio.sleep(0.01)
    if fail:
        raise CommandFailed(1, b"caf\xe9: no such file")
    return 0


async def after():
    await asyncio.sleep(0.01)
    return "after"


def one_run(fail, verbose):
    begin = Job(command(False), label="begin")
    middle = Job(command(fail), label="middle", critical=False)
    end = Job(after(), label="end")
    sched = Scheduler(Sequence(begin, middle, end),
                      critical=False, verbose=verbose)
    with contextlib.redirect_stdout(io.StringIO()):     # hide the feedback
        try:
            verdict = sched.run()
        except Exception as exc:                        # pylint: disable=w0703
            verdict = "co_run() RAISED {}: {}".format(type(exc).__name__, exc)
    return dict(verdict=verdict, why=sched.why(),
                end_done=end.is_done(),
                end_result=end.result() if end.is_done() else None,
                middle_exc=type(middle.raised_exception()).__name__)


results = {}
for verbose in (False, True):
    for fail in (False, True):
        results[verbose, fail] = one_run(fail, verbose)
        print("verbose={!s:5} middle {:7} -> {}".format(
            verbose, "raises" if fail else "returns", results[verbose, fail]))

for verbose in (False, True):
    ret, exc = results[verbose, False], results[verbose, True]
    same = all(ret[k] == exc[k] for k in ("verdict", "why", "end_done",
                                          "end_result"))
    print("verbose={}: rest of the run unaffected: {}".format(verbose, same))
    if not same:
        print("DEFECT: job 'end' requires the failed non-critical job, "
              "it never ran, and run() does not return True")
    assert same
