"""
C06 demo 2 (borderline) - the exception that a critical nested scheduler re-raises
is looked up with the `critical` attribute, whereas the run loop uses is_critical():
for a job class that redefines is_critical(), a contained (non-critical) failure
changes the exception that the enclosing scheduler ends with.

Run with:  PYTHONPATH=/tmp/hunt2/C06 /venv/bin/python demo_2.py
"""
import asyncio
import asynciojobs
from asynciojobs import Scheduler, Job, PureScheduler

print("using", asynciojobs.__file__)


class BestEffortJob(Job):
    """a job whose failures never matter, whatever it was created with"""
    def is_critical(self):
        return False

    def __hash__(self):          # only to make the demo independent of id()
        return 0


async def body(delay, exc):
    await asyncio.sleep(delay)
    if exc is not None:
        raise exc
    return delay


def one_run(fail):
    probe = BestEffortJob(
        body(0.01, ValueError("best-effort probe") if fail else None),
        label="probe")
    main = Job(body(0.05, KeyError("the critical job")), label="main")
    inner = Scheduler(probe, main, label="inner")       # critical by default
    top = PureScheduler(inner)
    verdict = top.run()
    return verdict, top.why(), repr(inner.raised_exception())


returns, raises = one_run(False), one_run(True)
print("probe returns ->", returns)
print("probe raises  ->", raises)
if returns != raises:
    print("DEFECT: the outcome of a non-critical job changes what the "
          "enclosing scheduler raises")
assert returns == raises
