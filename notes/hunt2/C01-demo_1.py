"""
C01 - a job that requires a nested scheduler starts while a job of that nested
scheduler is still executing.

The nested scheduler is verbose.  One of its jobs returns a perfectly legitimate
string that the terminal cannot encode (here: a file name as returned by
os.fsdecode() for a non-UTF-8 name, i.e. with a lone surrogate; a label or a
result with non-ASCII characters on an ASCII / cp1252 stdout does the same).
The verbose "DONE" message then raises UnicodeEncodeError inside
PureScheduler._co_run(); co_run() only tidies up on CancelledError, so the run
of the nested scheduler ends right there, leaving its other job running, and
the enclosing scheduler starts the successor of the nested scheduler.
No wall-clock dependence: the jobs synchronize on an asyncio.Event.
"""
import asyncio
import sys
import asynciojobs
from asynciojobs import Scheduler, Job

print("using", asynciojobs.__file__)
# 'strict' is the default error handler of stdout except in the C/POSIX locale
sys.stdout.reconfigure(errors="strict")

LOG = []
release = asyncio.Event()


async def list_dir():
    LOG.append("quick: start")
    LOG.append("quick: end")
    return "report-\udcff.txt"          # == os.fsdecode(b"report-\xff.txt")


async def long_one():
    LOG.append("long: start")
    try:
        await release.wait()
    finally:
        LOG.append("long: end")


async def after():
    LOG.append("after: start")
    release.set()


quick = Job(list_dir(), label="quick", critical=False)
long_ = Job(long_one(), label="long", critical=False)
inner = Scheduler(quick, long_, label="inner", critical=False, verbose=True)
last = Job(after(), label="after", required=inner, critical=False)
main = Scheduler(inner, last, critical=False)


async def driver():
    result = await main.co_run()
    await asyncio.sleep(0.1)            # let an orphan, if any, finish
    return result

try:
    result = asyncio.run(driver())
except Exception as exc:                # pylint: disable=broad-except
    result = repr(exc)
print()
print("main.co_run() ->", result)
print("inner raised  ->", repr(inner.raised_exception()))
for line in LOG:
    print("  ", line)

ok = LOG.index("long: end") < LOG.index("after: start")
print("OK" if ok else
      "DEFECT: 'after' requires the nested scheduler 'inner', and started "
      "while job 'long' of 'inner' was still executing")
assert ok
