"""
C10 - 'the same exception object bubbling up' : a critical nested scheduler may
re-raise the exception of ANOTHER job than the one that made it fail.

inner (critical) holds
  * x : critical, raises E1 after 0.05s  -> this is what makes inner fail
  * y0..y6 : critical, wait on an event; when they get cancelled (because inner
    aborts), their clean-up fails and they end with E2 (think: closing a
    connection that is gone)
Scheduler.co_run() then looks for "a critical job that has an exception" by
iterating the (hash-ordered) set of jobs, and raises the first it meets.
"""
import asyncio, io, contextlib, warnings
import asynciojobs
from asynciojobs import Scheduler, Job
print("using", asynciojobs.__file__)
warnings.simplefilter("ignore", RuntimeWarning)   # jobs that never start

class E1(Exception): pass
class E2(Exception): pass

async def x(exc):
    await asyncio.sleep(0.05)
    raise exc

async def y(k):
    try:
        await asyncio.Event().wait()          # until cancelled
    finally:
        raise E2(f"clean-up of y{k} failed")  # e.g. conn.close() raising

wrong = 0
TRIALS = 20
loop = asyncio.new_event_loop()
asyncio.set_event_loop(loop)
loop.set_exception_handler(lambda *a: None)   # hush 'exception never retrieved'
for trial in range(TRIALS):
    e1 = E1("the failure that aborts inner")
    inner = Scheduler(Job(x(e1), label="x"),
                      *[Job(y(k), label=f"y{k}") for k in range(7)],
                      label="inner", critical=True)
    after = Job(asyncio.sleep(0), label="after", required=inner)
    top = Scheduler(inner, after, critical=False, label="top")
    with contextlib.redirect_stdout(io.StringIO()):
        ok = top.run()
    bubbled = inner.raised_exception()
    assert ok is False and top.failed_critical() and after.is_idle()
    if bubbled is not e1:
        wrong += 1
        if wrong == 1:
            print(f"trial {trial}: inner failed at t=0.05 because x raised {e1!r}")
            print(f"          but what bubbles up to top is {bubbled!r}")
print(f"{wrong}/{TRIALS} runs bubbled the wrong exception object")
assert wrong == 0, "DEFECT: the exception that bubbles is not the one that made the nested run fail"
