"""
C17 - successors() is a generator function: nothing happens when it is called.

* its result is not the set that its docstring announces ("returns a set of all
  the jobs in this scheduler that require any of the `starts` job"), so it is
  always truthy and never equal to a set, unlike predecessors();
* the reverse links are not recomputed when successors() is called, but when
  (and if) its result is consumed; a following query that is told to skip that
  stage (compute_backlinks=False, "when that relationship is known to be up to
  date already") works on links that were never computed / are stale.
"""
import asyncio
import asynciojobs
from asynciojobs import Scheduler, Job

print(asynciojobs.__file__)


async def co():
    pass


s = Scheduler()
a = Job(co(), label="a", scheduler=s)
b = Job(co(), label="b", scheduler=s, required=a)
c = Job(co(), label="c", scheduler=s, required=b)
lab = lambda jobs: sorted(j.label for j in jobs)

# (1) who comes right after a ?  this one recomputes the reverse links ...
after_a = s.successors(a)
# ... so the next queries need not do it again
down = s.successors_downstream(a, compute_backlinks=False)
exits = set(s.exit_jobs(compute_backlinks=False))
print("successors(a)            ->", after_a)
print("successors_downstream(a) ->", lab(down), " expected ['b', 'c']")
print("exit_jobs()              ->", lab(exits), " expected ['c']")

# (2) the last job has no successor
last_has_successors = bool(s.successors(c))
print("bool(successors(c))      ->", last_has_successors, " expected False")
print("successors(a) == {b}     ->", s.successors(a) == {b}, " expected True")
print("predecessors(b) == {a}   ->", s.predecessors(b) == {a})

problems = []
if down != {b, c}:
    problems.append("successors_downstream misses members reachable from a")
if exits != {c}:
    problems.append("exit_jobs yields members that a member requires")
if last_has_successors:
    problems.append("successors(c) is truthy although nothing requires c")
if problems:
    print("DEFECT:", "; ".join(problems))
assert not problems
