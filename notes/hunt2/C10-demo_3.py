"""
C10 - 'for critical nested schedulers without window, timeout or forever jobs, every
job runs at the same times as in the flattened graph'.
The clean-up of a nested run (co_shutdown of its jobs, and waiting for the jobs it
cancels) is part of the nested 'job', so it sits on the parent's critical path:
 (a) success: the successor of the nested scheduler waits for the co_shutdown()s
 (b) failure: the parent hears of the failure only after the nested clean-up; in the
     meantime it keeps STARTING jobs that the flattened graph never runs.
Everything is critical, no window, no timeout, no forever job.  Unit = 0.2 s.
"""
import asyncio, io, contextlib, time, warnings
import asynciojobs
from asynciojobs import Scheduler, Job, Sequence
print("using", asynciojobs.__file__)
warnings.simplefilter("ignore", RuntimeWarning)
U = 0.2
class Boom(Exception): pass

def experiment(build):
    started, t0 = {}, [0]
    async def body(name, ticks, fail=False, cleanup=0):
        started[name] = round((time.time() - t0[0]) / U)
        try:
            await asyncio.sleep(ticks * U)
        except asyncio.CancelledError:
            await asyncio.sleep(cleanup * U)       # e.g. say goodbye to a server
            raise
        if fail:
            raise Boom(name)
    def job(name, ticks, shutdown=0, **kw):
        return Job(body(name, ticks, **kw), label=name,
                   coshutdown=asyncio.sleep(shutdown * U))
    top = build(job)
    t0[0] = time.time()
    with contextlib.redirect_stdout(io.StringIO()):
        try:
            outcome = top.run()
        except Boom as exc:
            outcome = repr(exc)
    return outcome, dict(sorted(started.items()))

def a_nested(job):
    return Scheduler(Sequence(Scheduler(job("a", 2, shutdown=3), label="in"), job("b", 1)))
def a_flat(job):
    return Scheduler(Sequence(job("a", 2, shutdown=3), job("b", 1)))
def b_nested(job):
    inner = Scheduler(job("x", 2, fail=True), job("y", 9, cleanup=4), label="in")
    return Scheduler(inner, Sequence(job("p", 4), job("q", 9)))
def b_flat(job):
    return Scheduler(job("x", 2, fail=True), job("y", 9, cleanup=4),
                     Sequence(job("p", 4), job("q", 9)))

bad = 0
for nested, flat in (a_nested, a_flat), (b_nested, b_flat):
    rn, rf = experiment(nested), experiment(flat)
    print(f"{nested.__name__:9s}: outcome {rn[0]!s:10} start ticks {rn[1]}")
    print(f"{flat.__name__:9s}: outcome {rf[0]!s:10} start ticks {rf[1]}")
    bad += rn[1] != rf[1]
assert bad == 0, "DEFECT: jobs do not run at the same times as in the flattened graph"
