"""
NEAR MISS for C10 (why()/failed_critical() are not in its text) - twin of the repaired
'timeout verdict lost under a cancel during clean-up':
a nested scheduler whose critical job raised, and that gets cancelled by its parent
while it is still cleaning up (here: the parent times out), forgets why it failed:
_failed_critical is only set after _tidy_tasks() and co_shutdown().
"""
import asyncio, io, contextlib, warnings
import asynciojobs
from asynciojobs import Scheduler, Job
print("using", asynciojobs.__file__)
warnings.simplefilter("ignore", RuntimeWarning)
U = 0.2
class Boom(Exception): pass
async def x():
    await asyncio.sleep(1 * U)
    raise Boom("x")
async def y():
    try:
        await asyncio.sleep(20 * U)
    except asyncio.CancelledError:
        await asyncio.sleep(4 * U)       # slow clean-up: until t=5
        raise
jx = Job(x(), label="x")
inner = Scheduler(jx, Job(y(), label="y"), label="inner", critical=True)
top = Scheduler(inner, timeout=3 * U, critical=False, label="top")
with contextlib.redirect_stdout(io.StringIO()):
    ok = top.run()
print("top  :", ok, top.why())
print("x    :", repr(jx.raised_exception()), "critical:", jx.is_critical())
print("inner:", inner.why(), "| failed_critical() ->", inner.failed_critical())
assert inner.failed_critical(), \
    "DEFECT: inner aborted at t=1 because critical x raised, yet says FINE"
