#!/usr/bin/env python3
"""
C02 violation #1: a CRITICAL job raises an exception whose truth value is
False (any exception class with __len__ / __bool__, here an "error
collection" that happens to be empty).  PureScheduler._co_run() tests
`if done_job.raised_exception():` - the truth value of the exception object -
so the failure goes unnoticed: run() returns True, why() says FINE, and the
jobs that require the failed critical job are started as if nothing happened.

Property C02 says: if run() reports success, every non-forever job ran to its
own end, i.e. returned, or raised *while non-critical*.

run:  cd /tmp/hunt/C02 && PYTHONPATH=/tmp/hunt/C02 /venv/bin/python _out/demo_1.py
exits 1 and prints the discrepancy when the violation is observed.
"""
import asyncio
import sys

from asynciojobs import PureScheduler, Scheduler, Job


class ValidationErrors(Exception):
    """a collection of problems; perfectly legal python"""
    def __init__(self, *problems):
        super().__init__(*problems)
        self.problems = list(problems)

    def __len__(self):
        return len(self.problems)


class PlainError(Exception):
    pass


def scenario(exc_class, nested):
    log = []

    async def failing():
        log.append("a:enter")
        await asyncio.sleep(0.01)
        log.append("a:raise")
        raise exc_class()

    async def follower():
        log.append("b:enter")
        await asyncio.sleep(0.01)
        log.append("b:exit")

    a = Job(failing(), critical=True, label="a")
    b = Job(follower(), required=a, critical=True, label="b")
    if not nested:
        sched = PureScheduler(a, b)
    else:
        # same thing one level down, in a critical nested scheduler
        sched = PureScheduler(Scheduler(a, b, critical=True, label="inner"))
    try:
        result = sched.run()
    except Exception as exc:                      # pylint: disable=broad-except
        result = "raised {}".format(type(exc).__name__)
    # a coroutine that was (rightly) never started: avoid the RuntimeWarning
    if "b:enter" not in log:
        b.corun.close()
    return result, sched.why(), a, b, log


def main():
    # the violation is reported through the exit code; silence asyncio's
    # own 'Task exception was never retrieved' (a side effect of the same bug)
    import logging
    asyncio.set_event_loop(asyncio.new_event_loop())
    logging.getLogger("asyncio").setLevel(logging.CRITICAL)

    violations = 0
    for nested in (False, True):
        shape = "nested critical scheduler" if nested else "flat scheduler"
        # control: an ordinary exception class
        result, why, a, b, log = scenario(PlainError, nested)
        print("[{}] control, critical job raises PlainError():".format(shape))
        print("    run() -> {!r}, why() -> {!r}, log={}".format(result, why, log))
        assert result is False and "b:enter" not in log, "control failed"

        result, why, a, b, log = scenario(ValidationErrors, nested)
        print("[{}] critical job raises ValidationErrors() (falsy):"
              .format(shape))
        print("    run() -> {!r}, why() -> {!r}, log={}".format(result, why, log))
        print("    a.is_critical()={} a.raised_exception()={!r}"
              .format(a.is_critical(), a.raised_exception()))
        if result is True:
            violations += 1
            print("    DISCREPANCY: run() reports success although critical "
                  "job 'a' raised {!r}".format(a.raised_exception()))
            if "b:enter" in log:
                print("    (and job 'b', which requires 'a', was started "
                      "after the critical failure)")
    if violations:
        print("C02 VIOLATED in {} scenario(s)".format(violations))
        return 1
    print("no discrepancy observed")
    return 0


if __name__ == "__main__":
    sys.exit(main())
