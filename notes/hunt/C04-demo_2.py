"""
C04 violation 2 -- a critical job whose co_run() ends with CancelledError
(without the scheduler having cancelled it) is counted as a success, and its
successors are never started.

A job legitimately ends that way when it awaits something that somebody else
cancels (a future, a sub-task, a run_in_executor() call...).  This is not a job
that swallows a cancellation: the scheduler never cancelled it.

Property: success iff all non-forever jobs FINISHED and no critical job RAISED.
The job below raised (CancelledError is what comes out of its co_run()), and
the library itself says it is not finished (is_done() is False).  Whichever
way one reads it, success must not be reported; a pure scheduler must return
False, with failed_critical().

Library:
  (a) the job alone: run() returns True, why() == "FINE";
  (b) with a successor: the successor is never started, and run() of a
      *PureScheduler* raises ValueError('Set of Tasks/Futures is empty.')
      -- neither True nor False.
"""
import asyncio
import contextlib
import io
import sys

from asynciojobs import AbstractJob, PureScheduler


class AwaitsSomethingThatGetsCancelled(AbstractJob):
    async def co_run(self):
        loop = asyncio.get_running_loop()
        future = loop.create_future()
        # somebody else gives up on that future a little later
        loop.call_later(0.05, future.cancel)
        return await future          # -> raises CancelledError

    async def co_shutdown(self):
        pass


class Fine(AbstractJob):
    started = False

    async def co_run(self):
        self.started = True

    async def co_shutdown(self):
        pass


def observe(scheduler):
    async def main():
        return await asyncio.wait_for(scheduler.co_run(), 2)
    with contextlib.redirect_stdout(io.StringIO()):
        try:
            verdict = asyncio.run(main())
        except BaseException as exc:              # pylint: disable=broad-except
            verdict = "raised {!r}".format(exc)
    return (verdict, scheduler.failed_time_out(),
            scheduler.failed_critical(), scheduler.why())


EXPECTED = (False, False, True, "a CRITICAL job has raised an exception")
failures = 0

# (a)
job = AwaitsSomethingThatGetsCancelled(critical=True)
actual = observe(PureScheduler(job))
print("(a) one critical job that ends with CancelledError")
print("    job.is_done() =", job.is_done(),
      " task.cancelled() =", job._task.cancelled())
print("    expected", EXPECTED)
print("    actual  ", actual)
if actual != EXPECTED:
    failures += 1

# (b)
job = AwaitsSomethingThatGetsCancelled(critical=True)
successor = Fine(required=job)
actual = observe(PureScheduler(job, successor))
print("(b) same, plus a successor")
print("    successor started =", successor.started)
print("    expected", EXPECTED)
print("    actual  ", actual)
if actual != EXPECTED:
    failures += 1

if failures:
    print("\nC04 VIOLATED: a critical job raised CancelledError, the run "
          "reports success / blows up with ValueError")
    sys.exit(1)
print("no discrepancy")
