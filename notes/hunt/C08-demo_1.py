#!/usr/bin/env python3
"""
C08 demo 1 - a nested scheduler whose timeout has fired ends up reporting "FINE".

inner : Scheduler(timeout=0.1) with one job that never ends.
        At t=0.1 inner's timeout fires: it prints "TIMEOUT occurred", cancels its job
        and enters its (bounded, shutdown_timeout=1) shutdown phase.
outer : PureScheduler(timeout=0.3) that contains inner.
        At t=0.3 outer's own timeout fires while inner is still in the cleanup that
        follows ITS timeout (variant A: co_shutdown() of inner's job takes 0.5s;
        variant B: inner's job needs 0.5s to honour its cancellation).

C08: inner had T=0.1, its run was not over at 0.1, so it must end "with the timeout verdict".
Library: inner.failed_time_out() is False and inner.why() == "FINE", because
_failed_timeout is only assigned after _tidy_tasks() and co_shutdown() have returned,
and the CancelledError coming from the outer scheduler skips that assignment.
"""
import asyncio
import contextlib
import io
import sys
import time

from asynciojobs import AbstractJob, PureScheduler, Scheduler


class Never(AbstractJob):
    """a job that never ends; honours cancellation after `cancel_delay`,
    its co_shutdown() lasts `shutdown_duration`"""

    def __init__(self, cancel_delay=0., shutdown_duration=0., **kwds):
        super().__init__(**kwds)
        self.cancel_delay = cancel_delay
        self.shutdown_duration = shutdown_duration
        self.cancelled_at = None

    async def co_run(self):
        try:
            await asyncio.Event().wait()
        except asyncio.CancelledError:
            self.cancelled_at = time.monotonic()
            await asyncio.sleep(self.cancel_delay)
            raise

    async def co_shutdown(self):
        await asyncio.sleep(self.shutdown_duration)


def scenario(name, **job_kwds):
    job = Never(label="never", **job_kwds)
    inner = Scheduler(job, timeout=0.1, critical=False, label="inner")
    outer = PureScheduler(inner, timeout=0.3)
    out = io.StringIO()
    begin = time.monotonic()
    with contextlib.redirect_stdout(out):
        result = outer.run()
    inner_saw_timeout = out.getvalue().count("TIMEOUT occurred") == 2
    print(f"--- variant {name}")
    print(f"outer: returned {result}, why() = {outer.why()!r}")
    print(f"inner: job cancelled at t={job.cancelled_at - begin:.2f}s (inner's T is 0.1),"
          f" inner printed 'TIMEOUT occurred': {inner_saw_timeout}")
    print(f"inner: failed_time_out() = {inner.failed_time_out()}, why() = {inner.why()!r}")
    ok = inner.failed_time_out() and inner.why().startswith("TIMED OUT")
    if not ok:
        print("DISCREPANCY: inner's timeout fired at 0.1s and cancelled its job, "
              "yet inner does not carry the timeout verdict")
    return ok


def main():
    ok_a = scenario("A (slow co_shutdown)", shutdown_duration=0.5)
    ok_b = scenario("B (slow to honour cancellation)", cancel_delay=0.5)
    sys.exit(0 if (ok_a and ok_b) else 1)


main()
