"""
C20 violation: a NON-critical scheduler nested in a CRITICAL scheduler is
rendered with the red border that the documentation reserves for critical
jobs/schedulers.

Documentation (sphinx/README.md):
  "Critical jobs and schedulers show up with a thick and red border"
  "Non-critical jobs and schedulers show up with a thin and black border"
  "the same graphical legend is applicable to nested schedulers as well"

AbstractJob.dot_style() sets color="red" for critical items but sets NO color
for non-critical ones.  For a nested scheduler the style is emitted as
`graph [...]` inside `subgraph cluster_N{...}`, and in the DOT language a
subgraph inherits the graph attributes of its enclosing (sub)graph.  So the
inner cluster inherits color="red" from the enclosing critical cluster.
"""
import json
import re
import shutil
import subprocess
import sys

from asynciojobs import Scheduler, Job


async def noop():
    pass


def job(**kwds):
    coro = noop()
    j = Job(coro, **kwds)
    coro.close()
    return j


inner = Scheduler(job(label="leaf", critical=False),
                  label="inner", critical=False)
outer = Scheduler(inner, label="outer", critical=True)
top = Scheduler(outer)

dot = top.dot_format()
print(dot)


# --- effective cluster attributes, per DOT scoping rules (stdlib only) ---
def effective_cluster_attrs(text):
    stack = [{}]
    names = [None]
    result = {}
    for line in text.splitlines():
        m = re.match(r"subgraph (cluster_\w+)\{", line)
        if m:
            stack.append(dict(stack[-1]))       # inherit from the parent
            names.append(m.group(1))
            continue
        m = re.match(r"graph \[(.*)\];$", line)
        if m:
            for key, val in re.findall(r'(\w+)="((?:[^"\\]|\\.)*)"',
                                       m.group(1)):
                stack[-1][key] = val
            continue
        if line == "}":
            attrs = stack.pop()
            name = names.pop()
            if name:
                result[name] = attrs
    return result


attrs = effective_cluster_attrs(dot)
inner_name = inner.dot_cluster_name()
outer_name = outer.dot_cluster_name()
print("outer (critical)     :", outer_name,
      {k: attrs[outer_name].get(k) for k in ("color", "penwidth")})
print("inner (NOT critical) :", inner_name,
      {k: attrs[inner_name].get(k) for k in ("color", "penwidth")})

failed = False
color = attrs[inner_name].get("color", "black")
if color != "black":
    print("DISCREPANCY: non-critical nested scheduler 'inner' has effective "
          "border color {!r}; documentation promises a thin *black* border "
          "for non-critical schedulers (red is the critical marker)"
          .format(color))
    failed = True

# --- cross-check with graphviz itself when it is installed ---
if shutil.which("dot"):
    out = subprocess.run(["dot", "-Tjson0"], input=dot.encode(),
                         capture_output=True, check=True)
    for obj in json.loads(out.stdout)["objects"]:
        if obj["name"] == inner_name:
            print("graphviz says        :", inner_name,
                  {k: obj.get(k) for k in ("color", "penwidth")})
            if obj.get("color", "black") != "black":
                print("DISCREPANCY confirmed by graphviz: color={!r}"
                      .format(obj.get("color")))
                failed = True

sys.exit(1 if failed else 0)
