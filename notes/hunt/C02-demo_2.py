#!/usr/bin/env python3
"""
C02 violation #2: a CRITICAL job whose body ends with asyncio.CancelledError
although nobody cancelled the job (it awaits a future / task that somebody
else cancelled, or simply raises CancelledError).  asyncio marks the job's
task as *cancelled*; a cancelled task has no _exception, so
PureScheduler._co_run() files it under "done, no exception", counts it in
nb_jobs_done, and run() returns True / why() says FINE.

Property C02 says: if run() reports success, every non-forever job ran to its
own end, i.e. returned, or raised *while non-critical*.  Here a critical job
did not return, it raised; the run is nevertheless reported as a success
(and job.is_done() is False for that job after the "successful" run).

The scheduler never cancelled that job, so this is not about a job that
fails to honour cancellation.

run:  cd /tmp/hunt/C02 && PYTHONPATH=/tmp/hunt/C02 /venv/bin/python _out/demo_2.py
exits 1 and prints the discrepancy when the violation is observed.
"""
import asyncio
import sys

from asynciojobs import PureScheduler, Scheduler, Job


def scenario(kind, nested):
    """
    kind:
      'plain'   control: the critical job raises RuntimeError
      'raise'   the critical job raises asyncio.CancelledError()
      'await'   the critical job awaits a future that another job cancels
    """
    log = []
    loop = asyncio.get_event_loop()
    signal = loop.create_future()

    async def critical_body():
        log.append("a:enter")
        await asyncio.sleep(0.01)
        if kind == 'plain':
            raise RuntimeError("boom")
        if kind == 'raise':
            raise asyncio.CancelledError()
        # 'await': wait for a result that never comes - the future is cancelled
        value = await signal
        log.append("a:exit")          # never reached
        return value

    async def other_body():
        log.append("c:enter")
        await asyncio.sleep(0.02)
        if kind == 'await':
            signal.cancel()
        await asyncio.sleep(0.02)
        log.append("c:exit")

    a = Job(critical_body(), critical=True, label="a")
    c = Job(other_body(), critical=True, label="c")
    if not nested:
        sched = PureScheduler(a, c)
    else:
        sched = PureScheduler(Scheduler(a, c, critical=True, label="inner"))
    try:
        result = sched.run()
    except BaseException as exc:                  # pylint: disable=broad-except
        result = "raised {}".format(type(exc).__name__)
    signal.cancel()
    return result, sched.why(), a, c, log


def main():
    asyncio.set_event_loop(asyncio.new_event_loop())
    violations = 0
    for nested in (False, True):
        shape = "nested critical scheduler" if nested else "flat scheduler"
        result, why, a, c, log = scenario('plain', nested)
        print("[{}] control, critical job raises RuntimeError:".format(shape))
        print("    run() -> {!r}, why() -> {!r}, log={}".format(result, why, log))
        assert result is False, "control failed"
        for kind in ('raise', 'await'):
            result, why, a, c, log = scenario(kind, nested)
            print("[{}] critical job ends with CancelledError ({}):"
                  .format(shape, kind))
            print("    run() -> {!r}, why() -> {!r}, log={}"
                  .format(result, why, log))
            print("    a._task.cancelled()={} a.is_done()={} 'a:exit' logged: {}"
                  .format(a._task.cancelled(), a.is_done(), "a:exit" in log))
            if result is True:
                violations += 1
                print("    DISCREPANCY: run() reports success although critical "
                      "job 'a' neither returned nor is_done(): its body "
                      "raised CancelledError")
    if violations:
        print("C02 VIOLATED in {} scenario(s)".format(violations))
        return 1
    print("no discrepancy observed")
    return 0


if __name__ == "__main__":
    sys.exit(main())
