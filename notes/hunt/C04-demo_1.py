"""
C04 violation 1 -- a scheduler that only holds forever jobs never reports success.

Property: the run succeeds iff all NON-FOREVER jobs finished before the timeout
and no critical job raised.  With zero non-forever jobs this holds from the
very start (just like for an empty scheduler, which returns True), so the run
must report success, with why() == "FINE".

Library: _co_run() only compares nb_jobs_done with nb_jobs_finite AFTER some
task has completed; with forever jobs only, nothing completes, so the run
  - with a timeout: reports a time out (False / TimeoutError, "TIMED OUT"),
  - without a timeout: hangs for ever (also as a nested scheduler, which
    blocks the enclosing scheduler for ever).
"""
import asyncio
import contextlib
import io
import sys

from asynciojobs import AbstractJob, PureScheduler, Scheduler


class Monitor(AbstractJob):
    """a well-behaved forever job: runs until cancelled"""
    async def co_run(self):
        while True:
            await asyncio.sleep(0.01)

    async def co_shutdown(self):
        pass


class Sleep(AbstractJob):
    def __init__(self, duration, **kwds):
        super().__init__(**kwds)
        self.duration = duration

    async def co_run(self):
        await asyncio.sleep(self.duration)

    async def co_shutdown(self):
        pass


def observe(scheduler, guard=2.0):
    """run in a fresh loop; guard is only there to detect a hang"""
    async def main():
        return await asyncio.wait_for(scheduler.co_run(), guard)
    with contextlib.redirect_stdout(io.StringIO()):
        try:
            verdict = asyncio.run(main())
        except asyncio.TimeoutError as exc:
            # either the scheduler's own TimeoutError, or our guard
            verdict = "raised TimeoutError({})".format(exc) if str(exc) \
                else "HANGS (still running after {}s)".format(guard)
        except Exception as exc:                  # pylint: disable=broad-except
            verdict = "raised {!r}".format(exc)
    return (verdict, scheduler.failed_time_out(),
            scheduler.failed_critical(), scheduler.why())


EXPECTED = (True, False, False, "FINE")
failures = 0


def check(title, scheduler):
    global failures
    actual = observe(scheduler)
    ok = actual == EXPECTED
    failures += not ok
    print("{}: {}\n    expected (verdict, failed_time_out, failed_critical, why) = {}\n"
          "    actual                                                        = {}"
          .format("ok      " if ok else "MISMATCH", title, EXPECTED, actual))


check("pure scheduler, one forever job, timeout=0.3",
      PureScheduler(Monitor(forever=True), timeout=0.3))
check("critical scheduler, one forever job, timeout=0.3",
      Scheduler(Monitor(forever=True), timeout=0.3, critical=True))
check("pure scheduler, one forever job, no timeout",
      PureScheduler(Monitor(forever=True)))
check("finite job + nested scheduler that holds a forever job only, no timeout",
      Scheduler(Sleep(0.05),
                Scheduler(Monitor(forever=True), critical=False)))
# for reference: the empty scheduler, which is the same situation, is fine
check("(reference) empty scheduler, timeout=0", PureScheduler(timeout=0))

if failures:
    print("\nC04 VIOLATED: {} run(s) with no non-forever job at all did not "
          "report success".format(failures))
    sys.exit(1)
print("no discrepancy")
