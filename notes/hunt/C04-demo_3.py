"""
C04 violation 3 -- an exception instance that is falsy is not seen at all.

The library tests exceptions for truth (``if not t._exception``,
``if done_job.raised_exception()``, ``if exc:``) instead of comparing with
None.  Any exception class that defines __len__ or __bool__ (typically an
exception that aggregates a list of errors) can be falsy.

Property: a critical job raised => no success; pure/non-critical scheduler
returns False with failed_critical(), critical scheduler raises that very
exception object.

Library: the run reports success, why() == "FINE" (and asyncio later complains
that the task exception was never retrieved).
"""
import asyncio
import contextlib
import io
import logging
import sys

from asynciojobs import AbstractJob, PureScheduler, Scheduler

logging.getLogger("asyncio").setLevel(logging.CRITICAL)


class Errors(Exception):
    """an exception that carries a collection of error items"""
    def __init__(self, message, items=()):
        super().__init__(message)
        self.items = list(items)

    def __len__(self):
        return len(self.items)


class Raises(AbstractJob):
    def __init__(self, exc, **kwds):
        super().__init__(**kwds)
        self.exc = exc

    async def co_run(self):
        await asyncio.sleep(0.01)
        raise self.exc

    async def co_shutdown(self):
        pass


def observe(scheduler):
    with contextlib.redirect_stdout(io.StringIO()):
        try:
            verdict = asyncio.run(scheduler.co_run())
        except BaseException as exc:              # pylint: disable=broad-except
            verdict = exc
    return (verdict, scheduler.failed_time_out(),
            scheduler.failed_critical(), scheduler.why())


failures = 0
WHY = "a CRITICAL job has raised an exception"

boom = Errors("could not even start")          # no item: len() == 0 -> falsy
expected = (False, False, True, WHY)
actual = observe(PureScheduler(Raises(boom, critical=True)))
print("pure scheduler, critical job raises a falsy exception")
print("    expected", expected)
print("    actual  ", actual)
failures += actual != expected

boom = Errors("could not even start")
expected = (boom, False, True, WHY)
actual = observe(Scheduler(Raises(boom, critical=True), critical=True))
print("critical scheduler, critical job raises a falsy exception")
print("    expected", tuple(map(repr, expected)))
print("    actual  ", tuple(map(repr, actual)))
failures += not (actual[0] is boom and actual[1:] == expected[1:])

# reference: the same with one item in the exception behaves
boom = Errors("one problem", ["x"])
expected = (False, False, True, WHY)
actual = observe(PureScheduler(Raises(boom, critical=True)))
print("(reference) same exception class, but truthy")
print("    expected", expected)
print("    actual  ", actual)
failures += actual != expected

if failures:
    print("\nC04 VIOLATED: a critical job raised, and the run reports success")
    sys.exit(1)
print("no discrepancy")
