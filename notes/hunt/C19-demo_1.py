"""
C19 - a Sequence that is empty when built (no job yet, or only None
placeholders) and is populated later with append() loses its required=
(and whatever was passed to Sequence.requires() meanwhile): the first job
of the sequence ends up with no requirement at all, and actually runs
without waiting for the job it is supposed to come after.

library + stdlib only; exits 1 and prints the discrepancies.
"""
import asyncio
import sys

from asynciojobs import Job, Scheduler, Sequence

TRACE = []


async def body(name, delay):
    TRACE.append("start " + name)
    await asyncio.sleep(delay)
    TRACE.append("end " + name)


def job(name, delay=0.01, **kwds):
    return Job(body(name, delay), label=name, **kwds)


def labels(jobs):
    return sorted(j.label for j in jobs)


failures = []


def expect(what, got, wanted):
    status = "ok " if got == wanted else "BAD"
    print("{} {}: got {}, documented semantics give {}"
          .format(status, what, got, wanted))
    if got != wanted:
        failures.append(what)


# (1) the idiom: create the sequence first, fill it in a loop
sched = Scheduler()
init = job("init", 0.2, scheduler=sched)
seq = Sequence(required=init, scheduler=sched)
steps = [job("step%d" % i) for i in range(3)]
for step in steps:
    seq.append(step)
expect("(1) Sequence(required=init) + append: first job requires",
       labels(steps[0].required), ["init"])
expect("(1) second job requires", labels(steps[1].required), ["step0"])
expect("(1) jobs registered in scheduler", len(sched), 4)

# the same sequence assembled in one go, for reference
init_ = job("init")
steps_ = [job("step%d" % i) for i in range(3)]
Sequence(*steps_, required=init_)
expect("(1') Sequence(*steps, required=init): first job requires",
       labels(steps_[0].required), ["init"])
for j in [init_] + steps_:
    j.corun.close()

# (2) None placeholders only
r2, a2, b2 = job("r2"), job("a2"), job("b2")
seq2 = Sequence(None, None, required=[r2])
seq2.append(a2, b2)
expect("(2) Sequence(None, None, required=[r2]) + append(a2, b2): "
       "a2 requires", labels(a2.required), ["r2"])

# (3) Sequence.requires() on a still-empty sequence
r3, a3 = job("r3"), job("a3")
seq3 = Sequence()
seq3.requires(r3)
seq3.append(a3)
expect("(3) Sequence().requires(r3) + append(a3): a3 requires",
       labels(a3.required), ["r3"])
for j in (r2, a2, b2, r3, a3):
    j.corun.close()

# the consequence at run time, on scheduler (1)
ok = sched.run()
print("run ->", ok, TRACE)
expect("(1) at run time, step0 starts after init has ended",
       TRACE.index("start step0") > TRACE.index("end init"), True)

if failures:
    print("\nC19 VIOLATED: {} discrepancies".format(len(failures)))
    sys.exit(1)
print("no discrepancy")
