"""
C04 violation 5 (minor) -- timeout=False

``False`` is an ``int`` whose value is 0, so it is inside "all timeout values
t >= 0 including 0" (and it is also what somebody who means "no timeout" may
well write).  The library does treat it as the number 0: the run expires at
once and returns False.  But the diagnosis is stored as
``self._failed_timeout = self.timeout`` and read back with ``is not False``,
so that the expiry is not named:

  - failed_time_out() is False and why() is "FINE" after a failed run;
  - a critical scheduler raises ValueError("Internal error in
    Scheduler.co_run()") instead of TimeoutError.

(timeout=0 and timeout=0.0 are fine: that was the object of commit 7dbbff4.)
"""
import asyncio
import contextlib
import io
import sys

from asynciojobs import AbstractJob, PureScheduler, Scheduler


class Sleep(AbstractJob):
    async def co_run(self):
        await asyncio.sleep(0.2)

    async def co_shutdown(self):
        pass


def observe(scheduler):
    with contextlib.redirect_stdout(io.StringIO()):
        try:
            verdict = asyncio.run(scheduler.co_run())
        except BaseException as exc:              # pylint: disable=broad-except
            verdict = "raised {!r}".format(exc)
    return (verdict, scheduler.failed_time_out(),
            scheduler.failed_critical(),
            scheduler.why().split(" after")[0])


failures = 0
for timeout in (0, False):
    print("timeout={!r}".format(timeout))
    expected = (False, True, False, "TIMED OUT")
    actual = observe(PureScheduler(Sleep(), timeout=timeout))
    print("  pure      expected", expected)
    print("            actual  ", actual)
    failures += actual != expected
    expected = ("raised TimeoutError('critical scheduler took too long')",
                True, False, "TIMED OUT")
    actual = observe(Scheduler(Sleep(), timeout=timeout, critical=True))
    print("  critical  expected", expected)
    print("            actual  ", actual)
    failures += actual != expected

if failures:
    print("\nC04 VIOLATED: the run failed because of its timeout, and "
          "failed_time_out() / why() / the exception do not say so")
    sys.exit(1)
print("no discrepancy")
