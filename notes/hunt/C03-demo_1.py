"""
C03 demo 1: a non-critical job whose body raises asyncio.CancelledError
(here: it awaits a helper future that somebody else has cancelled) wedges the
run: its successors are never started, so run() never terminates as long as
anything else (here a forever job) is pending; with nothing else pending,
run() dies with "ValueError: Set of Tasks/Futures is empty." instead.

The very same tree terminates (returns True, successor runs) when the
job raises any other exception class, e.g. RuntimeError.

run as: cd /tmp/hunt/C03 && PYTHONPATH=/tmp/hunt/C03 /venv/bin/python _out/demo_1.py
"""
import asyncio
import sys
import warnings

# job b's coroutine is never awaited when the run wedges: that is the point
warnings.filterwarnings('ignore', category=RuntimeWarning)

from asynciojobs import PureScheduler, Scheduler, Job

WATCHDOG = 3.0      # seconds; every job below lasts 10 ms at most
ran = []


async def short(name):
    await asyncio.sleep(0.01)
    ran.append(name)


async def never_ending():
    # a well-behaved forever job: honours cancellation
    await asyncio.sleep(3600)


async def fails_with(exc_class):
    await asyncio.sleep(0.01)
    if exc_class is asyncio.CancelledError:
        # the realistic way: await something that got cancelled elsewhere
        helper = asyncio.get_running_loop().create_future()
        helper.cancel()
        await helper            # raises CancelledError in the job's body
    raise exc_class("boom")


def build(exc_class, with_forever, window):
    a = Job(fails_with(exc_class), critical=False, label="a (raises)")
    b = Job(short("b"), critical=False, required=a, label="b (after a)")
    jobs = [a, b]
    if with_forever:
        jobs.append(Job(never_ending(), forever=True, critical=False,
                        label="f (forever)"))
    # acyclic, closed, owns non-forever jobs, no finite job depends on a
    # never-ending one, window (2) > number of never-ending jobs (1)
    return PureScheduler(*jobs, jobs_window=window)


async def attempt(exc_class, with_forever, window):
    ran.clear()
    sched = build(exc_class, with_forever, window)
    task = asyncio.ensure_future(sched.co_run())
    done, _ = await asyncio.wait([task], timeout=WATCHDOG)
    if not done:
        outcome = "HANG (still running after {}s)".format(WATCHDOG)
        task.cancel()
        await asyncio.wait([task])
    elif task.exception():
        outcome = "RAISED {!r}".format(task.exception())
    else:
        outcome = "returned {}".format(task.result())
    print("  job a raises {:15s} forever-job={!s:5} window={!s:4} : run() {} ; b ran: {}"
          .format(exc_class.__name__, with_forever, window, outcome, "b" in ran))
    return outcome.startswith("returned") and "b" in ran


async def main():
    print("reference behaviour (any ordinary exception): run terminates")
    ref = [await attempt(RuntimeError, wf, w)
           for wf in (True, False) for w in (2, None)]
    print("same trees, job a raises asyncio.CancelledError:")
    bad = [await attempt(asyncio.CancelledError, wf, w)
           for wf in (True, False) for w in (2, None)]
    return ref, bad


ref, bad = asyncio.run(main())
if all(ref) and not all(bad):
    print("DISCREPANCY: property C03 demands that run() terminates however "
          "many non-critical jobs raise;\n  with a job that raises "
          "CancelledError the run hangs (or dies with ValueError) and the "
          "successor never runs")
    sys.exit(1)
print("no discrepancy")
sys.exit(0)
