#!/usr/bin/env python3
"""
C05 violation 1: when a critical job fails in a windowed scheduler, a job that
was queued for a window slot is STARTED (its co_run() body begins executing)
instead of being cancelled.

Cause: Window.run_job() releases the slot of the failing critical job in its
`finally:` clause; asyncio.Queue immediately hands that slot to the next queued
job, whose body runs one event-loop iteration later - i.e. before the scheduler
(which needs two iterations to wake up from asyncio.wait) has had a chance to
cancel anything.

Scenario A (flat):   jobs_window=2
    A    : entry, non critical, returns at t=0.05
    C    : entry, CRITICAL, raises at t=0.20
    B1-3 : require A, each would run for 5s
  at 0.05 one B gets A's slot, the other two are queued; at 0.20 C raises:
  the property demands that nothing else starts and that the queued B's
  are cancelled; the library starts one more B.

Scenario B (nested): same, but the queued items are nested schedulers; the one
  that gets C's slot starts, and so do its own entry jobs.
"""
import asyncio
import sys
import time
import warnings

warnings.simplefilter("ignore", RuntimeWarning)   # coroutines of never-started jobs

from asynciojobs import Scheduler, Job


def scenario(nested):
    events = []                     # (seq, what, who)
    t0 = time.monotonic()

    def ev(what, who):
        events.append((len(events), round(time.monotonic() - t0, 3), what, who))

    async def quick(name, delay):
        ev("start", name)
        await asyncio.sleep(delay)
        ev("return", name)
        return name

    async def crit(name, delay):
        ev("start", name)
        await asyncio.sleep(delay)
        ev("RAISE", name)
        raise RuntimeError("critical job failed")

    async def long(name):
        ev("start", name)           # <- an observable side effect
        try:
            await asyncio.sleep(5)
            ev("return", name)
        except asyncio.CancelledError:
            ev("cancelled", name)
            raise

    a = Job(quick("A", 0.05), critical=False, label="A")
    c = Job(crit("C", 0.20), critical=True, label="C")
    if not nested:
        bs = [Job(long(f"B{i}"), critical=False, label=f"B{i}", required=a)
              for i in (1, 2, 3)]
    else:
        bs = [Scheduler(Job(long(f"N{i}.x"), critical=False, label=f"N{i}.x"),
                        Job(long(f"N{i}.y"), critical=False, label=f"N{i}.y"),
                        critical=False, label=f"N{i}", required=a)
              for i in (1, 2, 3)]
    sched = Scheduler(a, c, *bs, jobs_window=2, critical=False)

    loop = asyncio.new_event_loop()
    asyncio.set_event_loop(loop)
    begin = time.monotonic()
    result = loop.run_until_complete(sched.co_run())
    duration = time.monotonic() - begin
    loop.close()

    print(f"--- scenario {'B (nested)' if nested else 'A (flat)'}: "
          f"run() -> {result} in {duration:.2f}s")
    for e in events:
        print("   ", e)
    raise_seq = next(seq for seq, _, what, _ in events if what == "RAISE")
    late = [who for seq, _, what, who in events
            if what == "start" and seq > raise_seq]
    if late:
        print(f"  DISCREPANCY: started AFTER the critical job raised: {late}")
        print("  (property C05: from that instant nothing new starts, "
              "jobs queued for a window slot are cancelled)")
    else:
        print("  OK: nothing was started after the critical job raised")
    return bool(late)


def main():
    bad_a = scenario(nested=False)
    bad_b = scenario(nested=True)
    if bad_a or bad_b:
        print("VIOLATION of C05 demonstrated")
        sys.exit(1)
    print("no violation observed")
    sys.exit(0)


if __name__ == "__main__":
    main()
