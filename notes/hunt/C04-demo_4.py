"""
C04 violation 4 -- once the timeout has expired the scheduler still starts new
jobs, and reports success if each of them completes without suspending.

The expiry is only ever noticed when asyncio.wait() comes back with an empty
``done`` set.  When the deadline is already behind, wait() is called with a
negative timeout, which still lets every pending task run one step; a job
whose co_run() completes in one step (no await that actually suspends, e.g. a
thin async wrapper around some synchronous work) is therefore reported done,
its successors are started, and so on until the end of the graph.

Below: a sequence of 5 jobs, each spends 0.1s in synchronous code; timeout is
0.05s.  The deadline is passed while job #1 runs; jobs #2..#5 are STARTED after
the expiry, the last one finishes 0.45s after it (no tie here).

Property: not all jobs finished before the timeout expired => the run must
return False (TimeoutError for a critical scheduler), failed_time_out().

Library: returns True, why() == "FINE", after ten times the timeout.
"""
import asyncio
import contextlib
import io
import sys
import time

from asynciojobs import AbstractJob, PureScheduler, Scheduler, Sequence

TIMEOUT = 0.05


class Sync(AbstractJob):
    """does its work synchronously - there is no suspension point"""
    def __init__(self, duration, **kwds):
        super().__init__(**kwds)
        self.duration = duration
        self.started = self.finished = None

    async def co_run(self):
        self.started = time.time()
        time.sleep(self.duration)
        self.finished = time.time()

    async def co_shutdown(self):
        pass


def observe(scheduler_class, **kwds):
    jobs = [Sync(0.1) for _ in range(5)]
    scheduler = scheduler_class(Sequence(*jobs), timeout=TIMEOUT, **kwds)
    beg = time.time()
    with contextlib.redirect_stdout(io.StringIO()):
        try:
            verdict = asyncio.run(scheduler.co_run())
        except BaseException as exc:              # pylint: disable=broad-except
            verdict = type(exc).__name__
    print("  jobs started  at", ["{:.2f}".format(j.started - beg)
                                 if j.started else None for j in jobs])
    print("  jobs finished at", ["{:.2f}".format(j.finished - beg)
                                 if j.finished else None for j in jobs])
    print("  run over at {:.2f}, timeout was {}".format(time.time() - beg,
                                                       TIMEOUT))
    return (verdict, scheduler.failed_time_out(),
            scheduler.failed_critical(), scheduler.why())


failures = 0
print("pure scheduler")
expected = (False, True, False, "TIMED OUT after {}s".format(TIMEOUT))
actual = observe(PureScheduler)
print("  expected", expected)
print("  actual  ", actual)
failures += actual != expected

print("critical scheduler")
expected = ("TimeoutError", True, False, "TIMED OUT after {}s".format(TIMEOUT))
actual = observe(Scheduler, critical=True)
print("  expected", expected)
print("  actual  ", actual)
failures += actual != expected

if failures:
    print("\nC04 VIOLATED: jobs were started and finished long after the expiry, "
          "and the run reports success")
    sys.exit(1)
print("no discrepancy")
