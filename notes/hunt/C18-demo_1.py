"""
C18 demo 1: keep_only / keep_only_between are documented as taking
Iterable[Schedulable] (Schedulable = AbstractJob or Sequence), but a Sequence
argument is not flattened:
  * keep_only([seq]) silently drops every job of the sequence (keeps nothing)
  * keep_only_between(starts=[seq]) / (ends=[seq]) raise AttributeError
"""
import sys
import warnings
warnings.simplefilter("ignore")
from asynciojobs import Scheduler, Sequence, Job


async def noop():
    pass


def build():
    a, b, c, d = (Job(noop(), label=x) for x in "abcd")
    seq = Sequence(a, b, c)          # a -> b -> c
    d.requires(seq)                  # c -> d
    return Scheduler(seq, d), seq, (a, b, c, d)


def labels(s):
    return sorted(j.label for j in s.jobs)


failures = []

# --- keep_only with a Sequence
s, seq, (a, b, c, d) = build()
s.keep_only([seq])
expected = ['a', 'b', 'c']
print("keep_only([Sequence(a,b,c)]) kept", labels(s), "- expected", expected)
if labels(s) != expected:
    failures.append("keep_only([seq]) kept %s instead of %s" % (labels(s), expected))

# same thing, mixed with a plain job
s, seq, (a, b, c, d) = build()
s.keep_only([seq, d])
expected = ['a', 'b', 'c', 'd']
print("keep_only([Sequence(a,b,c), d]) kept", labels(s), "- expected", expected)
if labels(s) != expected:
    failures.append("keep_only([seq, d]) kept %s instead of %s" % (labels(s), expected))

# --- keep_only_between with a Sequence as a milestone
for kwds in ("starts", "ends"):
    s, seq, (a, b, c, d) = build()
    try:
        s.keep_only_between(**{kwds: [seq]})
        print("keep_only_between(%s=[seq]) kept" % kwds, labels(s))
    except Exception as exc:                      # pylint: disable=broad-except
        print("keep_only_between(%s=[seq]) raised %s: %s"
              % (kwds, type(exc).__name__, exc))
        failures.append("keep_only_between(%s=[seq]) raised %r" % (kwds, exc))

if failures:
    print("\nDISCREPANCIES:")
    for f in failures:
        print("  -", f)
    sys.exit(1)
print("no discrepancy")
