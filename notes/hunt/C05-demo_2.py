#!/usr/bin/env python3
"""
C05 violation 2: a critical job that raises an exception object which is
*falsy* (its class defines __len__ or __bool__, e.g. an "error collection"
exception that happens to be empty) does not abort the scheduler at all.

Cause: purescheduler.py tests exceptions by truthiness
    done_ok = {t for t in done if not t._exception}
    if done_job.raised_exception(): ...
instead of `is not None`, so the failed critical job is filed under "done OK".

Scenario (no window, flat):
    C    : CRITICAL, raises ValidationErrors([]) at t=0.1
    NEXT : requires C          (must never start)
    PAR  : independent, 0.5s   (must be cancelled at t=0.1)
Property C05 demands: nothing starts after 0.1, PAR is cancelled at 0.1,
the run ends at ~0.1.  The library starts NEXT, lets PAR run to completion
and returns True at ~0.5.
"""
import asyncio
import sys
import time
import warnings

from asynciojobs import Scheduler, Job

warnings.simplefilter("ignore", RuntimeWarning)


class ValidationErrors(Exception):
    """a typical 'collection of problems' exception"""
    def __init__(self, errors):
        super().__init__(errors)
        self.errors = list(errors)

    def __len__(self):
        return len(self.errors)


def main():
    events = []
    t0 = time.monotonic()

    def ev(what, who):
        events.append((len(events), round(time.monotonic() - t0, 3), what, who))

    async def crit():
        ev("start", "C")
        await asyncio.sleep(0.1)
        ev("RAISE", "C")
        raise ValidationErrors([])

    async def body(name, delay):
        ev("start", name)
        try:
            await asyncio.sleep(delay)
            ev("return", name)
        except asyncio.CancelledError:
            ev("cancelled", name)
            raise

    c = Job(crit(), critical=True, label="C")
    nxt = Job(body("NEXT", 0.1), critical=False, label="NEXT", required=c)
    par = Job(body("PAR", 0.5), critical=False, label="PAR")
    sched = Scheduler(c, nxt, par, critical=False)

    loop = asyncio.new_event_loop()
    asyncio.set_event_loop(loop)
    # the never-retrieved exception is reported through the loop handler
    loop.set_exception_handler(lambda loop, context: None)
    begin = time.monotonic()
    result = loop.run_until_complete(sched.co_run())
    duration = time.monotonic() - begin
    loop.close()

    for e in events:
        print("   ", e)
    print(f"run() -> {result} in {duration:.2f}s; "
          f"C.raised_exception() = {c.raised_exception()!r}; "
          f"failed_critical() = {sched.failed_critical()}")

    problems = []
    raise_seq = next(seq for seq, _, what, _ in events if what == "RAISE")
    late = [who for seq, _, what, who in events
            if what == "start" and seq > raise_seq]
    if late:
        problems.append(f"started after the critical job raised: {late}")
    if ("return", "PAR") in [(w, n) for _, _, w, n in events]:
        problems.append("PAR was not cancelled, it ran to normal completion")
    if duration > 0.3:
        problems.append(f"run lasted {duration:.2f}s, expected ~0.1s")
    if result is not False:
        problems.append(f"run() returned {result}")
    for p in problems:
        print("  DISCREPANCY:", p)
    if problems:
        print("VIOLATION of C05 demonstrated")
        sys.exit(1)
    print("no violation observed")
    sys.exit(0)


if __name__ == "__main__":
    main()
