#!/usr/bin/env python3
"""
C08 demo 2 - the timeout is silently ignored when every asyncio.wait() reports a completion.

A scheduler with timeout T=0.1s runs a Sequence of 50 short jobs; each job does 10ms of
plain synchronous work, yields once to the event loop (await asyncio.sleep(0)) and returns.
So T falls strictly between the completion of job #9 and that of job #10, and the whole
sequence needs 0.5s = 5 x T.  (variant B: 50 independent jobs and jobs_window=1, i.e. the
remaining jobs are *queued* in the window when T expires; variant C: 400 jobs of 1 ms)

C08: the run is not over at T, so at that instant the scheduler must start nothing more,
cancel its running and queued jobs and end with the timeout verdict (after ~0.1s).
Library: expiry is only recognised when asyncio.wait() returns an EMPTY `done` set.  Here,
once T is passed, wait() is called with a negative timeout, returns one loop iteration
later, and by then the job that was just started has completed: `done` is never empty,
so the scheduler keeps starting jobs: 40 jobs are started after T, the run lasts 0.5s and
returns True / "FINE".
"""
import asyncio
import contextlib
import io
import sys
import time
import warnings

from asynciojobs import Job, PureScheduler, Sequence

warnings.simplefilter("ignore")     # un-awaited coroutines, once the library is fixed

T = 0.1
N = 50


def scenario(name, window, in_sequence, N=N, work=0.01):
    starts = []
    begin = None

    async def short(i):
        starts.append(time.monotonic() - begin)
        time.sleep(work)            # 10 ms (or 1 ms) of synchronous work
        await asyncio.sleep(0)      # be nice, yield to the event loop
        return i

    jobs = [Job(short(i), label=f"job{i}") for i in range(N)]
    scheduler = PureScheduler(timeout=T, jobs_window=window)
    if in_sequence:
        scheduler.add(Sequence(*jobs))
    else:
        scheduler.update(jobs)
    begin = time.monotonic()
    with contextlib.redirect_stdout(io.StringIO()):
        result = scheduler.run()
    elapsed = time.monotonic() - begin
    # 50 ms of slack, i.e. 5 jobs
    late = [s for s in starts if s > T + 0.05]
    print(f"--- variant {name}: timeout={T}")
    print(f"run() returned {result} after {elapsed:.3f}s, why() = {scheduler.why()!r}")
    print(f"{len(starts)} jobs started, {len(late)} of them later than T+0.05s"
          f" (latest start at {max(starts):.3f}s)")
    ok = (result is False and scheduler.failed_time_out()
          and not late and elapsed < T + 0.1)
    if not ok:
        print(f"DISCREPANCY: the run was not over at T={T}s; it should have stopped"
              f" starting jobs and ended with the timeout verdict")
    return ok


def main():
    ok_a = scenario("A (sequence)", window=None, in_sequence=True)
    ok_b = scenario("B (independent jobs queued in a window of 1)", window=1, in_sequence=False)
    # nobody hogs the event loop here: 400 jobs of 1 ms each
    ok_c = scenario("C (sequence of 400 jobs, 1 ms each)", window=None, in_sequence=True,
                    N=400, work=0.001)
    sys.exit(0 if (ok_a and ok_b and ok_c) else 1)


main()
