/-
  Layer B of the dynamic model: refinement to layer A, and the invariant of reachable states that the
  theorems of C03–C05, C08–C11, C13 rest on.
-/
import AJ.Model.Full
import AJ.Proofs.CoreA
namespace AJ.Proofs.CoreB
open AJ.Run AJ.Full AJ.Proofs.CoreA

/-- every step of layer B is zero or one step of layer A on the embedded state -/
theorem stepB_refines (c : Cfg) (st st' : StB) (e : EvB) (h : stepB c st e = some st') :
    st'.a = st.a ∨ ∃ ea, stepA c st.a ea = some st'.a := by
  sorry

/-- hence every accepted history of layer B projects onto an accepted history of layer A -/
theorem acceptB_refines (c : Cfg) (evs : List EvB) (st0 st : StB) (h : acceptB c st0 evs = some st) :
    ∃ evsA, acceptA c st0.a evsA = some st.a := by
  sorry

/-- … so the layer-A invariant holds in every reachable state of layer B -/
theorem invA_of_reachB (c : Cfg) (hwf : c.wf = true) (evs : List EvB) (st : StB)
    (h : acceptB c StB.init evs = some st) : InvA c st.a := by
  sorry

/-- the `done` set a pending reaction of `s` is about (empty when none is pending) -/
def rxD (st : StB) (s : Nat) : List Nat := (st.a.rx s).getD []

def _root_.AJ.Full.PcB.exiting : PcB → Bool
  | .tidy _ => true | .shut _ => true | .shutTidy _ => true | _ => false

/-- what holds in every reachable state of layer B (for schedulers `s < c.n`, jobs `0 < k < c.n`) -/
structure InvB (c : Cfg) (st : StB) : Prop where
  /-- the two program counters agree -/
  pcNotBegun : ∀ s, st.pcB s = .notBegun ↔ st.a.pc s = .notBegun
  pcLoop : ∀ s, st.pcB s = .loop ↔ st.a.pc s = .loop
  pcOver : ∀ s, st.pcB s = .over ↔ st.a.pc s = .over
  /-- while a run is in its main loop it has cancelled none of its jobs -/
  loopClean : ∀ s, st.pcB s = .loop → ∀ k ∈ c.children s, st.a.creq k = false ∧ st.a.ph k ≠ .cancelled
  /-- `nb_jobs_done` counts the non-forever jobs reported and reacted to -/
  count : ∀ s, st.pcB s = .loop →
      st.nbDone s = ((c.children s).filter fun k => !c.forever k && st.a.deliv k && !(rxD st s).contains k).length
  /-- a critical job that raised has not been reacted to yet (otherwise the run would have left its loop) -/
  noCrit : ∀ s, st.pcB s = .loop → ∀ k ∈ c.children s, c.critical k = true →
      (∃ e, st.a.ph k = .done (.exc e)) → (st.a.deliv k = false ∨ k ∈ rxD st s)
  /-- once the run has left its main loop every unfinished job of it has been cancelled -/
  exitCancelled : ∀ s, (st.pcB s).exiting = true → ∀ k ∈ c.children s, (st.a.ph k).live = true → st.a.creq k = true
  /-- the shutdown phase begins only when no job of the scheduler is unfinished -/
  shutQuiet : ∀ s x, (st.pcB s = .shut x ∨ st.pcB s = .shutTidy x) → ∀ k ∈ c.children s, (st.a.ph k).live = false
  /-- `co_shutdown()` reaches a job at most once, exactly when its scheduler has broadcast -/
  hcallsLe : ∀ k, st.hcalls k ≤ 1
  hcallsDid : ∀ k, 0 < k → k < c.n → (st.hcalls k = 1 ↔ st.didSd (c.parent k) = true)
  hphNone : ∀ k, st.hph k = .hnone ↔ st.hcalls k = 0
  /-- the broadcast state mirrors the phase of the run (inline) / of the relay -/
  bcNone : ∀ s, st.bc s = .bnone ↔ st.didSd s = false
  bcInlineWait : ∀ s, st.bc s = .bwait .inline ↔ ∃ x, st.pcB s = .shut x
  bcInlineTidy : ∀ s, st.bc s = .btidy .inline ↔ ∃ x, st.pcB s = .shutTidy x
  bcRelay : ∀ s, relayActive st s = true → st.hph s = .hactive ∧ c.isSched s = true
  /-- a handler is pending only while its scheduler's broadcast is in progress -/
  hactiveBc : ∀ k, 0 < k → k < c.n → st.hph k = .hactive → ((st.bc (c.parent k)).isWait = true ∨ (st.bc (c.parent k)).isTidy = true)
  hcreqActive : ∀ k, st.hcreq k = true → st.hph k = .hactive
  /-- a run that had jobs is over only after its shutdown broadcast -/
  overDid : ∀ s, s < c.n → c.isSched s = true → st.pcB s = .over → (c.children s ≠ [] → st.didSd s = true)
  /-- a broadcast happens only when no job of the scheduler is unfinished, and stays so -/
  sdQuiet : ∀ s, st.didSd s = true → ∀ k ∈ c.children s, (st.a.ph k).live = false
  /-- a scheduler whose `co_shutdown()` was relayed is not running (it never began, or its run is over) -/
  relayIdle : ∀ s, c.isSched s = true → 0 < s → st.hph s ≠ .hnone → (st.a.ph s).live = false
  /-- deadlines: armed at the beginning of the run / of the broadcast, never passed while waiting -/
  deadlineEq : ∀ s, st.pcB s = .loop → st.deadline s = (c.timeout s).map (st.tbegin s + ·)
  deadlineGe : ∀ s dl, st.pcB s = .loop → st.deadline s = some dl → st.a.now ≤ dl ∧ st.tbegin s ≤ st.a.now
  hdeadlineEq : ∀ s, (st.bc s).isWait = true → st.hdeadline s = (c.sdTimeout s).map (st.tsd s + ·)
  hdeadlineGe : ∀ s dl, (st.bc s).isWait = true → st.hdeadline s = some dl → st.a.now ≤ dl ∧ st.tsd s ≤ st.a.now
  /-- the diagnosis is clear while the run is in progress -/
  diagClear : ∀ s, st.pcB s ≠ .over → st.failT s = false ∧ st.failC s = false
  /-- a cancellation is delivered only to a run that was asked to stop -/
  carrivedCreq : ∀ s, st.carrived s = true → st.pcB s ≠ .notBegun

theorem invB_init (c : Cfg) : InvB c StB.init := by
  sorry

theorem invB_step (c : Cfg) (hwf : c.wf = true) (st st' : StB) (e : EvB)
    (hA : InvA c st.a) (hinv : InvB c st) (h : stepB c st e = some st') : InvB c st' := by
  sorry

theorem invB_reach (c : Cfg) (hwf : c.wf = true) (evs : List EvB) (st : StB)
    (h : acceptB c StB.init evs = some st) : InvB c st := by
  sorry

end AJ.Proofs.CoreB
