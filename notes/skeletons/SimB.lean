/-
  Layer B: non-critical failures are contained (C06) — whether a non-critical atomic job returns or raises is
  invisible to the rest of the run.
-/
import AJ.Proofs.CoreB
namespace AJ.Proofs.SimB
open AJ.Run AJ.Full

/-- the same event, except that job `k` ends the other way (returns ↔ raises) -/
def flipEv (k : Nat) : EvB → EvB
  | .bodyEnd j ok => if j = k then .bodyEnd j (!ok) else .bodyEnd j ok
  | e => e

/-- the same task phase, forgetting how job `k` ended -/
def normPh (k : Nat) (j : Nat) (p : Ph) : Ph :=
  if j = k then (match p with | .done _ => .done .retOwn | q => q) else p

/-- the same state, forgetting how job `k` ended -/
def norm (k : Nat) (st : StB) : StB :=
  { st with a := { st.a with ph := fun j => normPh k j (st.a.ph j) } }

/-- C06: take any accepted history and switch the outcome of a non-critical atomic job `k`: the history is still
    accepted — the same events at the same instants (the `tick`s are unchanged): the same jobs start, are granted
    slots, end, are cancelled, the same runs end — and leads to the same state except for the outcome of `k`
    itself (in particular every verdict, every other result, every diagnosis is the same) -/
theorem containment (c : Cfg) (k : Nat) (hk : c.critical k = false) (hatom : c.isSched k = false)
    (evs : List EvB) (st : StB) (h : acceptB c StB.init evs = some st) :
    ∃ st', acceptB c StB.init (evs.map (flipEv k)) = some st' ∧ norm k st' = norm k st := by
  sorry

/-- C06: the exception of the failed job stays retrievable from it -/
theorem exception_kept (c : Cfg) (k : Nat) (hatom : c.isSched k = false)
    (evs : List EvB) (st : StB) (h : acceptB c StB.init evs = some st)
    (hin : EvB.bodyEnd k false ∈ evs) : st.a.ph k = .done (.exc (.byJob k)) := by
  sorry

end AJ.Proofs.SimB
