/-
  Layer B: no livelock (C03) — the number of events other than the passing of time in an accepted history is
  bounded by a function of the configuration alone: a run cannot go on for ever without time passing.
-/
import AJ.Proofs.CoreB
namespace AJ.Proofs.BoundB
open AJ.Run AJ.Full AJ.Proofs.CoreA AJ.Proofs.CoreB

def isTick : EvB → Bool
  | .tick _ => true
  | _ => false

/-- number of events of the history that are not `tick`s -/
def work (evs : List EvB) : Nat := (evs.filter fun e => !isTick e).length

/-- C03 (no livelock): every accepted history contains at most `16 * c.n + 16` events other than `tick`
    (each job is started, granted a slot, ended, cancelled, reported, shut down at most once; each scheduler takes
    a bounded number of turns) -/
theorem bounded_work (c : Cfg) (hwf : c.wf = true) (evs : List EvB) (st : StB)
    (h : acceptB c StB.init evs = some st) : work evs ≤ 16 * c.n + 16 := by
  sorry

end AJ.Proofs.BoundB
