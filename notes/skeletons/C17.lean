/-
  C17 — neighbour, reachability and traversal queries agree with the requirements.
-/
import AJ.Spec
namespace AJ.Proofs.C17
open AJ

theorem pred_iff (t : T) (s : Nat) (starts : List Nat) (x : Nat) :
    x ∈ predecessors t s starts ↔ ∃ a ∈ starts, x ∈ t.req a ∧ x ∈ t.mem s := by
  sorry

theorem succ_iff (t : T) (s : Nat) (starts : List Nat) (x : Nat) :
    x ∈ successors t s starts ↔ ∃ a ∈ starts, a ∈ t.req x ∧ x ∈ t.mem s := by
  sorry

/-- `_neighbours` returns a set (no duplicates) -/
theorem neigh_nodup (t : T) (s : Nat) (up : Bool) (starts : List Nat) : (neigh t s up starts).Nodup := by
  sorry

/-- `predecessors_upstream` / `successors_downstream`: exactly the members reachable through one or more
    links, from any of the start jobs; in particular the fuel `|mem s| + 1` always suffices -/
theorem closure_iff (t : T) (s : Nat) (up : Bool) (starts : List Nat) (x : Nat) :
    x ∈ closure t s up starts ↔ ∃ a ∈ starts, ReachL t s up a x := by
  sorry

theorem closure_nodup (t : T) (s : Nat) (up : Bool) (starts : List Nat) : (closure t s up starts).Nodup := by
  sorry

theorem entry_iff (t : T) (s x : Nat) : x ∈ entryJobs t s ↔ x ∈ t.mem s ∧ t.req x = [] := by
  sorry

theorem exit_iff (t : T) (s x : Nat) (discard : Bool) :
    x ∈ exitJobs t s discard ↔
      x ∈ t.mem s ∧ ¬ (discard = true ∧ t.forever x = true) ∧ ∀ y ∈ t.mem s, x ∉ t.req y := by
  sorry

/-- `iterate_jobs()` visits exactly the jobs of the subtree: atomic ones only, or schedulers too (the start
    scheduler included) when `scan_schedulers` -/
theorem iterate_mem (t : T) (fuel s : Nat) (scan : Bool) (x : Nat)
    (hs : t.isSched s = true) (hlt : s < t.n) (hfuel : t.n - s ≤ fuel)
    (hwf : ∀ s', (s' = s ∨ Desc t s s') → ∀ k ∈ t.mem s', s' < k ∧ k < t.n) :
    x ∈ iterateJobs t scan fuel s ↔
      ((Desc t s x ∧ (t.isSched x = false ∨ scan = true)) ∨ (x = s ∧ scan = true)) := by
  sorry

/-- … exactly once -/
theorem iterate_nodup (t : T) (fuel s : Nat) (scan : Bool)
    (hs : t.isSched s = true) (hlt : s < t.n) (hfuel : t.n - s ≤ fuel)
    (hwf : ∀ s', (s' = s ∨ Desc t s s') → ∀ k ∈ t.mem s', s' < k ∧ k < t.n)
    (hnd : ∀ s', (s' = s ∨ Desc t s s') → (t.mem s').Nodup)
    (hatomic : ∀ k, t.isSched k = false → t.mem k = [])
    (huniq : ∀ s1 s2 k, (s1 = s ∨ Desc t s s1) → (s2 = s ∨ Desc t s s2) → k ∈ t.mem s1 → k ∈ t.mem s2 → s1 = s2) :
    (iterateJobs t scan fuel s).Nodup := by
  sorry

end AJ.Proofs.C17
