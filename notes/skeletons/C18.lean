/-
  C18 — graph surgery keeps exactly the documented jobs and preserves precedence.
-/
import AJ.Spec
namespace AJ.Proofs.C18
open AJ

/-- a non-member cannot be bypassed: `ValueError`, nothing changes -/
theorem bypass_nonmember (t : T) (s j : Nat) (h : j ∉ t.mem s) : bypass t s j = .error .valueError := by
  sorry

/-- removes exactly `j` -/
theorem bypass_mem (t t' : T) (s j : Nat) (h : bypass t s j = .ok t') :
    t'.mem s = (t.mem s).filter (· ≠ j) ∧ ∀ k, k ≠ s → t'.mem k = t.mem k := by
  sorry

/-- the must-run-before relation between the remaining jobs is unchanged -/
theorem bypass_reach (t t' : T) (s j : Nat) (hcl : Closed t s) (hac : Acyclic t s)
    (h : bypass t s j = .ok t') (a b : Nat) (ha : a ≠ j) (hb : b ≠ j) :
    Reach t' s a b ↔ Reach t s a b := by
  sorry

theorem bypass_closed (t t' : T) (s j : Nat) (hcl : Closed t s) (h : bypass t s j = .ok t') :
    Closed t' s := by
  sorry

theorem bypass_acyclic (t t' : T) (s j : Nat) (hcl : Closed t s) (hac : Acyclic t s)
    (h : bypass t s j = .ok t') : Acyclic t' s := by
  sorry

/-- hypotheses for the flat use of `keep_only*` the property speaks about: the kept jobs are atomic
    (so `sanitize` has nothing to recurse into) -/
def FlatAt (t : T) (s : Nat) : Prop := ∀ k ∈ t.mem s, t.isSched k = false

theorem keepOnly_spec (t : T) (fuel s : Nat) (R : List Nat) (hflat : FlatAt t s) :
    (keepOnly t (fuel + 1) s R).mem s = (t.mem s).filter (· ∈ R) ∧
    (∀ x ∈ (keepOnly t (fuel + 1) s R).mem s,
        (keepOnly t (fuel + 1) s R).req x = (t.req x).filter (· ∈ (keepOnly t (fuel + 1) s R).mem s)) ∧
    (∀ x, x ∉ (keepOnly t (fuel + 1) s R).mem s → (keepOnly t (fuel + 1) s R).req x = t.req x) := by
  sorry

/-- `keep_only_between`: exactly the documented subset … -/
theorem between_mem (t : T) (fuel s : Nat) (starts ends : List Nat) (ks ke : Bool) (x : Nat)
    (hflat : FlatAt t s) (hst : ∀ a ∈ starts, a ∈ t.mem s) (hen : ∀ a ∈ ends, a ∈ t.mem s) :
    x ∈ (keepOnlyBetween t (fuel + 1) s starts ends ks ke).mem s ↔
      (((starts = [] ∧ x ∈ t.mem s) ∨ ∃ a ∈ starts, ReachL t s false a x) ∧
       ((ends = [] ∧ x ∈ t.mem s) ∨ ∃ e ∈ ends, ReachL t s true e x)) ∨
      (ks = true ∧ x ∈ starts) ∨ (ke = true ∧ x ∈ ends) := by
  sorry

/-- … with exactly the original requirements among kept jobs and none to dropped ones -/
theorem between_req (t : T) (fuel s : Nat) (starts ends : List Nat) (ks ke : Bool)
    (hflat : FlatAt t s) (hst : ∀ a ∈ starts, a ∈ t.mem s) (hen : ∀ a ∈ ends, a ∈ t.mem s) :
    let t' := keepOnlyBetween t (fuel + 1) s starts ends ks ke
    ∀ x ∈ t'.mem s, t'.req x = (t.req x).filter (· ∈ t'.mem s) := by
  sorry

/-- restricting members and requirements to a subset keeps a scheduler closed and acyclic
    (the shape both `keep_only` and `keep_only_between` produce) -/
theorem restrict_closed_acyclic (t t' : T) (s : Nat)
    (hsub : ∀ x ∈ t'.mem s, x ∈ t.mem s)
    (hreq : ∀ x ∈ t'.mem s, t'.req x = (t.req x).filter (· ∈ t'.mem s))
    (hac : Acyclic t s) : Closed t' s ∧ Acyclic t' s := by
  sorry

end AJ.Proofs.C18
