/-
  Layer B: how a run leaves its main loop and what it then reports (C02 success clause, C04, C05, C08, C09,
  C10 a–c).
-/
import AJ.Proofs.CoreB
namespace AJ.Proofs.ExitB
open AJ.Run AJ.Full AJ.Proofs.CoreA AJ.Proofs.CoreB

/-! ### per-step theorems -/

/-- C05 / C08 / C09: whenever a run leaves its main loop — whatever the reason — in that very step `cancel()` is
    called on every unfinished job of it, no job changes phase (nothing is started), and the run is tidying up -/
theorem exit_cancels_all (c : Cfg) (st st' : StB) (e : EvB) (s : Nat)
    (hB : InvB c st) (h : stepB c st e = some st') (hloop : st.pcB s = .loop) (hleft : st'.pcB s ≠ .loop) :
    (∃ x, st'.pcB s = .tidy x) ∧
    (∀ k ∈ c.children s, (st.a.ph k).live = true → st'.a.creq k = true) ∧
    (∀ k, st'.a.ph k = st.a.ph k) := by
  sorry

/-- … and the reason recorded is the one that occurred: a critical job of the reacted `done` set raised; or none
    did and the count of reported non-forever jobs reached their number; or the deadline was reached with nothing
    to report; or the enclosing scheduler cancelled the run -/
theorem exit_reason (c : Cfg) (st st' : StB) (e : EvB) (s : Nat) (x : Exit)
    (hB : InvB c st) (h : stepB c st e = some st') (hloop : st.pcB s = .loop) (hx : st'.pcB s = .tidy x) :
    match x with
    | .critical => e = .react s ∧ ∃ D, st.a.rx s = some D ∧ critIn c st.a D = true
    | .success => e = .react s ∧ ∃ D, st.a.rx s = some D ∧ critIn c st.a D = false ∧
        st.nbDone s + (D.filter fun d => !c.forever d).length = nbFinite c s
    | .timeout => e = .timeoutFire s ∧ ∃ dl, st.deadline s = some dl ∧ dl ≤ st.a.now ∧ doneSet c st.a s = []
    | .cancelled => e = .cancelArrive s := by
  sorry

/-- C05: a critical job in the reacted `done` set that raised always makes the run abort -/
theorem critical_aborts (c : Cfg) (st st' : StB) (s : Nat) (D : List Nat)
    (h : stepB c st (.react s) = some st') (hrx : st.a.rx s = some D) (hcrit : critIn c st.a D = true) :
    st'.pcB s = .tidy .critical := by
  sorry

/-- C09: otherwise, the report of the last non-forever job makes the run end (successfully) -/
theorem last_regular_ends (c : Cfg) (st st' : StB) (s : Nat) (D : List Nat)
    (h : stepB c st (.react s) = some st') (hrx : st.a.rx s = some D) (hcrit : critIn c st.a D = false)
    (hcnt : st.nbDone s + (D.filter fun d => !c.forever d).length = nbFinite c s) :
    st'.pcB s = .tidy .success := by
  sorry

/-- C08: when its deadline is reached and its main wait has nothing to report, `timeoutFire` is enabled -/
theorem expiry_enabled (c : Cfg) (st : StB) (s : Nat) (dl : Nat) (hA : InvA c st.a) (hB : InvB c st)
    (hwf : c.wf = true) (hloop : st.pcB s = .loop) (hdl : st.deadline s = some dl) (hnow : dl ≤ st.a.now)
    (hD : doneSet c st.a s = []) (hrx : st.a.rx s = none) (hc : cancelPending st s = false) :
    ∃ st', stepB c st (.timeoutFire s) = some st' := by
  sorry

/-- C05 / C08 / C09: a run that has left its main loop never starts a job again … -/
theorem no_start_outside_loop (c : Cfg) (hwf : c.wf = true) (st st' : StB) (e : EvB) (s : Nat)
    (hA : InvA c st.a) (hB : InvB c st) (h : stepB c st e = some st')
    (hs : st.pcB s ≠ .loop) (hs2 : st.pcB s ≠ .notBegun) :
    ∀ k ∈ c.children s, st.a.ph k = .idle → st'.a.ph k = .idle := by
  sorry

/-- … and never goes back to it -/
theorem loop_left_for_good (c : Cfg) (st st' : StB) (e : EvB) (s : Nat)
    (hB : InvB c st) (h : stepB c st e = some st') (hs : st.pcB s ≠ .loop) (hs2 : st.pcB s ≠ .notBegun) :
    st'.pcB s ≠ .loop ∧ st'.pcB s ≠ .notBegun := by
  sorry

/-- C04: the step in which a run with jobs ends reports exactly the reason for which it left its loop:
    value / exception (the very exception object of one of its critical jobs, or its own `TimeoutError`),
    `failed_time_out()`, `failed_critical()` -/
theorem verdict_of_exit (c : Cfg) (st st' : StB) (e : EvB) (s : Nat)
    (hB : InvB c st) (h : stepB c st e = some st')
    (hnot : st.pcB s ≠ .over) (hover : st'.pcB s = .over) (hne : c.children s ≠ []) :
    ∃ x, (st.pcB s).exitOf = some x ∧
      st'.failT s = (x == .timeout) ∧ st'.failC s = (x == .critical) ∧
      (match x with
       | .success => st'.a.ph s = .done (.retBool true)
       | .cancelled => st'.a.ph s = .cancelled
       | .timeout => st'.a.ph s =
           if nestable c s && c.critical s then .done (.exc (.tmo s)) else .done (.retBool false)
       | .critical =>
           if nestable c s && c.critical s then
             ∃ k ∈ c.children s, c.critical k = true ∧ ∃ ex, st.a.ph k = .done (.exc ex) ∧ st'.a.ph s = .done (.exc ex)
           else st'.a.ph s = .done (.retBool false)) := by
  sorry

/-- C04: the diagnosis of a run that is over never changes -/
theorem diag_stable (c : Cfg) (st st' : StB) (e : EvB) (s : Nat)
    (hB : InvB c st) (h : stepB c st e = some st') (hover : st.pcB s = .over) :
    st'.pcB s = .over ∧ st'.failT s = st.failT s ∧ st'.failC s = st.failC s ∧ st'.a.ph s = st.a.ph s := by
  sorry

/-! ### what the recorded reason means, in every reachable state -/

/-- what holds, beyond `InvB`, about the reason for which a run left its loop -/
structure ExitInv (c : Cfg) (st : StB) : Prop where
  /-- success: every non-forever job has finished (returned or raised), and no critical job that raised had
      been reported -/
  successMeans : ∀ s, (st.pcB s).exitOf = some .success →
      (∀ k ∈ c.children s, c.forever k = false → (st.a.ph k).isDone = true ∧ st.a.deliv k = true) ∧
      (∀ k ∈ c.children s, c.critical k = true → st.a.deliv k = true → ∀ ex, st.a.ph k ≠ .done (.exc ex))
  /-- critical: a critical job raised -/
  criticalMeans : ∀ s, (st.pcB s).exitOf = some .critical →
      ∃ k ∈ c.children s, c.critical k = true ∧ ∃ ex, st.a.ph k = .done (.exc ex)
  /-- timeout: the scheduler has a timeout and it has elapsed since its run began -/
  timeoutMeans : ∀ s, (st.pcB s).exitOf = some .timeout →
      ∃ T, c.timeout s = some T ∧ st.tbegin s + T ≤ st.a.now
  /-- C02 / C04: a run that ended with `True` has all its non-forever jobs finished (each ran exactly once, by
      `at_most_once`), none of its reported critical jobs raised -/
  trueMeans : ∀ s, s < c.n → c.isSched s = true → st.a.ph s = .done (.retBool true) →
      (∀ k ∈ c.children s, c.forever k = false → (st.a.ph k).isDone = true) ∧
      (∀ k ∈ c.children s, c.critical k = true → st.a.deliv k = true → ∀ ex, st.a.ph k ≠ .done (.exc ex))
  /-- C04 / C08: `failed_time_out()` holds only if the timeout elapsed, `failed_critical()` only if a critical job raised -/
  failTMeans : ∀ s, st.failT s = true → ∃ T, c.timeout s = some T ∧ st.tbegin s + T ≤ st.a.now
  failCMeans : ∀ s, st.failC s = true → ∃ k ∈ c.children s, c.critical k = true ∧ ∃ ex, st.a.ph k = .done (.exc ex)
  /-- C10: where an exception object comes from: an atomic job raises its own; a scheduler re-raises the object
      of one of its critical jobs, or its own `TimeoutError` -/
  excOrigin : ∀ j ex, j < c.n → st.a.ph j = .done (.exc ex) →
      if c.isSched j then
        (ex = .tmo j ∧ c.critical j = true) ∨
        (c.critical j = true ∧ ∃ k ∈ c.children j, c.critical k = true ∧ st.a.ph k = .done (.exc ex))
      else ex = .byJob j

theorem exitInv_reach (c : Cfg) (hwf : c.wf = true) (evs : List EvB) (st : StB)
    (h : acceptB c StB.init evs = some st) : ExitInv c st := by
  sorry

/-- C08: T is measured from the beginning of the scheduler's own run, and the run does not stay in its main loop
    beyond `begin + T` -/
theorem timeout_bounds (c : Cfg) (hwf : c.wf = true) (evs : List EvB) (st : StB)
    (h : acceptB c StB.init evs = some st) (s T : Nat) (hloop : st.pcB s = .loop) (hT : c.timeout s = some T) :
    st.deadline s = some (st.tbegin s + T) ∧ st.a.now ≤ st.tbegin s + T := by
  sorry

end AJ.Proofs.ExitB
