/-
  C20 — DOT export and listing describe the scheduler tree faithfully.
-/
import AJ.Spec
namespace AJ.Proofs.C20
open AJ

/-- labels survive quoting: reading `protect s` back by DOT's rule gives `s`, for every string without
    backslash (quotes, newlines, DOT punctuation, non-ASCII included) -/
theorem quote_roundtrip (s rest : List Char) (h : ∀ c ∈ s, c ≠ '\\') :
    unquoteChars (protectChars s ++ '"' :: rest) = some (s, rest) := by
  sorry

/-- … and the quoted text contains no bare double quote -/
theorem protect_no_bare_quote (s : List Char) (h : ∀ c ∈ s, c ≠ '\\') :
    ∀ pre post, protectChars s = pre ++ '"' :: post → pre.getLast? = some '\\' := by
  sorry

/-- flags are rendered as documented -/
theorem style_critical (c : RenderCtx) (j : Nat) :
    (c.t.critical j = true → ("color", "red") ∈ styleAttrs c j ∧ ("penwidth", "2") ∈ styleAttrs c j) ∧
    (c.t.critical j = false → ("penwidth", "0.5") ∈ styleAttrs c j ∧ ∀ v, ("color", v) ∉ styleAttrs c j) := by
  sorry

theorem style_shape (c : RenderCtx) (j : Nat) :
    ("style", ",".intercalate (styleList c j)) ∈ styleAttrs c j ∧ ("shape", "box") ∈ styleAttrs c j ∧
    ("dashed" ∈ styleList c j ↔ c.t.forever j = true) ∧
    ("rounded" ∈ styleList c j ↔ c.t.isSched j = false) := by
  sorry

/-- the node items are, in order, the atomic jobs of `listing`; the cluster items the nested schedulers -/
theorem dotBody_nodes (t : T) (F fuel s : Nat) (items : List Item) (l : List Nat)
    (h : dotBody t F fuel s = .ok items) (hl : listing t fuel s = .ok l) :
    items.filterMap (fun i => match i with | .node j => some j | _ => none) = l.filter (fun j => !t.isSched j) ∧
    items.filterMap (fun i => match i with | .openCluster j => some j | _ => none) = l.filter (fun j => t.isSched j) := by
  sorry

/-- clusters are well bracketed: every prefix has at least as many `openCluster` as `close`, the whole list as many -/
def depthOk : Nat → List Item → Bool
  | d, [] => d == 0
  | d, .openCluster _ :: r => depthOk (d + 1) r
  | 0, .close :: _ => false
  | d + 1, .close :: r => depthOk d r
  | d, _ :: r => depthOk d r

theorem dotBody_brackets (t : T) (F fuel s : Nat) (items : List Item)
    (h : dotBody t F fuel s = .ok items) : depthOk 0 items = true := by
  sorry

/-- every requirement of every listed job is exactly one edge: the logical endpoints of the edge items
    (cluster if `lhead`/`ltail` is given, node otherwise) are, in order, the pairs (job, requirement) -/
def edgeKey : Item → Option (Nat × Nat)
  | .edge src dst lhead ltail => some (lhead.getD dst, ltail.getD src)
  | _ => none

theorem dotBody_edges (t : T) (F fuel s : Nat) (items : List Item) (l : List Nat)
    (h : dotBody t F fuel s = .ok items) (hl : listing t fuel s = .ok l) :
    (items.filterMap edgeKey).Perm (l.flatMap fun x => (t.req x).map fun r => (x, r)) := by
  sorry

/-- edge endpoints are atomic jobs; `lhead`/`ltail` name a scheduler exactly when the requirement's
    end is a scheduler -/
theorem dotBody_edge_endpoints (t : T) (F fuel s : Nat) (items : List Item)
    (h : dotBody t F fuel s = .ok items) :
    ∀ src dst lh lt, Item.edge src dst lh lt ∈ items →
      t.isSched src = false ∧ t.isSched dst = false ∧
      (∀ c, lh = some c → t.isSched c = true) ∧ (∀ c, lt = some c → t.isSched c = true) := by
  sorry

end AJ.Proofs.C20
