/-
  Layer A, history-level theorems: what the sequence of events says (C01, C02, C14 "truth").
-/
import AJ.Proofs.CoreA
namespace AJ.Proofs.HistA
open AJ.Run AJ.Proofs.CoreA

/-- acceptA of an append -/
theorem acceptA_append (c : Cfg) (st : StA) (e1 e2 : List EvA) :
    acceptA c st (e1 ++ e2) = (acceptA c st e1).bind fun st1 => acceptA c st1 e2 := by
  sorry

/-- C14 (truth): `is_done()` holds exactly when the body finished by returning or raising -/
theorem done_iff_finished (c : Cfg) (hwf : c.wf = true) (evs : List EvA) (st : StA)
    (h : acceptA c StA.init evs = some st) (j : Nat) :
    isDone st j = true ↔ finishedIn c evs j = true := by
  sorry

/-- C14: `is_running()` holds exactly when the body has begun; `is_scheduled` at least then -/
theorem running_iff_begun (c : Cfg) (hwf : c.wf = true) (evs : List EvA) (st : StA)
    (h : acceptA c StA.init evs = some st) (j : Nat) :
    isRunning st j = true ↔ begunIn evs j = true := by
  sorry

/-- C01: in every accepted history, when the body of `j` begins each of its requirements has finished
    (returned or raised; for a nested scheduler: its whole run is over) -/
theorem requirements_first (c : Cfg) (hwf : c.wf = true) (evs : List EvA) (j : Nat) (st : StA)
    (h : acceptA c StA.init (evs ++ [.grant j]) = some st) :
    ∀ r ∈ c.req j, finishedIn c evs r = true := by
  sorry

/-- C01 (nesting): a job of a nested scheduler begins only after the run of that scheduler began
    (hence, by `requirements_first` applied to that prefix, after everything the scheduler requires) -/
theorem parent_first (c : Cfg) (hwf : c.wf = true) (evs : List EvA) (j : Nat) (st : StA)
    (h : acceptA c StA.init (evs ++ [.grant j]) = some st) :
    begunIn evs (c.parent j) = true := by
  sorry

/-- C02: within one run no body is entered more than once -/
theorem at_most_once (c : Cfg) (hwf : c.wf = true) (evs : List EvA) (st : StA)
    (h : acceptA c StA.init evs = some st) (j : Nat) : beginCount evs j ≤ 1 := by
  sorry

end AJ.Proofs.HistA
