/-
  Layer A: the result / exception recorded for a job is the one of the event that finished it (C14 "result() is
  the object its body returned, raised_exception() the exception object it raised, None otherwise").
-/
import AJ.Proofs.HistA
namespace AJ.Proofs.ResA
open AJ.Run

/-- an atomic job's task holds its own return object iff its body returned -/
theorem result_own_iff (c : Cfg) (evs : List EvA) (st : StA) (h : acceptA c StA.init evs = some st) (j : Nat)
    (hatom : c.isSched j = false) :
    st.ph j = .done .retOwn ↔ EvA.bodyEnd j true ∈ evs := by
  sorry

/-- … and the exception object its body raised iff it raised -/
theorem exception_own_iff (c : Cfg) (evs : List EvA) (st : StA) (h : acceptA c StA.init evs = some st) (j : Nat) :
    st.ph j = .done (.exc (.byJob j)) ∧ c.isSched j = false ↔ EvA.bodyEnd j false ∈ evs := by
  sorry

/-- a job that is not done carries neither result nor exception: its phase is not `.done _`
    (`raised_exception()` is None and `result()` raises) -/
theorem no_result_unless_done (c : Cfg) (evs : List EvA) (st : StA) (h : acceptA c StA.init evs = some st) (j : Nat)
    (hnf : finishedIn c evs j = false) : ∀ r, st.ph j ≠ .done r := by
  sorry

/-- the value a nested scheduler's task holds is the one its run ended with -/
theorem sched_result_iff (c : Cfg) (evs : List EvA) (st : StA) (h : acceptA c StA.init evs = some st) (s : Nat) (r : Res)
    (hs : c.isSched s = true) (hne : c.children s ≠ []) :
    st.ph s = .done r ↔ EvA.finish s (some r) ∈ evs := by
  sorry

end AJ.Proofs.ResA
