/-
  Layer B: shutdown reaches every job exactly once, in bounded time (C13); once a run is over nothing it started
  is still running (C11).
-/
import AJ.Proofs.CoreB
namespace AJ.Proofs.ShutB
open AJ.Run AJ.Full AJ.Proofs.CoreA AJ.Proofs.CoreB

/-- `d` is a job of the subtree of scheduler `s`, at any depth -/
inductive DescOf (c : Cfg) : Nat → Nat → Prop
  | child {s k : Nat} : k ∈ c.children s → DescOf c s k
  | deeper {s k d : Nat} : k ∈ c.children s → DescOf c k d → DescOf c s d

/-- C13: `co_shutdown()` is sent to a job only when no job of the same scheduler is unfinished -/
theorem shutdown_when_quiet (c : Cfg) (hwf : c.wf = true) (st st' : StB) (e : EvB) (k : Nat)
    (hA : InvA c st.a) (hB : InvB c st) (h : stepB c st e = some st') (hk : st'.hcalls k ≠ st.hcalls k) :
    0 < k ∧ k < c.n ∧ st'.hcalls k = 1 ∧ ∀ k' ∈ c.children (c.parent k), (st.a.ph k').live = false := by
  sorry

/-- C13: by the time a run is over — whatever the exit path — every job of it, at any depth, whether it ran,
    failed, was cancelled or never started, has received `co_shutdown()` exactly once -/
theorem shutdown_once_at_end (c : Cfg) (hwf : c.wf = true) (evs : List EvB) (st : StB)
    (h : acceptB c StB.init evs = some st) (s : Nat) (hover : st.pcB s = .over) (hne : c.children s ≠ []) :
    ∀ d, DescOf c s d → st.hcalls d = 1 := by
  sorry

/-- C13: the bounded wait of the shutdown phase lasts at most `shutdown_timeout` -/
theorem shutdown_bounded (c : Cfg) (hwf : c.wf = true) (evs : List EvB) (st : StB)
    (h : acceptB c StB.init evs = some st) (s T : Nat) (hw : (st.bc s).isWait = true)
    (hT : c.sdTimeout s = some T) : st.tsd s ≤ st.a.now ∧ st.a.now ≤ st.tsd s + T := by
  sorry

/-- C13: at expiry the handlers still pending are cancelled, at that instant -/
theorem shutdown_expiry_cancels (c : Cfg) (st st' : StB) (s : Nat)
    (h : stepB c st (.sdTimeoutFire s) = some st') :
    (∀ k ∈ c.children s, st.hph k = .hactive → st'.hcreq k = true) ∧ (st'.bc s).isTidy = true ∧ st'.a.now = st.a.now := by
  sorry

/-- C13: `co_shutdown()` reports `True` iff no handler had to be cancelled: the value `some true` is produced only
    by `sdWaitReturn` (all handlers done within the bounded wait), `some false` only by `sdTidyReturn` -/
theorem sdvalue_truthful (c : Cfg) (st st' : StB) (e : EvB) (s : Nat) (b : Bool)
    (h : stepB c st e = some st') (hv : st'.sdValue s = some b) (hchg : st.sdValue s ≠ some b) :
    (b = true → ∃ p, e = .sdWaitReturn s p) ∧ (b = false → ∃ p, e = .sdTidyReturn s p) := by
  sorry

/-- C13: a later `co_shutdown()` sends nothing more: once `_did_shutdown`, no event increases `hcalls` of a job of `s` -/
theorem shutdown_idempotent (c : Cfg) (hwf : c.wf = true) (st st' : StB) (e : EvB) (s : Nat)
    (hA : InvA c st.a) (hB : InvB c st) (h : stepB c st e = some st') (hdid : st.didSd s = true) :
    ∀ k ∈ c.children s, st'.hcalls k = st.hcalls k := by
  sorry

/-- C11: once a run is over, none of its jobs at any depth is executing or waiting, no shutdown handler it
    launched is pending, and its nested schedulers are not in any phase of a run or of a broadcast -/
theorem over_subtree_quiet (c : Cfg) (hwf : c.wf = true) (evs : List EvB) (st : StB)
    (h : acceptB c StB.init evs = some st) (s : Nat) (hover : st.pcB s = .over) :
    ∀ d, DescOf c s d →
      (st.a.ph d).live = false ∧ st.hph d ≠ .hactive ∧
      (c.isSched d = true →
        (st.pcB d = .notBegun ∨ st.pcB d = .over) ∧ (st.bc d).isWait = false ∧ (st.bc d).isTidy = false) := by
  sorry

/-- C11: a run that is over stays over -/
theorem over_is_final (c : Cfg) (st st' : StB) (e : EvB) (s : Nat)
    (hB : InvB c st) (h : stepB c st e = some st') (hover : st.pcB s = .over) : st'.pcB s = .over := by
  sorry

/-- C11: after the top-level run is over, the only thing that can happen is the passing of time -/
theorem top_over_only_ticks (c : Cfg) (hwf : c.wf = true) (evs : List EvB) (st st' : StB) (e : EvB)
    (h : acceptB c StB.init evs = some st) (h0 : st.pcB 0 = .over) (hs : stepB c st e = some st') :
    ∃ d, e = .tick d := by
  sorry

end AJ.Proofs.ShutB
