/-
  Layer A of the dynamic model: the invariant of reachable states and the state-level theorems behind
  C01, C02 (at most once), C07, C12, C14.
-/
import AJ.Model.Run
import AJ.Model.Hist
namespace AJ.Proofs.CoreA
open AJ.Run

/-- number of children of `s` whose body is executing -/
def runningCount (c : Cfg) (st : StA) (s : Nat) : Nat :=
  ((c.children s).filter fun k => st.ph k == .running).length

/-- what holds in every reachable state of layer A -/
structure InvA (c : Cfg) (st : StA) : Prop where
  /-- only jobs of the configuration ever leave `idle` -/
  phRange : ∀ j, st.ph j ≠ .idle → j < c.n
  /-- a scheduler whose task is idle or queued has not begun its run -/
  notBegun : ∀ s, c.isSched s = true → (st.ph s = .idle ∨ st.ph s = .queued) → st.pc s = .notBegun
  /-- the jobs of a scheduler that has not begun are idle -/
  childIdle : ∀ k, 0 < k → k < c.n → st.pc (c.parent k) = .notBegun → st.ph k = .idle
  /-- `_running` is false before the slot is taken, true from then on -/
  rflagOff : ∀ j, (st.ph j = .idle ∨ st.ph j = .queued) → st.rflag j = false
  rflagOn : ∀ j, (st.ph j = .running ∨ (st.ph j).isDone = true) → st.rflag j = true
  /-- only finished tasks are handed over by `asyncio.wait` -/
  delivFin : ∀ k, st.deliv k = true → ((st.ph k).isDone = true ∨ st.ph k = .cancelled)
  /-- C01: a job that was started has all its requirements finished -/
  reqsDone : ∀ k, 0 < k → k < c.n → st.ph k ≠ .idle → ∀ r ∈ c.req k, (st.ph r).isDone = true
  /-- a pending reaction belongs to a run in its main loop, and its `done` set was handed over -/
  rxLoop : ∀ s D, st.rx s = some D → st.pc s = .loop ∧ ∀ d ∈ D, st.deliv d = true
  /-- C07: the window queue holds one item per executing job -/
  qcountEq : ∀ s, s < c.n → c.isSched s = true → st.qcount s = runningCount c st s
  qcountLe : ∀ s, s < c.n → c.isSched s = true → c.window s ≠ 0 → st.qcount s ≤ c.window s
  /-- C02: bodies are entered at most once, no task is created twice -/
  entries0 : ∀ j, (st.ph j = .idle ∨ st.ph j = .queued) → st.entries j = 0
  entries1 : ∀ j, st.entries j ≤ 1
  noDbl : st.dbl = false
  /-- C12: while a run is in its main loop, an idle job has a requirement that is not
      finished-and-reported-and-reacted-to -/
  eager : ∀ s, st.pc s = .loop → ∀ k ∈ c.children s, st.ph k = .idle →
            ∃ r ∈ c.req k, ¬ ((st.ph r).isDone = true ∧ st.deliv r = true ∧ r ∉ (st.rx s).getD [])
  /-- cancellation is only pending on unfinished tasks -/
  creqLive : ∀ j, st.creq j = true → (st.ph j).live = true

theorem invA_init (c : Cfg) : InvA c StA.init := by
  sorry

theorem invA_step (c : Cfg) (hwf : c.wf = true) (st st' : StA) (e : EvA)
    (hinv : InvA c st) (h : stepA c st e = some st') : InvA c st' := by
  sorry

theorem invA_reach (c : Cfg) (hwf : c.wf = true) (evs : List EvA) (st : StA)
    (h : acceptA c StA.init evs = some st) : InvA c st := by
  sorry

/-! ### per-step facts (no invariant needed) -/

/-- a finished job keeps its result; no life-cycle predicate ever reverts -/
theorem step_monotone (c : Cfg) (st st' : StA) (e : EvA) (h : stepA c st e = some st') (j : Nat) :
    (∀ r, st.ph j = .done r → st'.ph j = .done r) ∧
    (isScheduled st j = true → isScheduled st' j = true) ∧
    (isRunning st j = true → isRunning st' j = true) ∧
    (isDone st j = true → isDone st' j = true) := by
  sorry

/-! ### state-level property theorems -/

/-- C07: at no instant do more than `jobs_window` jobs of one scheduler execute their bodies -/
theorem window_respected (c : Cfg) (hwf : c.wf = true) (evs : List EvA) (st : StA)
    (h : acceptA c StA.init evs = some st) (s : Nat) (hs : s < c.n) (hsch : c.isSched s = true)
    (hw : c.window s ≠ 0) : runningCount c st s ≤ c.window s := by
  sorry

/-- C14: the implication chain between the predicates, in every reachable state -/
theorem predicates_chain (c : Cfg) (hwf : c.wf = true) (evs : List EvA) (st : StA)
    (h : acceptA c StA.init evs = some st) (j : Nat) :
    (isDone st j = true → isRunning st j = true) ∧
    (isRunning st j = true → isScheduled st j = true) ∧
    (isIdle st j = !isScheduled st j) ∧
    (st.ph j = .queued → isScheduled st j = true ∧ isRunning st j = false) ∧
    ((st.ph j = .cancelled ∨ st.ph j = .idle) → isDone st j = false) := by
  sorry

/-- C12: whenever the clock can advance (nothing urgent is pending), every scheduler in its main loop has
    started every job whose requirements are finished, and keeps a job waiting for a slot only if its
    window is full (or the job is being cancelled) -/
theorem eager_at_quiescence (c : Cfg) (hwf : c.wf = true) (evs : List EvA) (st st' : StA) (d : Nat)
    (h : acceptA c StA.init evs = some st) (htick : stepA c st (.tick d) = some st')
    (s : Nat) (hs : s < c.n) (hsch : c.isSched s = true) (hloop : st.pc s = .loop) :
    ∀ k ∈ c.children s,
      (st.ph k = .idle → ∃ r ∈ c.req k, (st.ph r).isDone = false) ∧
      (st.ph k = .queued → st.creq k = true ∨ (c.window s ≠ 0 ∧ runningCount c st s = c.window s)) := by
  sorry

end AJ.Proofs.CoreA
