/-
  C15 — cycle detection is exact; topological order is a valid linear extension.
  Proofs about `topo`, `checkCyclesPure`, `checkCyclesNested`, `assignIds`, `listing`.
-/
import AJ.Spec
namespace AJ.Proofs.C15
open AJ

/-- every job exactly once -/
theorem topo_perm (t : T) (s : Nat) (l : List Nat) (hnd : (t.mem s).Nodup)
    (h : topo t s = .ok l) : l.Perm (t.mem s) := by
  sorry

/-- each job after all of its requirements -/
theorem topo_order (t : T) (s : Nat) (l : List Nat) (h : topo t s = .ok l) :
    ∀ a x b, l = a ++ x :: b → ∀ y ∈ t.req x, y ∈ a := by
  sorry

/-- the fuel is never the reason the loop stops -/
theorem topo_never_fuel (t : T) (s : Nat) (ext : List Nat) (hnd : (t.mem s).Nodup) :
    topo t s ext ≠ .error .fuel := by
  sorry

/-- exactness: an order is produced iff the (closed) requirement graph is acyclic -/
theorem topo_iff (t : T) (s : Nat) (hnd : (t.mem s).Nodup) (hcl : Closed t s) :
    (∃ l, topo t s = .ok l) ↔ Acyclic t s := by
  sorry

/-- on a cyclic graph it raises (the `Exception` of purescheduler.py:362), it does not loop or drop jobs -/
theorem topo_raises (t : T) (s : Nat) (hnd : (t.mem s).Nodup) (hcl : Closed t s)
    (hcyc : ¬ Acyclic t s) : topo t s = .error .cycle := by
  sorry

theorem check_pure_iff (t : T) (s : Nat) (hnd : (t.mem s).Nodup) (hcl : Closed t s) :
    checkCyclesPure t s = true ↔ Acyclic t s := by
  sorry

/-- `Scheduler.check_cycles`: true iff the scheduler and every nested scheduler at any depth is acyclic.
    Hypotheses: every scheduler of the subtree has duplicate-free members, is closed, and its members have
    larger ids than itself, below `t.n` (what `T.wf` gives); the fuel covers the depth. -/
theorem check_nested_iff (t : T) (fuel s : Nat)
    (hwf : ∀ s', (s' = s ∨ Desc t s s') → t.isSched s' = true →
        (t.mem s').Nodup ∧ Closed t s' ∧ ∀ k ∈ t.mem s', s' < k ∧ k < t.n)
    (hs : s < t.n) (hfuel : t.n - s ≤ fuel) (hsched : t.isSched s = true) :
    checkCyclesNested t fuel s = true ↔
      (Acyclic t s ∧ ∀ s', Desc t s s' → t.isSched s' = true → Acyclic t s') := by
  sorry

/-- ids given by `_set_sched_ids` are consecutive from `start`, in the order of `listing` -/
theorem ids_consecutive (t : T) (fuel s start nxt : Nat) (l : List (Nat × Nat))
    (h : assignIds t fuel s start = .ok (nxt, l)) :
    l.map (·.2) = List.range' start l.length ∧ nxt = start + l.length ∧
    listing t fuel s = .ok (l.map (·.1)) := by
  sorry

/-- within one scheduler a requirement is listed (hence numbered) before its dependant:
    `listing` of `s` restricted to the direct members of `s` is `topo t s` -/
theorem listing_members (t : T) (fuel s : Nat) (l lt : List Nat)
    (hnd : (t.mem s).Nodup)
    (hwf : ∀ s', (s' = s ∨ Desc t s s') → t.isSched s' = true →
        (t.mem s').Nodup ∧ ∀ k ∈ t.mem s', s' < k ∧ k < t.n)
    (hdisj : ∀ k ∈ t.mem s, ∀ d, Desc t k d → d ∉ t.mem s)
    (h : listing t (fuel + 1) s = .ok l) (ht : topo t s = .ok lt) :
    l.filter (· ∈ t.mem s) = lt := by
  sorry

end AJ.Proofs.C15
