/-
  C16 — sanitize() closes the requirement relation minimally and reports truthfully.
-/
import AJ.Spec
namespace AJ.Proofs.C16
open AJ

/-- the tree hypotheses `T.wf` provides, for the subtree of `s`: members have larger ids (so the
    nesting is well founded) and no job is a member of two schedulers of the subtree -/
structure TreeAt (t : T) (s : Nat) : Prop where
  lt : ∀ s', (s' = s ∨ Desc t s s') → ∀ k ∈ t.mem s', s' < k ∧ k < t.n
  atomic : ∀ k, t.isSched k = false → t.mem k = []
  unique : ∀ s1 s2 k, (s1 = s ∨ Desc t s s1) → (s2 = s ∨ Desc t s s2) → k ∈ t.mem s1 → k ∈ t.mem s2 → s1 = s2

/-- sanitize never touches membership, flags, or anything but `req` -/
theorem sanitize_frame (t : T) (fuel s : Nat) :
    (sanitize t fuel s).1.mem = t.mem ∧ (sanitize t fuel s).1.isSched = t.isSched ∧
    (sanitize t fuel s).1.forever = t.forever ∧ (sanitize t fuel s).1.critical = t.critical ∧
    (sanitize t fuel s).1.n = t.n := by
  sorry

/-- minimality and closure in one statement: every member `x` of every scheduler `s'` of the subtree keeps
    exactly those of its requirements that are members of `s'`; every other job is untouched -/
theorem sanitize_req (t : T) (fuel s : Nat) (hs : t.isSched s = true) (hlt : s < t.n)
    (hfuel : t.n - s ≤ fuel) (htree : TreeAt t s) :
    (∀ s', (s' = s ∨ Desc t s s') → t.isSched s' = true → ∀ x ∈ t.mem s',
        (sanitize t fuel s).1.req x = (t.req x).filter (· ∈ t.mem s')) ∧
    (∀ x, (∀ s', (s' = s ∨ Desc t s s') → t.isSched s' = true → x ∉ t.mem s') →
        (sanitize t fuel s).1.req x = t.req x) := by
  sorry

/-- after sanitize, the scheduler and every nested scheduler is closed -/
theorem sanitize_closed (t : T) (fuel s : Nat) (hs : t.isSched s = true) (hlt : s < t.n)
    (hfuel : t.n - s ≤ fuel) (htree : TreeAt t s) :
    ∀ s', (s' = s ∨ Desc t s s') → t.isSched s' = true → Closed (sanitize t fuel s).1 s' := by
  sorry

/-- the boolean is `true` iff nothing was removed anywhere -/
theorem sanitize_flag (t : T) (fuel s : Nat) (hs : t.isSched s = true) (hlt : s < t.n)
    (hfuel : t.n - s ≤ fuel) (htree : TreeAt t s) :
    (sanitize t fuel s).2 = true ↔ ∀ x, (sanitize t fuel s).1.req x = t.req x := by
  sorry

/-- a second call returns `true` and changes nothing -/
theorem sanitize_idempotent (t : T) (fuel s : Nat) (hs : t.isSched s = true) (hlt : s < t.n)
    (hfuel : t.n - s ≤ fuel) (htree : TreeAt t s) :
    (sanitize (sanitize t fuel s).1 fuel s).2 = true ∧
    (sanitize (sanitize t fuel s).1 fuel s).1.req = (sanitize t fuel s).1.req := by
  sorry

end AJ.Proofs.C16
