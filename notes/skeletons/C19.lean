/-
  C19 — the construction API builds exactly the documented requirement edges.
-/
import AJ.Spec
namespace AJ.Proofs.C19
open AJ

/-- `requires(*args)` (no remove): never fails, adds exactly the jobs the arguments stand for, minus the job
    itself; nobody else's requirements, no sequence and no scheduler changes -/
theorem requires_add (h : Heap) (j : Nat) (args : List Arg) :
    (reqArgs j false h args).2 = none ∧
    (∀ x, x ∈ (reqArgs j false h args).1.req j ↔ (x ∈ h.req j ∨ (x ∈ flats h args ∧ x ≠ j))) ∧
    (∀ k, k ≠ j → (reqArgs j false h args).1.req k = h.req k) ∧
    (reqArgs j false h args).1.seqJobs = h.seqJobs ∧ (reqArgs j false h args).1.mem = h.mem ∧
    (reqArgs j false h args).1.seqSched = h.seqSched := by
  sorry

/-- no duplicates are created -/
theorem requires_add_nodup (h : Heap) (j : Nat) (args : List Arg) (hnd : (h.req j).Nodup) :
    ((reqArgs j false h args).1.req j).Nodup := by
  sorry

/-- `requires(*args, remove=True)` removes exactly the named requirements, `KeyError` iff one is absent when
    its turn comes -/
theorem requires_remove (h : Heap) (j : Nat) (args : List Arg) :
    match removeAll (h.req j) (flats h args) with
    | some l => reqArgs j true h args = (h.setReq j l, none) ∨
                (l = h.req j ∧ reqArgs j true h args = (h, none))
    | none => (reqArgs j true h args).2 = some Err.keyError := by
  sorry

/-- a job never requires itself: invariant of every statement -/
theorem no_self (h : Heap) (op : Op) (hinv : ∀ j, j ∉ h.req j) :
    ∀ j, j ∉ (interp h op).1.req j := by
  sorry

/-- `chain` links every job to its predecessor in the list (when different) -/
theorem chain_links (h : Heap) (prev : Option Nat) (l : List Nat) :
    ∀ p ∈ pairs (prev.toList ++ l), p.1 ≠ p.2 → p.1 ∈ (chain h prev l).req p.2 := by
  sorry

/-- and adds nothing else -/
theorem chain_only (h : Heap) (prev : Option Nat) (l : List Nat) (x y : Nat)
    (hy : y ∈ (chain h prev l).req x) : y ∈ h.req x ∨ ((y, x) ∈ pairs (prev.toList ++ l) ∧ y ≠ x) := by
  sorry

/-- `Sequence(*items, required=r)`: the sequence holds the flattened jobs in order; each requires its
    predecessor; the first one received `required=`; no other requirement was added, none removed -/
theorem newSeq_spec (h : Heap) (q : Nat) (items : List Arg) (r : Arg) (sch : Option Nat) :
    let h' := (interp h (.newSeq q items r sch)).1
    let js := flattenSeq h items
    (interp h (.newSeq q items r sch)).2 = none ∧
    h'.seqJobs q = js ∧
    (∀ p ∈ pairs js, p.1 ≠ p.2 → p.1 ∈ h'.req p.2) ∧
    (∀ j0, js.head? = some j0 → ∀ x ∈ flat (h.setSeqJobs q js) r, x ≠ j0 → x ∈ h'.req j0) ∧
    (∀ x y, y ∈ h'.req x → y ∈ h.req x ∨ ((y, x) ∈ pairs js ∧ y ≠ x) ∨
        (js.head? = some x ∧ y ∈ flat (h.setSeqJobs q js) r ∧ y ≠ x)) ∧
    (∀ x y, y ∈ h.req x → y ∈ h'.req x) := by
  sorry

/-- `q.append(*items)` with at least one argument: the new jobs are chained behind the last one -/
theorem append_spec (h : Heap) (q : Nat) (items : List Arg) (hne : items ≠ []) :
    let h' := (interp h (.append q items)).1
    let new := flattenSeq h items
    (interp h (.append q items)).2 = none ∧
    h'.seqJobs q = h.seqJobs q ++ new ∧
    (∀ p ∈ pairs ((h.seqJobs q).getLast?.toList ++ new), p.1 ≠ p.2 → p.1 ∈ h'.req p.2) ∧
    (∀ x y, y ∈ h'.req x → y ∈ h.req x ∨
        ((y, x) ∈ pairs ((h.seqJobs q).getLast?.toList ++ new) ∧ y ≠ x)) ∧
    (∀ x y, y ∈ h.req x → y ∈ h'.req x) := by
  sorry

/-- `scheduler=`, `add()`, `update()` register every job involved, once -/
theorem register_spec (h : Heap) (s : Nat) (js : List Nat) (hnd : (h.mem s).Nodup) :
    (∀ x, x ∈ (register h (some s) js).mem s ↔ (x ∈ h.mem s ∨ x ∈ js)) ∧
    ((register h (some s) js).mem s).Nodup ∧
    (∀ k, k ≠ s → (register h (some s) js).mem k = h.mem k) := by
  sorry

end AJ.Proofs.C19
