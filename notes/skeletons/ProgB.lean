/-
  Layer B: progress (C03) — failures and windows never wedge a run: whenever something must happen "now" some
  event other than the passing of time is enabled, and whenever time may pass with the top-level run unfinished,
  something that takes finite time is in flight (a job body, a shutdown handler) or a deadline is armed.
-/
import AJ.Proofs.CoreB
namespace AJ.Proofs.ProgB
open AJ.Run AJ.Full AJ.Proofs.CoreA AJ.Proofs.CoreB

/-- C03 (no zero-time deadlock): in every reachable state, if the clock may not advance because something urgent
    is pending, then some event other than `tick` is enabled -/
theorem urgent_enabled (c : Cfg) (hwf : c.wf = true) (evs : List EvB) (st : StB)
    (h : acceptB c StB.init evs = some st) (hq : quietB c st = false) :
    ∃ e st', (∀ d, e ≠ .tick d) ∧ stepB c st e = some st' := by
  sorry

/-- C03 (deadlines are met): if nothing urgent is pending but the clock may not advance by 1 because an armed
    deadline has been reached, then the corresponding expiry event is enabled -/
theorem deadline_enabled (c : Cfg) (hwf : c.wf = true) (evs : List EvB) (st : StB)
    (h : acceptB c StB.init evs = some st) (hq : quietB c st = true)
    (hno : stepB c st (.tick 1) = none) :
    ∃ s st', stepB c st (.timeoutFire s) = some st' ∨ stepB c st (.sdTimeoutFire s) = some st' := by
  sorry

/-- something that ends by itself in finite time (assumption A6) or at a known instant is in flight -/
def InFlight (c : Cfg) (st : StB) : Prop :=
  (∃ j, j < c.n ∧ c.isSched j = false ∧ st.a.ph j = .running) ∨
  (∃ j, j < c.n ∧ c.isSched j = false ∧ st.hph j = .hactive) ∨
  (∃ s dl, s < c.n ∧ st.pcB s = .loop ∧ st.deadline s = some dl) ∨
  (∃ s dl, s < c.n ∧ (st.bc s).isWait = true ∧ st.hdeadline s = some dl)

/-- C03 (never wedged): in every reachable state in which the top-level run has begun and is not over, and
    nothing urgent is pending, something is in flight: a run never sits waiting for nothing.
    (With the slot leak of defect D1 this was false: jobs queued for a slot, none running, no deadline.) -/
theorem never_wedged (c : Cfg) (hwf : c.wf = true) (evs : List EvB) (st : StB)
    (h : acceptB c StB.init evs = some st) (hb : st.pcB 0 ≠ .notBegun) (ho : st.pcB 0 ≠ .over)
    (hq : quietB c st = true) : InFlight c st := by
  sorry

end AJ.Proofs.ProgB
