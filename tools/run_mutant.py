#!/usr/bin/env python3
"""
tools/run_mutant.py <patch.diff> [ids...]   — apply a patch to /repo, run the quick checks (all 20 by default, in
parallel, evidence and replays redirected to a scratch directory), undo the patch, print which checks fired.
Never leaves /repo modified.
"""
import json, os, subprocess, sys, tempfile, shutil
from concurrent.futures import ThreadPoolExecutor
V = os.path.dirname(os.path.dirname(os.path.abspath(__file__)))
patch = os.path.abspath(sys.argv[1])
ids = sys.argv[2:] or ["C%02d" % i for i in range(1, 21)]
st = subprocess.run(["git", "-C", "/repo", "status", "--porcelain", "--untracked-files=no"], capture_output=True, text=True).stdout
if st.strip():
    sys.exit("/repo is not clean: " + st)
tmp = tempfile.mkdtemp(prefix="mutrun-")
r = subprocess.run(["git", "-C", "/repo", "apply", patch], capture_output=True, text=True)
if r.returncode:
    sys.exit("patch does not apply: " + r.stderr)
try:
    env = dict(os.environ, AJ_EVIDENCE_DIR=os.path.join(tmp, "ev"), AJ_REPLAY_DIR=os.path.join(tmp, "rp"))
    def one(pid):
        p = subprocess.run([os.path.join(V, "check"), pid, "--no-audit"], capture_output=True, text=True, env=env, cwd=V, timeout=1200)
        lines = [l for l in p.stdout.split("\n") if l.startswith(("VIOLATION", "KNOWN", "  clause", "  mismatch", "FAIL", "ok"))]
        return pid, p.returncode, lines
    with ThreadPoolExecutor(8) as ex:
        res = list(ex.map(one, ids))
finally:
    subprocess.run(["git", "-C", "/repo", "checkout", "--", "."])
fired = []
for pid, rc, lines in res:
    tag = "ok" if rc == 0 else ("VIOLATION" if rc == 1 else "INFRA")
    nf = any("no-failing-input-found" in l for l in lines)
    print("%s %-10s %s" % (pid, tag + ("(no-input)" if nf else ""), (lines[1] if rc and len(lines) > 1 else "")[:160]))
    if rc == 1:
        fired.append(pid + ("~" if nf else ""))
    if rc == 1:
        for l in lines[2:5]:
            print("      ", l[:200])
print("FIRED:", " ".join(fired) or "-")
shutil.rmtree(tmp, ignore_errors=True)
