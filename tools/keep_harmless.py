#!/usr/bin/env python3
"""
tools/keep_harmless.py <name> <dir with patch.diff NOTES.md>
A behaviour-preserving rewrite of /repo written by a sub-agent: confirms in a scratch worktree that the patch applies and
the pinned suite passes with it, runs every quick check of /verif against it (tools/run_mutant.py: git apply ... git
checkout -- .), and stores it as /verif/harmless/<name>/ (patch.diff, NOTES.md, meta.json with the checks that fired:
every one of them is a false alarm, or an alarm of the permitted kind `no-failing-input-found`).
"""
import json, os, shutil, subprocess, sys, time
V = os.path.dirname(os.path.dirname(os.path.abspath(__file__)))
name, src = sys.argv[1], os.path.abspath(sys.argv[2])
wt = "/tmp/harmcheck-" + name
subprocess.run(["git", "-C", "/repo", "worktree", "remove", "--force", wt], capture_output=True)
subprocess.run(["git", "-C", "/repo", "worktree", "add", "-q", wt, "HEAD"], check=True)
meta = {"name": name, "kind": "behaviour-preserving rewrite", "confirmed_at": time.strftime("%Y-%m-%d %H:%M:%S")}
try:
    p = subprocess.run(["git", "-C", wt, "apply", os.path.join(src, "patch.diff")], capture_output=True, text=True)
    meta["patch_applies"] = p.returncode == 0
    if p.returncode == 0:
        env = dict(os.environ, PYTHONPATH=wt)
        t = subprocess.run(["/venv/bin/python", "-m", "pytest", "-q", "-p", "no:cacheprovider", "--timeout=900",
                            "--deselect", "tests/test_nesting.py::Tests::test_nesting1"], cwd=wt, env=env, capture_output=True, text=True)
        if t.returncode != 0:       # timing-sensitive tests can flake under load: once more
            t = subprocess.run(["/venv/bin/python", "-m", "pytest", "-q", "-p", "no:cacheprovider", "--timeout=900",
                                "--deselect", "tests/test_nesting.py::Tests::test_nesting1"], cwd=wt, env=env, capture_output=True, text=True)
        tail = [l for l in t.stdout.strip().split("\n") if l][-1] if t.stdout.strip() else ""
        meta["test_suite_on_changed"] = {"exit": t.returncode, "summary": tail}
        st = subprocess.run(["git", "-C", wt, "diff", "--shortstat"], capture_output=True, text=True).stdout.strip()
        meta["size"] = st
finally:
    subprocess.run(["git", "-C", "/repo", "worktree", "remove", "--force", wt], capture_output=True)
if meta.get("patch_applies") and meta["test_suite_on_changed"]["exit"] == 0:
    r = subprocess.run([sys.executable, os.path.join(V, "tools", "run_mutant.py"), os.path.join(src, "patch.diff")], capture_output=True, text=True)
    fired = [l for l in r.stdout.split("\n") if l.startswith("FIRED:")]
    meta["checks_fired"] = [x for x in (fired[0][7:].split() if fired else ["?"]) if x != "-"]
    meta["check_output"] = [l[:220] for l in r.stdout.split("\n") if l[:1] == "C" and " ok " not in l]
dst = os.path.join(V, "harmless", name)
os.makedirs(dst, exist_ok=True)
for f in ("patch.diff", "NOTES.md"):
    if os.path.exists(os.path.join(src, f)):
        shutil.copy(os.path.join(src, f), os.path.join(dst, f))
json.dump(meta, open(os.path.join(dst, "meta.json"), "w"), indent=1)
print(name, meta.get("size"), "suite:", meta.get("test_suite_on_changed", {}).get("summary"), "fired:", " ".join(meta.get("checks_fired", ["?"])) or "-")
