#!/usr/bin/env python3
"""writes /verif/MANIFEST.json from tools/manifest_props.json (per-property texts)"""
import json, os
HERE = os.path.dirname(os.path.abspath(__file__))
V = os.path.join(HERE, "..")
props = json.load(open(os.path.join(HERE, "manifest_props.json")))
BASE = "cd /repo && /venv/bin/python -m pytest -ra -q -p no:cacheprovider --timeout=900 --continue-on-collection-errors"
m = {
 "version": 1,
 "setup_cmd": "cd lean && lake build AJ ajdriver",
 "hooks": {"guard": "ASYNCIOJOBS_VERIF",
           "enable": "no hook is compiled into the package: all observation is done from outside (asyncio-level probes and verification-side job classes in harness/dyn_rt.py); the guard name is reserved and unused",
           "baseline_off_cmd": BASE, "source_commits": [], "add_only": True},
 "engines": [
  {"name": "lean-model", "path": "lean/", "serves_properties": sorted(props),
   "kind_free_text": "hand-written Lean 4 models (lean/AJ/Model) + property theorems (lean/AJ/Props, generated from the proved lemmas of lean/AJ/Proofs) + compiled line-protocol driver (lean/Driver.lean)"},
  {"name": "correspondence-harness", "path": "harness/", "serves_properties": sorted(props),
   "kind_free_text": "Python 3.12 harness driving the real library in-process (virtual-time loop, recorded iteration orders), reference oracles, differential comparison with the Lean driver"}],
 "checks": [], "not_applicable": [],
 "notes": "Every check: ./check <id> --tier quick|thorough. Decision procedure: DESIGN.md 3.4. Known findings: known_findings.json."}
for pid in sorted(props):
    p = props[pid]
    if p.get("not_applicable"):
        m["not_applicable"].append({"property_id": pid, "reason": p["not_applicable"]})
        continue
    m["checks"].append({
        "property_id": pid,
        "quick_cmd": "./check %s --tier quick" % pid,
        "thorough_cmd": "./check %s --tier thorough" % pid,
        "evidence_file": "evidence/%s.json" % pid,
        "replay_cmd_template": "./check %s --replay {path}" % pid,
        "engine": "lean-model",
        "level_claimed": {"category": "proof", "text": p["text"], "design_ref": p.get("design_ref", "DESIGN.md section 6, " + pid)},
        "level_note": p["note"],
        "technique": p["technique"]})
for i in range(1, 21):
    pid = "C%02d" % i
    if pid not in props:
        m["not_applicable"].append({"property_id": pid, "reason": "not claimed yet: the check for this property is still being built (the technique applies; see DESIGN.md section 6)"})
json.dump(m, open(os.path.join(V, "MANIFEST.json"), "w"), indent=1)
print("MANIFEST.json:", len(m["checks"]), "checks,", len(m["not_applicable"]), "not applicable")
