#!/usr/bin/env python3
"""
tools/recheck_seeded.py [names...] — after a change to the harness or the models: every seeded change is applied in its
own scratch worktree of /repo (outside /repo and /verif, removed afterwards) and the quick check of the property it
breaks is run against that worktree (AJ_REPO); prints the changes that are no longer caught with a failing input.
(The authoritative run of all 20 checks against /repo itself is tools/run_mutant.py.)
"""
import glob, json, os, subprocess, sys, tempfile, shutil
from concurrent.futures import ThreadPoolExecutor
V = os.path.dirname(os.path.dirname(os.path.abspath(__file__)))
names = sys.argv[1:] or [os.path.basename(d) for d in sorted(glob.glob(os.path.join(V, "seeded", "*")))]
root = tempfile.mkdtemp(prefix="recheck-")

def one(name):
    d = os.path.join(V, "seeded", name)
    m = json.load(open(os.path.join(d, "meta.json")))
    pid = m["breaks_property"]
    wt = os.path.join(root, name)
    subprocess.run(["git", "-C", "/repo", "worktree", "add", "-q", "--detach", wt, "HEAD"], check=True, capture_output=True)
    try:
        r = subprocess.run(["git", "-C", wt, "apply", os.path.join(d, "patch.diff")], capture_output=True, text=True)
        if r.returncode:
            return name, pid, "PATCH-DOES-NOT-APPLY"
        env = dict(os.environ, AJ_REPO=wt, AJ_EVIDENCE_DIR=os.path.join(wt, "_ev"), AJ_REPLAY_DIR=os.path.join(wt, "_rp"))
        p = subprocess.run([os.path.join(V, "check"), pid, "--no-audit"], capture_output=True, text=True, env=env, cwd=V, timeout=1200)
        viol = [l for l in p.stdout.split("\n") if l.startswith("VIOLATION")]
        if p.returncode == 1 and viol and "no-failing-input-found" not in viol[0]:
            return name, pid, "caught"
        if p.returncode == 1:
            return name, pid, "tie-only"
        return name, pid, "MISSED rc=%d" % p.returncode
    finally:
        subprocess.run(["git", "-C", "/repo", "worktree", "remove", "--force", wt], capture_output=True)

with ThreadPoolExecutor(6) as ex:
    res = list(ex.map(one, names))
shutil.rmtree(root, ignore_errors=True)
subprocess.run(["git", "-C", "/repo", "worktree", "prune"])
bad = [r for r in res if r[2] != "caught"]
print("%d seeded changes re-checked against the check of their own property: %d caught with a failing input" % (len(res), len(res) - len(bad)))
for r in bad:
    print("  %s (%s): %s" % r)
sys.exit(1 if bad else 0)
