#!/usr/bin/env python3
"""prints the table of behaviour-preserving rewrites (harmless/*/meta.json) for DESIGN.md I.8"""
import glob, json, os
V = os.path.dirname(os.path.dirname(os.path.abspath(__file__)))
print("| rewrite | size | suite | checks that fired |")
print("|---|---|---|---|")
for d in sorted(glob.glob(os.path.join(V, "harmless", "*"))):
    m = json.load(open(os.path.join(d, "meta.json")))
    print("| %s | %s | %s | %s |" % (m["name"], m.get("size", ""), m.get("test_suite_on_changed", {}).get("summary", "").split(",")[0],
                                  " ".join(m.get("checks_fired", [])) or "none"))
