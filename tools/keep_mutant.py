#!/usr/bin/env python3
"""
tools/keep_mutant.py <name> <dir with patch.diff demo.py NOTES.md> <property id>
Confirms a seeded change in a scratch worktree of /repo (patch applies; the unedited test-suite passes with it;
demo.py fails with it and passes without it), runs the quick checks of /verif against it, and stores it as
/verif/seeded/<name>/ (patch.diff, demo.py, NOTES.md, meta.json). /repo itself is modified only for the duration of
the checks (git apply ... git checkout -- .).
"""
import json, os, shutil, subprocess, sys, time
V = os.path.dirname(os.path.dirname(os.path.abspath(__file__)))
name, src, pid = sys.argv[1], os.path.abspath(sys.argv[2]), sys.argv[3]
wt = "/tmp/mutcheck-" + name
subprocess.run(["git", "-C", "/repo", "worktree", "remove", "--force", wt], capture_output=True)
subprocess.run(["git", "-C", "/repo", "worktree", "add", "-q", wt, "HEAD"], check=True)
meta = {"name": name, "breaks_property": pid, "confirmed_at": time.strftime("%Y-%m-%d %H:%M:%S")}
try:
    env = dict(os.environ, PYTHONPATH=wt)
    def demo():
        shutil.copy(os.path.join(src, "demo.py"), os.path.join(wt, "demo.py"))
        p = subprocess.run(["timeout", "300", "/venv/bin/python", "demo.py"], cwd=wt, env=env, capture_output=True, text=True)
        return p.returncode, (p.stdout + p.stderr)[-400:]
    rc0, out0 = demo()
    meta["demo_on_original"] = {"exit": rc0, "tail": out0}
    p = subprocess.run(["git", "-C", wt, "apply", os.path.join(src, "patch.diff")], capture_output=True, text=True)
    meta["patch_applies"] = p.returncode == 0
    if p.returncode:
        print("patch does not apply", p.stderr)
    else:
        rc1, out1 = demo()
        meta["demo_on_changed"] = {"exit": rc1, "tail": out1}
        t = subprocess.run(["/venv/bin/python", "-m", "pytest", "-q", "-p", "no:cacheprovider", "--timeout=900",
                            "--deselect", "tests/test_nesting.py::Tests::test_nesting1"], cwd=wt, env=env, capture_output=True, text=True)
        tail = [l for l in t.stdout.strip().split("\n") if l][-1] if t.stdout.strip() else ""
        if t.returncode != 0:   # timing-sensitive tests can flake under load: once more
            t = subprocess.run(["/venv/bin/python", "-m", "pytest", "-q", "-p", "no:cacheprovider", "--timeout=900",
                                "--deselect", "tests/test_nesting.py::Tests::test_nesting1"], cwd=wt, env=env, capture_output=True, text=True)
            tail = [l for l in t.stdout.strip().split("\n") if l][-1] if t.stdout.strip() else ""
        meta["test_suite_on_changed"] = {"exit": t.returncode, "summary": tail}
finally:
    subprocess.run(["git", "-C", "/repo", "worktree", "remove", "--force", wt], capture_output=True)
ok = meta.get("patch_applies") and meta["demo_on_original"]["exit"] == 0 and meta.get("demo_on_changed", {}).get("exit", 0) != 0 \
    and meta.get("test_suite_on_changed", {}).get("exit") == 0
meta["confirmed"] = bool(ok)
if ok:
    r = subprocess.run([sys.executable, os.path.join(V, "tools", "run_mutant.py"), os.path.join(src, "patch.diff")], capture_output=True, text=True)
    fired = [l for l in r.stdout.split("\n") if l.startswith("FIRED:")]
    meta["checks_fired"] = fired[0][7:].split() if fired else []
    meta["check_output"] = [l[:220] for l in r.stdout.split("\n") if l[:1] == "C" and " ok " not in l]
    meta["caught_by_own_check"] = any(x.rstrip("~") == pid for x in meta["checks_fired"])
    meta["caught_with_failing_input"] = pid in meta["checks_fired"]
    meta["what_we_ran"] = ["git worktree add /tmp/mutcheck-%s HEAD; git apply patch.diff" % name,
                           "PYTHONPATH=<worktree> /venv/bin/python -m pytest -q (test_nesting1 deselected: it is outside the pinned stable set)",
                           "demo.py on the original and on the changed tree",
                           "tools/run_mutant.py patch.diff  (all 20 quick checks against /repo with the patch applied, then git checkout -- .)"]
dst = os.path.join(V, "seeded", name)
os.makedirs(dst, exist_ok=True)
for f in ("patch.diff", "demo.py", "NOTES.md"):
    if os.path.exists(os.path.join(src, f)):
        shutil.copy(os.path.join(src, f), os.path.join(dst, f))
json.dump(meta, open(os.path.join(dst, "meta.json"), "w"), indent=1)
print(name, "confirmed" if ok else "NOT CONFIRMED", "fired:", " ".join(meta.get("checks_fired", [])))
if not ok:
    print(json.dumps(meta, indent=1)[:1500])
