#!/bin/bash
# every thorough check once (sequentially: each one already uses 14 processes); prints one line per property
cd "$(dirname "$0")/.." || exit 2
(cd lean && lake build AJ ajdriver >/dev/null 2>&1)
[ -n "$VP_RUN_REPO" ] && export AJ_REPO=$VP_RUN_REPO
export AJ_EVIDENCE_DIR=$(mktemp -d) AJ_REPLAY_DIR=$(mktemp -d)
bad=0
for i in $(seq -w 1 20); do
  s=$SECONDS
  out=$(./check C$i --tier thorough 2>&1); rc=$?
  echo "C$i rc=$rc $((SECONDS-s))s $(echo "$out" | tail -1 | cut -c1-150)"
  if [ $rc -ne 0 ]; then bad=1; echo "$out" | grep -E "VIOL|clause|mismatch|Error" | head -5; fi
done
exit $bad
