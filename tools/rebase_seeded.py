#!/usr/bin/env python3
"""
tools/rebase_seeded.py — after a `fix:` commit in /repo: every seeded patch that no longer applies to HEAD is re-applied
with a three-way merge (`git apply -3`, the pre-image blobs are in /repo's history) in a scratch worktree and, when that
merges cleanly, rewritten as a diff against HEAD (the original is kept as patch.orig.diff). Conflicts are listed: those
are rebased by hand.
"""
import glob, json, os, subprocess, sys
V = os.path.dirname(os.path.dirname(os.path.abspath(__file__)))
wt = "/tmp/rebase-seeded"
subprocess.run(["git", "-C", "/repo", "worktree", "remove", "--force", wt], capture_output=True)
subprocess.run(["git", "-C", "/repo", "worktree", "add", "-q", "--detach", wt, "HEAD"], check=True)
head = subprocess.run(["git", "-C", "/repo", "rev-parse", "--short", "HEAD"], capture_output=True, text=True).stdout.strip()
try:
    for d in sorted(glob.glob(os.path.join(V, "seeded", "*"))):
        patch = os.path.join(d, "patch.diff")
        subprocess.run(["git", "-C", wt, "checkout", "-q", "--", "."])
        subprocess.run(["git", "-C", wt, "reset", "-q", "--hard", "HEAD"])
        if subprocess.run(["git", "-C", wt, "apply", "--check", patch], capture_output=True).returncode == 0:
            continue
        r = subprocess.run(["git", "-C", wt, "apply", "-3", patch], capture_output=True, text=True)
        conflict = "conflicts" in (r.stdout + r.stderr) or r.returncode != 0
        if conflict:
            print("CONFLICT", os.path.basename(d), (r.stderr or r.stdout).strip().split("\n")[-1][:120])
            continue
        new = subprocess.run(["git", "-C", wt, "diff", "HEAD", "--", "asynciojobs"], capture_output=True, text=True).stdout
        if not new.strip():
            print("EMPTY", os.path.basename(d))
            continue
        if not os.path.exists(os.path.join(d, "patch.orig.diff")):
            os.rename(patch, os.path.join(d, "patch.orig.diff"))
        open(patch, "w").write(new)
        m = json.load(open(os.path.join(d, "meta.json")))
        m["rebased_on"] = head
        json.dump(m, open(os.path.join(d, "meta.json"), "w"), indent=1)
        print("rebased", os.path.basename(d))
finally:
    subprocess.run(["git", "-C", "/repo", "worktree", "remove", "--force", wt], capture_output=True)
