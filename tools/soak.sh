#!/bin/bash
# soak: every quick check under many seeds on the unchanged tree; prints only failures. Usage: tools/soak.sh <from> <to>
cd "$(dirname "$0")/.." || exit 2
(cd lean && lake build AJ ajdriver >/dev/null 2>&1)
export AJ_EVIDENCE_DIR=$(mktemp -d) AJ_REPLAY_DIR=$(mktemp -d)
[ -n "$VP_RUN_REPO" ] && export AJ_REPO=$VP_RUN_REPO   # a private snapshot of /repo when run with `vp run --with-repo`
for seed in $(seq $1 $2); do
  for i in $(seq -w 1 20); do
    out=$(VERIF_SEED=$seed ./check C$i --no-audit 2>&1); rc=$?
    if [ $rc -ne 0 ]; then echo "== seed=$seed C$i rc=$rc"; echo "$out" | grep -E "VIOL|clause|mismatch|Error|Trace" | head -6; cp -r $AJ_REPLAY_DIR /tmp/soak-replays-$seed-$i 2>/dev/null; fi
  done
  echo "seed $seed done"
done
