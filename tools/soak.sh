#!/bin/bash
# soak: every quick check under many seeds on the unchanged tree, 8 seeds at a time; prints only failures.
# Usage: tools/soak.sh <from> <to>      (with `vp run --with-repo` a private snapshot of /repo is used)
cd "$(dirname "$0")/.." || exit 2
(cd lean && lake build AJ ajdriver >/dev/null 2>&1)
[ -n "$VP_RUN_REPO" ] && export AJ_REPO=$VP_RUN_REPO
one() {
  seed=$1
  export AJ_EVIDENCE_DIR=$(mktemp -d) AJ_REPLAY_DIR=$(mktemp -d)
  for i in $(seq -w 1 20); do
    out=$(VERIF_SEED=$seed ./check C$i --no-audit 2>&1); rc=$?
    if [ $rc -ne 0 ]; then echo "== seed=$seed C$i rc=$rc"; echo "$out" | grep -E "VIOL|clause|mismatch|Error|Trace" | head -6; mkdir -p /tmp/soak-replays; cp -r $AJ_REPLAY_DIR /tmp/soak-replays/$seed-C$i 2>/dev/null; fi
  done
  echo "seed $seed done"
}
export -f one
seq $1 $2 | xargs -P 8 -I{} bash -c 'one {}'
