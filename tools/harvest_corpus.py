#!/usr/bin/env python3
"""
For every confirmed seeded change of a dynamic property: apply it to /repo, run the property's own quick check, keep the
(shrunk) failing scenario as corpus/<pid>/<name>.json, undo the patch. These scenarios then run first in every check.
"""
import glob, json, os, shutil, subprocess, sys, tempfile
V = os.path.dirname(os.path.dirname(os.path.abspath(__file__)))
for d in sorted(glob.glob(os.path.join(V, "seeded", "*"))):
    m = json.load(open(os.path.join(d, "meta.json")))
    pid, name = m["breaks_property"], m["name"]
    if not m.get("confirmed") or int(pid[1:]) > 14:
        continue
    dst = os.path.join(V, "corpus", pid, name + ".json")
    if os.path.exists(dst):
        continue
    if subprocess.run(["git", "-C", "/repo", "status", "--porcelain", "--untracked-files=no"], capture_output=True, text=True).stdout.strip():
        sys.exit("/repo not clean")
    tmp = tempfile.mkdtemp()
    subprocess.run(["git", "-C", "/repo", "apply", os.path.join(d, "patch.diff")], check=True)
    try:
        env = dict(os.environ, AJ_EVIDENCE_DIR=os.path.join(tmp, "ev"), AJ_REPLAY_DIR=os.path.join(tmp, "rp"))
        subprocess.run([os.path.join(V, "check"), pid, "--no-audit"], capture_output=True, text=True, env=env, cwd=V)
    finally:
        subprocess.run(["git", "-C", "/repo", "checkout", "--", "."])
    got = None
    for f in sorted(glob.glob(os.path.join(tmp, "rp", pid + "-*.json"))):
        r = json.load(open(f))
        if r.get("case", {}).get("kind") == "scenario":
            got = r
            break
    if got:
        os.makedirs(os.path.dirname(dst), exist_ok=True)
        json.dump({"scenario": got["case"]["scenario"], "from": name, "clause": got["clause"]}, open(dst, "w"), indent=1)
        print(name, "->", os.path.relpath(dst, V), ":", got["clause"][:90])
    else:
        print(name, ": no scenario replay")
    shutil.rmtree(tmp, ignore_errors=True)
