#!/usr/bin/env python3
"""prints the table of seeded changes (seeded/*/meta.json) for DESIGN.md I.7"""
import json, os, glob
V = os.path.dirname(os.path.dirname(os.path.abspath(__file__)))
rows = []
for d in sorted(glob.glob(os.path.join(V, "seeded", "*"))):
    m = json.load(open(os.path.join(d, "meta.json")))
    notes = ""
    np_ = os.path.join(d, "NOTES.md")
    if os.path.exists(np_):
        txt = open(np_).read().strip().split("\n")
        notes = " ".join(l.strip() for l in txt[:4])[:160]
    rows.append((m["name"], m["breaks_property"], "yes" if m.get("confirmed") else "NO",
                 "yes" if m.get("caught_with_failing_input") else ("tie only" if m.get("caught_by_own_check") else "MISSED"),
                 " ".join(m.get("checks_fired", []))))
print("| change | breaks | confirmed | caught by its own check | all checks that fired (`~` = no failing input) |")
print("|---|---|---|---|---|")
for r in rows:
    print("| %s | %s | %s | %s | %s |" % r)
